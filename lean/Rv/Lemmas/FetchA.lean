import Rv.Model.Fetch
/-
  Rv.Lemmas.FetchA — lemmas about the request state machine `Rv.Fetch.handle`
  for Props/C03 (freshness at request level) and Props/C04 (storability at
  request level).  Core Lean only.
-/
namespace Rv.Lemmas.FetchA
open Rv Rv.Fetch

/-! ### the store as a keyed list -/

theorem lookup_some {c : Cache} {res : Nat} {q : String} {e : CEntry}
    (h : lookup c res q = some e) : e ∈ c ∧ e.res = res ∧ e.query = q := by
  unfold lookup at h
  have h1 := List.mem_of_find?_eq_some h
  have h2 := List.find?_some h
  simp at h2
  exact ⟨h1, h2⟩

theorem mem_erase {c : Cache} {res : Nat} {q : String} {e : CEntry}
    (h : e ∈ erase c res q) : e ∈ c := (List.mem_filter.1 h).1

theorem lookup_cons_self (e : CEntry) (c : Cache) {res : Nat} {q : String}
    (h1 : e.res = res) (h2 : e.query = q) : lookup (e :: c) res q = some e := by
  simp [lookup, h1, h2]

/-! ### the origin -/

/-- a request without validators is never answered 304. -/
theorem originAnswer_noval (tbl : Nat → Option ORes) (u : UpReq) (h1 : u.inm = "") (h2 : u.ims = none)
    (o : ORes) : originAnswer tbl u ≠ .notModified o := by
  unfold originAnswer
  split
  · simp
  · simp only [h1, h2]
    simp
    repeat' split
    all_goals simp

/-! ### one upstream exchange -/

/-- the entry `onAnswer` writes for a storable 200. -/
def mkEntry (cfg : Cfg) (now : Int) (res : Nat) (q : String) (o : ORes) : CEntry :=
  { res := res, query := q, o := o, expires := lifetimeEnd cfg o now, timeWritten := now }

/-- the entry a 304 leaves. -/
def renew (cfg : Cfg) (now : Int) (e : CEntry) : CEntry := { e with expires := now + cfg.defaultMaxAge }

/-- the possible outcomes of one upstream exchange as far as the store is concerned. -/
inductive FUCase (cfg : Cfg) (c : Cache) (now : Int) (u : UpReq) : Fetched → Cache → Prop
  | direct (a : OAns) : FUCase cfg c now u (.direct a) c
  | notCacheable : FUCase cfg c now u .notCacheable c
  | stored (o : ORes) (h200 : o.status = 200) (hs : storable cfg o u.method now = true) :
      FUCase cfg c now u (.cached (mkEntry cfg now u.res u.query o) 200)
        (mkEntry cfg now u.res u.query o :: erase c u.res u.query)
  | renewed (e0 : CEntry) (hl : lookup c u.res u.query = some e0) (hv : ¬ (u.inm = "" ∧ u.ims = none)) :
      FUCase cfg c now u (.cached (renew cfg now e0) 304) (renew cfg now e0 :: erase c u.res u.query)

theorem onAnswer_case (cfg : Cfg) (tbl : Nat → Option ORes) (c : Cache) (now : Int) (u : UpReq) :
    FUCase cfg c now u (onAnswer cfg c now u (originAnswer tbl u)).1 (onAnswer cfg c now u (originAnswer tbl u)).2 := by
  unfold onAnswer
  split
  · next o ho =>
    split
    · split
      · split
        · exact .notCacheable
        · next h200 hs _ => exact .stored o h200 hs
      · exact .direct _
    · exact .direct _
  · next o ho =>
    split
    · exact .notCacheable
    · next e0 hl =>
      refine .renewed e0 hl ?_
      intro hv
      exact originAnswer_noval tbl u hv.1 hv.2 o ho
  · exact .direct _

theorem FUCase.dropRange {cfg : Cfg} {c : Cache} {now : Int} {u : UpReq} {f : Fetched} {c' : Cache}
    (h : FUCase cfg c now { u with range := none } f c') : FUCase cfg c now u f c' := by
  cases h with
  | direct a => exact .direct a
  | notCacheable => exact .notCacheable
  | stored o h200 hs => exact .stored o h200 hs
  | renewed e0 hl hv => exact .renewed e0 hl hv

theorem fetchUpstream_case (cfg : Cfg) (tbl : Nat → Option ORes) (c : Cache) (now : Int) (u : UpReq) (rp : Bool) :
    FUCase cfg c now u (fetchUpstream cfg tbl c now u rp).out (fetchUpstream cfg tbl c now u rp).cache := by
  have h0 := onAnswer_case cfg tbl c now u
  cases h : originAnswer tbl u <;> simp only [fetchUpstream, h] <;> rw [h] at h0
  case unsat o =>
    split
    · exact .direct _
    · cases rp
      · exact onAnswer_case cfg tbl c now u
      · exact (onAnswer_case cfg tbl c now { u with range := none }).dropRange
  all_goals exact h0

theorem fetchUpstream_log (cfg : Cfg) (tbl : Nat → Option ORes) (c : Cache) (now : Int) (u : UpReq) (rp : Bool) :
    (fetchUpstream cfg tbl c now u rp).log ≠ [] := by
  cases h : originAnswer tbl u <;> simp only [fetchUpstream, h]
  case unsat o => split <;> simp
  all_goals simp

theorem storable_get {cfg : Cfg} {o : ORes} {m : String} {now : Int} (h : storable cfg o m now = true) :
    m = "GET" ∧ o.status = 200 ∧ storable cfg o "GET" now = true := by
  unfold storable at h ⊢
  simp at h ⊢
  exact ⟨h.2, h.1.2, h.1.1, h.1.2⟩

/-! ### dedupFetch -/

/-- the conditional request `dedupFetch` builds from the stored validators of a stale entry. -/
def condReq (r : Req) (range : Option Str) (e : CEntry) : UpReq :=
  { upReq r range with
    inm := e.o.etag,
    ims := (match e.o.lm with | .at l => some l | _ => none) }

/-- the possible outcomes of `dedupFetch` (`rp` = the Range header parsed). -/
inductive DFCase (cfg : Cfg) (c : Cache) (now : Int) (r : Req) (rp : Bool) :
    Fetched → Label → Cache → List UpReq → Prop
  | hit (e : CEntry) (hl : lookup c r.res r.query = some e) (hf : ¬ e.expires < now)
      (hrp : rp = false) (hm : r.method = "GET") : DFCase cfg c now r rp (.cached e 0) .hit c []
  | direct (a : OAns) (log : List UpReq) (hlog : log ≠ []) : DFCase cfg c now r rp (.direct a) .miss c log
  | stored (o : ORes) (lab : Label) (log : List UpReq) (hlab : lab = .miss ∨ lab = .revalidated) (hlog : log ≠ [])
      (hm : r.method = "GET") (h200 : o.status = 200) (hs : storable cfg o "GET" now = true) :
      DFCase cfg c now r rp (.cached (mkEntry cfg now r.res r.query o) 200) lab
        (mkEntry cfg now r.res r.query o :: erase c r.res r.query) log
  | renewed (e0 : CEntry) (log : List UpReq) (hl : lookup c r.res r.query = some e0) (hstale : e0.expires < now)
      (hrp : rp = false) (hm : r.method = "GET") (hlog : log ≠ []) :
      DFCase cfg c now r rp (.cached (renew cfg now e0) 304) .revalidated
        (renew cfg now e0 :: erase c r.res r.query) log

/-- what `dedupFetch` makes of the revalidation exchange `fu`. -/
def staleResult (tbl : Nat → Option ORes) (r : Req) (range : Option Str) (fu : FU) : DF :=
  match fu.out with
  | .cached e' st => { out := .cached e' st, label := .revalidated, cache := fu.cache, log := fu.log, rangeDropped := fu.rangeDropped }
  | _ => directFallback tbl fu.cache r range fu.log fu.rangeDropped

theorem stale_case (cfg : Cfg) (tbl : Nat → Option ORes) (c : Cache) (now : Int) (r : Req)
    (range : Option Str) (rp : Bool) (e : CEntry) (he : lookup c r.res r.query = some e) (hst : e.expires < now)
    (hrp : rp = false) (hm : r.method = "GET") (fu : FU)
    (fc : FUCase cfg c now (condReq r range e) fu.out fu.cache) (fl : fu.log ≠ []) :
    DFCase cfg c now r rp (staleResult tbl r range fu).out (staleResult tbl r range fu).label
      (staleResult tbl r range fu).cache (staleResult tbl r range fu).log := by
  obtain ⟨out, cache, log, rd⟩ := fu
  simp only [staleResult] at fc fl ⊢
  cases fc with
  | direct a => exact .direct _ _ (by simp [directFallback])
  | notCacheable => exact .direct _ _ (by simp [directFallback])
  | stored o h200 hs =>
    obtain ⟨_, _, hs'⟩ := storable_get hs
    exact .stored o .revalidated log (.inr rfl) fl hm h200 hs'
  | renewed e0 hl hv =>
    have : e0 = e := Option.some.inj (hl.symm.trans he)
    subst this
    exact .renewed e0 log he hst hrp hm fl

theorem dedupFetch_case (cfg : Cfg) (tbl : Nat → Option ORes) (c : Cache) (now : Int) (r : Req)
    (range : Option Str) (rp : Bool) :
    DFCase cfg c now r rp (dedupFetch cfg tbl c now r range rp).out (dedupFetch cfg tbl c now r range rp).label
      (dedupFetch cfg tbl c now r range rp).cache (dedupFetch cfg tbl c now r range rp).log := by
  unfold dedupFetch dedupFetchEnv
  split
  · have fc := fetchUpstream_case cfg tbl c now (upReq r range) rp
    have fl := fetchUpstream_log cfg tbl c now (upReq r range) rp
    revert fc fl
    generalize fetchUpstream cfg tbl c now (upReq r range) rp = fu
    intro fc fl
    obtain ⟨out, cache, log, rd⟩ := fu
    simp only at fc fl ⊢
    cases fc with
    | direct a => exact .direct _ _ fl
    | notCacheable => exact .direct _ _ (by simp [directFallback])
    | stored o h200 hs =>
      obtain ⟨hm, _, hs'⟩ := storable_get hs
      exact .stored o .miss log (.inl rfl) fl hm h200 hs'
    | renewed e0 hl hv => exact absurd ⟨rfl, rfl⟩ hv
  · next hcond =>
    have hrp : rp = false := by cases rp <;> simp_all
    have hm : r.method = "GET" := by cases rp <;> simp_all
    split
    · next hnone =>
      have fc := fetchUpstream_case cfg tbl c now (upReq r range) false
      have fl := fetchUpstream_log cfg tbl c now (upReq r range) false
      revert fc fl
      generalize fetchUpstream cfg tbl c now (upReq r range) false = fu
      intro fc fl
      obtain ⟨out, cache, log, rd⟩ := fu
      simp only at fc fl ⊢
      cases fc with
      | direct a => exact .direct _ _ (by simp [directFallback])
      | notCacheable => exact .direct _ _ (by simp [directFallback])
      | stored o h200 hs =>
        obtain ⟨_, _, hs'⟩ := storable_get hs
        exact .stored o .miss log (.inl rfl) fl hm h200 hs'
      | renewed e0 hl hv => exact absurd ⟨rfl, rfl⟩ hv
    · next e he =>
      split
      · next hf => exact .hit e he hf hrp hm
      · next hst =>
        have hst' : e.expires < now := Decidable.not_not.1 hst
        exact stale_case cfg tbl c now r range rp e he hst' hrp hm
          (fetchUpstream cfg tbl c now (condReq r range e) false)
          (fetchUpstream_case cfg tbl c now (condReq r range e) false)
          (fetchUpstream_log cfg tbl c now (condReq r range e) false)

/-! ### handle -/

/-- the parsed Range header of a request (`handle`'s `parsed`). -/
def parsedOf (r : Req) : Option (Int × Int) :=
  match r.range with
  | some x => (match Range.parseRangeHeader x with
      | .ok a b => some (a, b)
      | _ => none)
  | none => none

/-- `handle`'s first `dedupFetch`. -/
def dfOf (cfg : Cfg) (tbl : Nat → Option ORes) (c : Cache) (now : Int) (r : Req) : DF :=
  dedupFetch cfg tbl c now r r.range (parsedOf r).isSome

/-- `handle`'s second `dedupFetch` (the retry without Range). -/
def df2Of (cfg : Cfg) (tbl : Nat → Option ORes) (c : Cache) (now : Int) (r : Req) : DF :=
  dedupFetch cfg tbl (dfOf cfg tbl c now r).cache now r none false

inductive HCase (cfg : Cfg) (tbl : Nat → Option ORes) (c : Cache) (now : Int) (r : Req) :
    Resp × Cache × List UpReq → Prop
  | relay (a : OAns) (h : (dfOf cfg tbl c now r).out = .direct a) :
      HCase cfg tbl c now r
        (relay a r.method (dfOf cfg tbl c now r).label, (dfOf cfg tbl c now r).cache, (dfOf cfg tbl c now r).log)
  | full (e : CEntry) (st : Nat) (h : (dfOf cfg tbl c now r).out = .cached e st) :
      HCase cfg tbl c now r
        (fullFromCache e (dfOf cfg tbl c now r).label st r.method now, (dfOf cfg tbl c now r).cache,
          (dfOf cfg tbl c now r).log)
  | other (resp : Resp) (hl : resp.label = .none) (ha : resp.age = none)
      (h : (dfOf cfg tbl c now r).out = .notCacheable ∨ (parsedOf r).isSome = true) :
      HCase cfg tbl c now r (resp, (dfOf cfg tbl c now r).cache, (dfOf cfg tbl c now r).log)
  | retry (resp : Resp) (hl : resp.label = .none) (ha : resp.age = none)
      (hp : (parsedOf r).isSome = true) (hr : cfg.retryInvalidRange = true) :
      HCase cfg tbl c now r
        (resp, (df2Of cfg tbl c now r).cache, (dfOf cfg tbl c now r).log ++ (df2Of cfg tbl c now r).log)

theorem handle_eq (cfg : Cfg) (tbl : Nat → Option ORes) (c : Cache) (now : Int) (r : Req) :
    handle cfg tbl c now r =
      match (dfOf cfg tbl c now r).out with
      | .direct a => (relay a r.method (dfOf cfg tbl c now r).label, (dfOf cfg tbl c now r).cache, (dfOf cfg tbl c now r).log)
      | .notCacheable => ({ status := 502, label := .none, body := .proxyError }, (dfOf cfg tbl c now r).cache, (dfOf cfg tbl c now r).log)
      | .cached e upStatus =>
        match (if (parsedOf r).isSome && !(dfOf cfg tbl c now r).rangeDropped then parsedOf r else none) with
        | none => (fullFromCache e (dfOf cfg tbl c now r).label upStatus r.method now, (dfOf cfg tbl c now r).cache, (dfOf cfg tbl c now r).log)
        | some (a, b) =>
          match Range.sliceSize a b e.o.size with
          | none =>
            if !cfg.retryInvalidRange then
              ({ status := 416, label := .none, body := .proxyError, unsatRange := some e.o.size }, (dfOf cfg tbl c now r).cache, (dfOf cfg tbl c now r).log)
            else
              (match (df2Of cfg tbl c now r).out with
                | .cached e2 _ =>
                  ({ status := 200, label := .none, body := if r.method = "HEAD" then .empty else .stored e2.o.ver 0 e2.o.size, hdrFrom := some e2.o },
                   (df2Of cfg tbl c now r).cache, (dfOf cfg tbl c now r).log ++ (df2Of cfg tbl c now r).log)
                | .direct a2 => ({ relay a2 r.method .none with label := .none, fwdStatus := none }, (df2Of cfg tbl c now r).cache, (dfOf cfg tbl c now r).log ++ (df2Of cfg tbl c now r).log)
                | .notCacheable => ({ status := 502, label := .none, body := .proxyError }, (df2Of cfg tbl c now r).cache, (dfOf cfg tbl c now r).log ++ (df2Of cfg tbl c now r).log))
          | some (st, en) =>
            if ifRangeMismatch r e then (fullFromCache e (dfOf cfg tbl c now r).label upStatus r.method now, (dfOf cfg tbl c now r).cache, (dfOf cfg tbl c now r).log)
            else
              ({ status := 206, label := .none,
                 body := if r.method = "HEAD" then .empty else .stored e.o.ver st.toNat (en - st + 1).toNat,
                 hdrFrom := some e.o, contentRange := some (st.toNat, en.toNat, e.o.size) }, (dfOf cfg tbl c now r).cache, (dfOf cfg tbl c now r).log) := rfl

theorem handle_case (cfg : Cfg) (tbl : Nat → Option ORes) (c : Cache) (now : Int) (r : Req) :
    HCase cfg tbl c now r (handle cfg tbl c now r) := by
  rw [handle_eq]
  split
  · next a h => exact .relay a h
  · next h => exact .other _ rfl rfl (.inl h)
  · next e st h =>
    split
    · exact .full e st h
    · next a b hp =>
      have hp' : (parsedOf r).isSome = true := by
        split at hp
        · next hc => simp at hc; exact hc.1
        · cases hp
      split
      · split
        · exact .other _ rfl rfl (.inr hp')
        · next hr =>
          have hr' : cfg.retryInvalidRange = true := by simpa using hr
          split
          · exact .retry _ rfl rfl hp' hr'
          · exact .retry _ rfl rfl hp' hr'
          · exact .retry _ rfl rfl hp' hr'
      · split
        · exact .full e st h
        · exact .other _ rfl rfl (.inr hp')

theorem df_case (cfg : Cfg) (tbl : Nat → Option ORes) (c : Cache) (now : Int) (r : Req) :
    DFCase cfg c now r (parsedOf r).isSome (dfOf cfg tbl c now r).out (dfOf cfg tbl c now r).label
      (dfOf cfg tbl c now r).cache (dfOf cfg tbl c now r).log :=
  dedupFetch_case cfg tbl c now r r.range (parsedOf r).isSome

theorem df2_case (cfg : Cfg) (tbl : Nat → Option ORes) (c : Cache) (now : Int) (r : Req) :
    DFCase cfg (dfOf cfg tbl c now r).cache now r false (df2Of cfg tbl c now r).out (df2Of cfg tbl c now r).label
      (df2Of cfg tbl c now r).cache (df2Of cfg tbl c now r).log :=
  dedupFetch_case cfg tbl (dfOf cfg tbl c now r).cache now r none false

/-! ### consequences of the case analysis of `dedupFetch` -/

section DF
variable {cfg : Cfg} {c : Cache} {now : Int} {r : Req} {rp : Bool}
  {out : Fetched} {lab : Label} {cache : Cache} {log : List UpReq}

/-- no upstream exchange, or the label HIT: the fresh-entry branch. -/
theorem DFCase.hit_of (h : DFCase cfg c now r rp out lab cache log) (hh : log = [] ∨ lab = .hit) :
    ∃ e, lookup c r.res r.query = some e ∧ ¬ e.expires < now ∧ rp = false ∧ r.method = "GET" ∧
      out = .cached e 0 ∧ lab = .hit ∧ cache = c ∧ log = [] := by
  cases h with
  | hit e hl hf hrp hm => exact ⟨e, hl, hf, hrp, hm, rfl, rfl, rfl, rfl⟩
  | direct a log hlog =>
    rcases hh with hh | hh
    · exact absurd hh hlog
    · cases hh
  | stored o lab log hlab hlog hm h200 hs =>
    rcases hh with hh | hh
    · exact absurd hh hlog
    · subst hh; rcases hlab with h | h <;> cases h
  | renewed e0 log hl hstale hrp hm hlog =>
    rcases hh with hh | hh
    · exact absurd hh hlog
    · cases hh

theorem DFCase.log_ne (h : DFCase cfg c now r rp out lab cache log)
    (hn : rp = true ∨ r.method ≠ "GET" ∨ lookup c r.res r.query = none ∨ lab ≠ .hit) : log ≠ [] := by
  intro hl
  obtain ⟨e, h1, _, h2, h3, _, h4, _, _⟩ := h.hit_of (.inl hl)
  rcases hn with hn | hn | hn | hn
  · rw [h2] at hn; cases hn
  · exact hn h3
  · rw [h1] at hn; cases hn
  · exact hn h4

theorem DFCase.nonget (h : DFCase cfg c now r rp out lab cache log) (hm : r.method ≠ "GET") :
    cache = c ∧ log ≠ [] := by
  cases h with
  | hit e hl hf hrp hm' => exact absurd hm' hm
  | direct a log hlog => exact ⟨rfl, hlog⟩
  | stored o lab log hlab hlog hm' h200 hs => exact absurd hm' hm
  | renewed e0 log hl hstale hrp hm' hlog => exact absurd hm' hm

/-- an entry written by this request from a 200 answer. -/
def IsNew (cfg : Cfg) (now : Int) (r : Req) (e : CEntry) : Prop :=
  r.method = "GET" ∧ e.o.status = 200 ∧ storable cfg e.o "GET" now = true ∧
    e.expires = lifetimeEnd cfg e.o now ∧ e.timeWritten = now

/-- every entry of the store after `dedupFetch` is old, new, or a stale entry renewed. -/
theorem DFCase.cache_mem (h : DFCase cfg c now r rp out lab cache log) (e : CEntry) (he : e ∈ cache) :
    e ∈ c ∨ IsNew cfg now r e ∨
      (rp = false ∧ ∃ e0, lookup c r.res r.query = some e0 ∧ e0.expires < now ∧ e = renew cfg now e0) := by
  cases h with
  | hit e1 hl hf hrp hm => exact .inl he
  | direct a log hlog => exact .inl he
  | stored o lab log hlab hlog hm h200 hs =>
    rcases List.mem_cons.1 he with he | he
    · subst he; exact .inr (.inl ⟨hm, h200, hs, rfl, rfl⟩)
    · exact .inl (mem_erase he)
  | renewed e0 log hl hstale hrp hm hlog =>
    rcases List.mem_cons.1 he with he | he
    · exact .inr (.inr ⟨hrp, e0, hl, hstale, he⟩)
    · exact .inl (mem_erase he)

/-- the entry handed to `handle` is in the store under the request's key. -/
theorem DFCase.out_mem (h : DFCase cfg c now r rp out lab cache log) {e : CEntry} {st : Nat}
    (ho : out = .cached e st) : e ∈ cache ∧ e.res = r.res ∧ e.query = r.query := by
  cases h with
  | hit e1 hl hf hrp hm => cases ho; exact lookup_some hl
  | direct a log hlog => cases ho
  | stored o lab log hlab hlog hm h200 hs => cases ho; exact ⟨List.mem_cons_self, rfl, rfl⟩
  | renewed e0 log hl hstale hrp hm hlog =>
    cases ho
    obtain ⟨_, h1, h2⟩ := lookup_some hl
    exact ⟨List.mem_cons_self, h1, h2⟩

theorem DFCase.direct_of (h : DFCase cfg c now r rp out lab cache log) {a : OAns} (ho : out = .direct a) :
    lab = .miss ∧ cache = c ∧ log ≠ [] := by
  cases h with
  | hit e1 hl hf hrp hm => cases ho
  | direct a log hlog => exact ⟨rfl, rfl, hlog⟩
  | stored o lab log hlab hlog hm h200 hs => cases ho
  | renewed e0 log hl hstale hrp hm hlog => cases ho

end DF

/-! ### the response -/

theorem relay_label (a : OAns) (m : String) (lab : Label) :
    (relay a m lab).label = lab ∨ (relay a m lab).label = .none := by
  unfold relay
  simp only
  split
  · exact .inl rfl
  · exact .inr rfl

theorem relay_age (a : OAns) (m : String) (lab : Label) : (relay a m lab).age = none := rfl

/-! ### C03 -/

theorem hit_means_fresh_and_silent (cfg : Cfg) (tbl : Nat → Option ORes) (c : Cache) (now : Int) (r : Req)
    (h : (handle cfg tbl c now r).1.label = .hit) :
    (handle cfg tbl c now r).2.2 = [] ∧
    ∃ e, lookup c r.res r.query = some e ∧ ¬ (e.expires < now) ∧ (handle cfg tbl c now r).1.hdrFrom = some e.o := by
  have hc := handle_case cfg tbl c now r
  have dc := df_case cfg tbl c now r
  generalize handle cfg tbl c now r = hh at hc h ⊢
  cases hc with
  | relay a ho =>
    rcases relay_label a r.method (dfOf cfg tbl c now r).label with h1 | h1
    · obtain ⟨e, _, _, _, _, h2, _⟩ := dc.hit_of (.inr (h1.symm.trans h))
      rw [ho] at h2; cases h2
    · rw [h1] at h; cases h
  | full e st ho =>
    obtain ⟨e1, h1, h2, _, _, h3, _, _, h4⟩ := dc.hit_of (.inr h)
    rw [ho] at h3; cases h3
    exact ⟨h4, e, h1, h2, rfl⟩
  | other resp hl ha hp => rw [hl] at h; cases h
  | retry resp hl ha hp hr => rw [hl] at h; cases h

theorem silent_only_while_fresh (cfg : Cfg) (tbl : Nat → Option ORes) (c : Cache) (now : Int) (r : Req)
    (h : (handle cfg tbl c now r).2.2 = []) :
    ∃ e, lookup c r.res r.query = some e ∧ ¬ (e.expires < now) ∧ (handle cfg tbl c now r).1.hdrFrom = some e.o := by
  have hc := handle_case cfg tbl c now r
  have dc := df_case cfg tbl c now r
  generalize handle cfg tbl c now r = hh at hc h ⊢
  cases hc with
  | relay a ho =>
    obtain ⟨e, _, _, _, _, h2, _⟩ := dc.hit_of (.inl h)
    rw [ho] at h2; cases h2
  | full e st ho =>
    obtain ⟨e1, h1, h2, _, _, h3, _⟩ := dc.hit_of (.inl h)
    rw [ho] at h3; cases h3
    exact ⟨e, h1, h2, rfl⟩
  | other resp hl ha hp =>
    obtain ⟨e1, _, _, h1, _, h3, _⟩ := dc.hit_of (.inl h)
    rcases hp with hp | hp
    · rw [hp] at h3; cases h3
    · rw [h1] at hp; cases hp
  | retry resp hl ha hp hr =>
    obtain ⟨e1, _, _, h1, _⟩ := dc.hit_of (.inl (List.append_eq_nil_iff.1 h).1)
    rw [h1] at hp; cases hp

theorem miss_means_origin_contacted (cfg : Cfg) (tbl : Nat → Option ORes) (c : Cache) (now : Int) (r : Req)
    (h : (handle cfg tbl c now r).1.label = .miss ∨ (handle cfg tbl c now r).1.label = .revalidated) :
    (handle cfg tbl c now r).2.2 ≠ [] := by
  have hc := handle_case cfg tbl c now r
  have dc := df_case cfg tbl c now r
  generalize handle cfg tbl c now r = hh at hc h ⊢
  cases hc with
  | relay a ho => exact (dc.direct_of ho).2.2
  | full e st ho =>
    refine dc.log_ne (.inr (.inr (.inr ?_)))
    intro hl
    have h' : (dfOf cfg tbl c now r).label = .miss ∨ (dfOf cfg tbl c now r).label = .revalidated := h
    rw [hl] at h'; rcases h' with h | h <;> cases h
  | other resp hl ha hp => rw [hl] at h; rcases h with h | h <;> cases h
  | retry resp hl ha hp hr => rw [hl] at h; rcases h with h | h <;> cases h

theorem parsedOf_none {r : Req} (hr : r.range = none) : parsedOf r = none := by
  unfold parsedOf; rw [hr]

theorem fresh_get_is_hit (cfg : Cfg) (tbl : Nat → Option ORes) (c : Cache) (now : Int) (r : Req) (e : CEntry)
    (hm : r.method = "GET") (hr : r.range = none) (he : lookup c r.res r.query = some e) (hf : ¬ (e.expires < now)) :
    (handle cfg tbl c now r).1.label = .hit ∧ (handle cfg tbl c now r).2.2 = [] ∧
    (handle cfg tbl c now r).1.body = .stored e.o.ver 0 e.o.size ∧ (handle cfg tbl c now r).2.1 = c := by
  have hd : dfOf cfg tbl c now r =
      { out := .cached e 0, label := .hit, cache := c, log := [], rangeDropped := false } := by
    unfold dfOf dedupFetch dedupFetchEnv
    simp [parsedOf_none hr, hm, he, hf]
  rw [handle_eq, hd]
  simp only [parsedOf_none hr, hm, Option.isSome_none, Bool.false_and, Bool.false_eq_true, if_false]
  exact ⟨rfl, trivial, rfl, trivial⟩

theorem age_consistent (cfg : Cfg) (tbl : Nat → Option ORes) (c : Cache) (now : Int) (r : Req) (a : Int)
    (h : (handle cfg tbl c now r).1.age = some a) :
    ∃ e ∈ (handle cfg tbl c now r).2.1, e.res = r.res ∧ e.query = r.query ∧ a = currentAge e now := by
  have hc := handle_case cfg tbl c now r
  have dc := df_case cfg tbl c now r
  generalize handle cfg tbl c now r = hh at hc h ⊢
  cases hc with
  | relay a ho => cases h
  | full e st ho =>
    obtain ⟨h1, h2, h3⟩ := dc.out_mem ho
    refine ⟨e, h1, h2, h3, ?_⟩
    have h' : (match (dfOf cfg tbl c now r).label with
        | .hit | .revalidated => some (currentAge e now) | _ => none) = some a := h
    split at h'
    · exact (Option.some.inj h').symm
    · exact (Option.some.inj h').symm
    · cases h'
  | other resp hl ha hp => rw [ha] at h; cases h
  | retry resp hl ha hp hr => rw [ha] at h; cases h

/-! ### the store after `handle` -/

/-- the store `handle` returns is that of the first `dedupFetch`, or (Range
    parsed, `retryInvalidRange`) that of the second. -/
theorem handle_cache (cfg : Cfg) (tbl : Nat → Option ORes) (c : Cache) (now : Int) (r : Req) :
    ((handle cfg tbl c now r).2.1 = (dfOf cfg tbl c now r).cache ∧
      ((handle cfg tbl c now r).2.2 = (dfOf cfg tbl c now r).log)) ∨
    ((handle cfg tbl c now r).2.1 = (df2Of cfg tbl c now r).cache ∧
      (handle cfg tbl c now r).2.2 = (dfOf cfg tbl c now r).log ++ (df2Of cfg tbl c now r).log ∧
      (parsedOf r).isSome = true ∧ cfg.retryInvalidRange = true) := by
  have hc := handle_case cfg tbl c now r
  generalize handle cfg tbl c now r = hh at hc ⊢
  cases hc with
  | relay a ho => exact .inl ⟨rfl, rfl⟩
  | full e st ho => exact .inl ⟨rfl, rfl⟩
  | other resp hl ha hp => exact .inl ⟨rfl, rfl⟩
  | retry resp hl ha hp hr => exact .inr ⟨rfl, rfl, hp, hr⟩

/-- classification of every entry of the store after one request. -/
theorem handle_mem (cfg : Cfg) (tbl : Nat → Option ORes) (c : Cache) (now : Int) (r : Req) (e : CEntry)
    (he : e ∈ (handle cfg tbl c now r).2.1) :
    e ∈ c ∨ IsNew cfg now r e ∨
    (∃ e0 ∈ c, e0.res = e.res ∧ e0.query = e.query ∧ e0.o = e.o ∧ e0.timeWritten = e.timeWritten ∧
      e.expires = now + cfg.defaultMaxAge) ∨
    (cfg.retryInvalidRange = true ∧ r.method = "GET" ∧ e.o.status = 200 ∧ storable cfg e.o "GET" now = true ∧
      lifetimeEnd cfg e.o now < now ∧ e.timeWritten = now ∧ e.expires = now + cfg.defaultMaxAge) := by
  have dc := df_case cfg tbl c now r
  have key : ∀ e', e' ∈ (dfOf cfg tbl c now r).cache →
      e' ∈ c ∨ IsNew cfg now r e' ∨
      ((parsedOf r).isSome = false ∧ ∃ e0 ∈ c, e0.res = e'.res ∧ e0.query = e'.query ∧ e0.o = e'.o ∧
        e0.timeWritten = e'.timeWritten ∧ e'.expires = now + cfg.defaultMaxAge) := by
    intro e' he'
    rcases dc.cache_mem e' he' with h | h | ⟨hrp, e0, hl, _, rfl⟩
    · exact .inl h
    · exact .inr (.inl h)
    · exact .inr (.inr ⟨hrp, e0, (lookup_some hl).1, rfl, rfl, rfl, rfl, rfl⟩)
  rcases handle_cache cfg tbl c now r with ⟨h1, _⟩ | ⟨h1, _, hp, hr⟩
  · rw [h1] at he
    rcases key e he with h | h | ⟨_, h⟩
    · exact .inl h
    · exact .inr (.inl h)
    · exact .inr (.inr (.inl h))
  · rw [h1] at he
    rcases (df2_case cfg tbl c now r).cache_mem e he with h | h | ⟨_, e0, hl, hst, rfl⟩
    · rcases key e h with h | h | ⟨hp', _⟩
      · exact .inl h
      · exact .inr (.inl h)
      · rw [hp] at hp'; cases hp'
    · exact .inr (.inl h)
    · rcases key e0 (lookup_some hl).1 with h | h | ⟨hp', _⟩
      · exact .inr (.inr (.inl ⟨e0, h, rfl, rfl, rfl, rfl, rfl⟩))
      · obtain ⟨h1, h2, h3, h4, h5⟩ := h
        refine .inr (.inr (.inr ⟨hr, h1, h2, h3, ?_, h5, rfl⟩))
        show lifetimeEnd cfg e0.o now < now
        rw [← h4]; exact hst
      · rw [hp] at hp'; cases hp'

theorem stored_lifetime (cfg : Cfg) (tbl : Nat → Option ORes) (c : Cache) (now : Int) (r : Req) (e : CEntry)
    (hin : e ∈ (handle cfg tbl c now r).2.1) (hnew : e ∉ c) :
    (e.expires = lifetimeEnd cfg e.o now ∧ e.timeWritten = now) ∨
    (∃ e0 ∈ c, e0.o = e.o ∧ e0.timeWritten = e.timeWritten ∧ e.expires = now + cfg.defaultMaxAge) ∨
    (cfg.retryInvalidRange = true ∧ e.timeWritten = now ∧ lifetimeEnd cfg e.o now < now ∧
      e.expires = now + cfg.defaultMaxAge) := by
  rcases handle_mem cfg tbl c now r e hin with h | h | ⟨e0, h0, _, _, h1, h2, h3⟩ | ⟨h1, _, _, _, h2, h3, h4⟩
  · exact absurd h hnew
  · exact .inl ⟨h.2.2.2.1, h.2.2.2.2⟩
  · exact .inr (.inl ⟨e0, h0, h1, h2, h3⟩)
  · exact .inr (.inr ⟨h1, h3, h2, h4⟩)

/-! ### C04 -/

theorem inv_preserved (cfg : Cfg) (tbl : Nat → Option ORes) (c : Cache) (now : Int) (r : Req)
    (h : ∀ e ∈ c, e.o.status = 200) : ∀ e ∈ (handle cfg tbl c now r).2.1, e.o.status = 200 := by
  intro e hin
  rcases handle_mem cfg tbl c now r e hin with h1 | h1 | ⟨e0, h0, _, _, h1, _⟩ | ⟨_, _, h1, _⟩
  · exact h e h1
  · exact h1.2.1
  · rw [← h1]; exact h e0 h0
  · exact h1

theorem stored_only_if_storable (cfg : Cfg) (tbl : Nat → Option ORes) (c : Cache) (now : Int) (r : Req) (e : CEntry)
    (hin : e ∈ (handle cfg tbl c now r).2.1) (hnew : e ∉ c) :
    (r.method = "GET" ∧ storable cfg e.o "GET" now = true) ∨
    (∃ e0 ∈ c, e0.o = e.o ∧ e0.res = e.res ∧ e0.query = e.query) := by
  rcases handle_mem cfg tbl c now r e hin with h | h | ⟨e0, h0, h1, h2, h3, _⟩ | ⟨_, h1, _, h2, _⟩
  · exact absurd h hnew
  · exact .inl ⟨h.1, h.2.2.1⟩
  · exact .inr ⟨e0, h0, h3, h1, h2⟩
  · exact .inl ⟨h1, h2⟩

theorem non_get_reaches_origin (cfg : Cfg) (tbl : Nat → Option ORes) (c : Cache) (now : Int) (r : Req)
    (h : r.method ≠ "GET") :
    (handle cfg tbl c now r).2.2 ≠ [] ∧ (handle cfg tbl c now r).2.1 = c := by
  obtain ⟨d1, d2⟩ := (df_case cfg tbl c now r).nonget h
  rcases handle_cache cfg tbl c now r with ⟨h1, h2⟩ | ⟨h1, h2, _, _⟩
  · rw [h1, h2]; exact ⟨d2, d1⟩
  · rw [h1, h2, ((df2_case cfg tbl c now r).nonget h).1]
    exact ⟨fun hn => d2 (List.append_eq_nil_iff.1 hn).1, d1⟩

theorem uncached_reaches_origin (cfg : Cfg) (tbl : Nat → Option ORes) (c : Cache) (now : Int) (r : Req)
    (h : lookup c r.res r.query = none) : (handle cfg tbl c now r).2.2 ≠ [] := by
  have d := (df_case cfg tbl c now r).log_ne (.inr (.inr (.inl h)))
  rcases handle_cache cfg tbl c now r with ⟨_, h2⟩ | ⟨_, h2, _, _⟩
  · rw [h2]; exact d
  · rw [h2]; exact fun hn => d (List.append_eq_nil_iff.1 hn).1

theorem storable_is_stored (cfg : Cfg) (tbl : Nat → Option ORes) (c : Cache) (now : Int) (r : Req) (o : ORes)
    (hm : r.method = "GET") (hr : r.range = none) (hl : lookup c r.res r.query = none)
    (ho : originAnswer tbl (upReq r none) = .full o) (hs : storable cfg o "GET" now = true)
    (hf : storeFails cfg o = false) :
    (∃ e, lookup (handle cfg tbl c now r).2.1 r.res r.query = some e ∧ e.o = o ∧ e.expires = lifetimeEnd cfg o now) ∧
    (handle cfg tbl c now r).1.label = .miss ∧ (handle cfg tbl c now r).1.storedFlag = true ∧
    (handle cfg tbl c now r).1.body = .stored o.ver 0 o.size := by
  have h200 : o.status = 200 := (storable_get hs).2.1
  have hfu : fetchUpstream cfg tbl c now (upReq r none) false =
      { out := .cached (mkEntry cfg now r.res r.query o) 200,
        cache := mkEntry cfg now r.res r.query o :: erase c r.res r.query,
        log := [upReq r none], rangeDropped := false } := by
    have hs' : storable cfg o (upReq r none).method now = true := by
      show storable cfg o r.method now = true
      rw [hm]; exact hs
    simp only [fetchUpstream, ho, onAnswer, h200, hs', hf]
    rfl
  have hd : dfOf cfg tbl c now r =
      { out := .cached (mkEntry cfg now r.res r.query o) 200, label := .miss,
        cache := mkEntry cfg now r.res r.query o :: erase c r.res r.query,
        log := [upReq r none], rangeDropped := false } := by
    unfold dfOf dedupFetch dedupFetchEnv
    simp [parsedOf_none hr, hm, hl, hr, hfu]
  rw [handle_eq, hd]
  simp only [parsedOf_none hr, hm, Option.isSome_none, Bool.false_and, Bool.false_eq_true, if_false]
  refine ⟨⟨mkEntry cfg now r.res r.query o, lookup_cons_self _ _ rfl rfl, rfl, rfl⟩, rfl, rfl, rfl⟩
