import Rv.Model.Users
import Rv.Spec.Users
import Rv.Lemmas.Auth
/-
  Rv.Lemmas.Users — proofs for Props/C20u (stored credentials, login,
  change-password).  Core Lean only.
-/
namespace Rv.Lemmas.Users
open Rv.Auth hiding run step init login
open Rv.Users Rv.Lemmas.Auth

/-! ### `run`, `step` -/

theorem run_append (c : Cfg) (x y : List UOp) (s : UState) : run c (x ++ y) s = run c y (run c x s) := by
  simp only [run, List.foldl_append]

theorem run_cons (c : Cfg) (op : UOp) (ops : List UOp) (s : UState) :
    run c (op :: ops) s = run c ops (step c s op) := rfl

theorem run_nil (c : Cfg) (s : UState) : run c [] s = s := rfl

theorem step_auth (c : Cfg) (s : UState) (op : UOp) :
    (step c s op).auth = Rv.Auth.step c s.auth (authOp s.tbl op) := rfl

theorem step_login (c : Cfg) (s : UState) (ck : Cookie) (name : String) (pw : Pw) :
    step c s (.login ck name pw) = (login c s ck name pw).1 := rfl

/-! ### the cookie: `liveUser` against `look` -/

theorem look_liveUser (c : Cfg) (st : St) (ck : Cookie) :
    (look c st ck).2.map (·.user) = liveUser st ck := by
  cases ck with
  | none => rfl
  | some sid =>
    simp only [look, liveUser]
    rcases getSession_cases c st sid with ⟨hf, hg⟩ | ⟨s, hf, h1, hg⟩ | ⟨s, hf, h1, _, hg⟩ | ⟨s, hf, h1, _, hg⟩
    · rw [hg, hf]; rfl
    · rw [hg, hf]; simp only [h1, if_false]; rfl
    · rw [hg, hf]; simp only [h1, if_true]; rfl
    · rw [hg, hf]; simp only [h1, if_true]; rfl

theorem look_isSome (c : Cfg) (st : St) (ck : Cookie) :
    (look c st ck).2.isSome = (liveUser st ck).isSome := by
  rw [← look_liveUser c st ck]
  cases (look c st ck).2 <;> rfl

/-- `liveUser` is the liveness condition of `Rv.Props.C20.guarded_needs_live_session`. -/
theorem liveUser_iff (st : St) (ck : Cookie) (u : Nat) :
    liveUser st ck = some u ↔
      ∃ sid x, ck = some sid ∧ find st sid = some x ∧ x.expiresAt > st.now ∧ x.user = u := by
  cases ck with
  | none => simp [liveUser]
  | some sid =>
    simp only [liveUser]
    cases hf : find st sid with
    | none => simp [hf]
    | some x =>
      by_cases hgt : x.expiresAt > st.now
      · simp [hgt, hf]
      · simp [hgt, hf]

theorem hardenPatch : hardenAllows "PATCH" "" "" = true := by decide

theorem request_patch (c : Cfg) (st : St) (ck : Cookie) :
    request c st true "PATCH" "" "" ck = wrap c st true ck := by
  unfold request
  rw [hardenPatch]
  rfl

/-- a guarded route against `liveUser`. -/
theorem wrap_liveUser (c : Cfg) (st : St) (ck : Cookie) :
    wrap c st true ck =
      match liveUser st ck with
      | none => ((look c st ck).1, .unauthorized)
      | some u => ((look c st ck).1, .reached (some u)) := by
  rw [wrap_eq, ← look_liveUser c st ck]
  cases (look c st ck).2 <;> rfl

/-! ### `changePassword` by cases -/

theorem changePassword_eq (c : Cfg) (s : UState) (ck : Cookie) (cur new : Pw) :
    changePassword c s ck cur new =
      match liveUser s.auth ck with
      | none => ({ s with auth := (look c s.auth ck).1 }, .unauthorized)
      | some u =>
        if cur = "" || new = "" then ({ s with auth := (look c s.auth ck).1 }, .refused)
        else match s.tbl[u]? with
          | none => ({ s with auth := (look c s.auth ck).1 }, .noUser)
          | some (n, p) =>
            if verifies (hashOf p) cur then ({ auth := (look c s.auth ck).1, tbl := save s.tbl n new }, .changed)
            else ({ s with auth := (look c s.auth ck).1 }, .refused) := by
  unfold changePassword
  rw [request_patch, wrap_liveUser]
  cases liveUser s.auth ck <;> rfl

theorem changePassword_auth (c : Cfg) (s : UState) (ck : Cookie) (cur new : Pw) :
    (changePassword c s ck cur new).1.auth = (request c s.auth true "PATCH" "" "" ck).1 := by
  rw [changePassword_eq, request_patch, wrap_liveUser]
  cases liveUser s.auth ck with
  | none => rfl
  | some u =>
    simp only
    split
    · rfl
    · split
      · rfl
      · split <;> rfl

theorem step_change (c : Cfg) (s : UState) (ck : Cookie) (cur new : Pw) :
    step c s (.changePassword ck cur new) = (changePassword c s ck cur new).1 := by
  have h := changePassword_auth c s ck cur new
  cases hr : (changePassword c s ck cur new).1 with
  | mk a t =>
    rw [hr] at h
    simp only [step, authOp, Rv.Auth.step, hr]
    rw [← h]

/-- either the table is untouched and the answer is not 204, or the cookie names
    a live session of `u`, both fields are non-empty, `cur` is `u`'s stored
    password, the answer is 204 and `u`'s row has been saved with `new`. -/
theorem changePassword_cases (c : Cfg) (s : UState) (ck : Cookie) (cur new : Pw) :
    ((changePassword c s ck cur new).1.tbl = s.tbl ∧ (changePassword c s ck cur new).2 ≠ .changed) ∨
    (∃ u n, liveUser s.auth ck = some u ∧ s.tbl[u]? = some (n, cur) ∧ cur ≠ "" ∧ new ≠ "" ∧
      (changePassword c s ck cur new).2 = .changed ∧
      (changePassword c s ck cur new).1.tbl = save s.tbl n new) := by
  rw [changePassword_eq]
  cases hl : liveUser s.auth ck with
  | none => exact Or.inl ⟨rfl, by simp⟩
  | some u =>
    simp only
    by_cases he : (cur = "" || new = "") = true
    · rw [if_pos he]; exact Or.inl ⟨rfl, by simp⟩
    · rw [if_neg he]
      have he' : cur ≠ "" ∧ new ≠ "" := by simpa using he
      cases ht : s.tbl[u]? with
      | none => exact Or.inl ⟨rfl, by simp⟩
      | some r =>
        rcases r with ⟨n, p⟩
        simp only
        by_cases hv : verifies (hashOf p) cur = true
        · rw [if_pos hv]
          have hp : p = cur := of_decide_eq_true hv
          exact Or.inr ⟨u, n, rfl, by rw [ht, hp], he'.1, he'.2, rfl, rfl⟩
        · rw [if_neg hv]; exact Or.inl ⟨rfl, by simp⟩

/-! ### the user table -/

/-- the canonical names, in row order. -/
def names (tbl : Table) : List String := tbl.map (fun r => canon r.1)

theorem WF_iff (tbl : Table) : WF tbl ↔ (names tbl).Pairwise (· ≠ ·) := Iff.rfl

theorem save_names (tbl : Table) (n : String) (new : Pw) : names (save tbl n new) = names tbl := by
  simp only [names, save, List.map_map]
  apply List.map_congr_left
  intro r _
  simp only [Function.comp]
  split
  · rename_i h; exact h.symm
  · rfl

theorem save_WF {tbl : Table} (n : String) (new : Pw) (h : WF tbl) : WF (save tbl n new) := by
  rw [WF_iff, save_names]; exact h

theorem pwOf_save (tbl : Table) (n : String) (new : Pw) (v : Nat) :
    pwOf (save tbl n new) v = tbl[v]?.map (fun r => if canon r.1 = canon n then new else r.2) := by
  simp only [pwOf, save, List.getElem?_map, Option.map_map]
  cases tbl[v]? with
  | none => rfl
  | some r =>
    simp only [Option.map, Function.comp]
    split <;> rfl

/-- two rows of a well-formed table with the same canonical name are the same row. -/
theorem WF_inj {tbl : Table} (h : WF tbl) {u v : Nat} {r r' : String × Pw}
    (hu : tbl[u]? = some r) (hv : tbl[v]? = some r') (e : canon r.1 = canon r'.1) : u = v := by
  have key : ∀ (a b : Nat) (x y : String × Pw), tbl[a]? = some x → tbl[b]? = some y → a < b →
      canon x.1 ≠ canon y.1 := by
    intro a b x y ha hb hlt
    rcases List.getElem?_eq_some_iff.1 ha with ⟨la, ea⟩
    rcases List.getElem?_eq_some_iff.1 hb with ⟨lb, eb⟩
    have := (List.pairwise_iff_getElem.1 h) a b (by simpa using la) (by simpa using lb) hlt
    simpa [ea, eb] using this
  rcases Nat.lt_trichotomy u v with hlt | heq | hgt
  · exact absurd e (key u v r r' hu hv hlt)
  · exact heq
  · exact absurd e.symm (key v u r' r hv hu hgt)

theorem lookupFrom_some {i : Nat} {tbl : Table} {name : String} {k : Nat} {p : Pw} :
    lookupFrom i tbl name = some (k, p) →
      ∃ j n, k = i + j ∧ tbl[j]? = some (n, p) ∧ canon n = canon name := by
  induction tbl generalizing i with
  | nil => intro h; simp [lookupFrom] at h
  | cons r rest ih =>
    intro h
    simp only [lookupFrom] at h
    by_cases hc : canon r.1 = canon name
    · rw [if_pos hc] at h
      have h' := Option.some.inj h
      have h1 : i = k := congrArg Prod.fst h'
      have h2 : r.2 = p := congrArg Prod.snd h'
      exact ⟨0, r.1, by omega, by simp [← h2], hc⟩
    · rw [if_neg hc] at h
      rcases ih h with ⟨j, n, hk, hj, hn⟩
      exact ⟨j + 1, n, by omega, by simpa using hj, hn⟩

theorem lookupFrom_none {i : Nat} {tbl : Table} {name : String} :
    lookupFrom i tbl name = none → ∀ r ∈ tbl, canon r.1 ≠ canon name := by
  induction tbl generalizing i with
  | nil => intro _ r hr; cases hr
  | cons r rest ih =>
    intro h
    simp only [lookupFrom] at h
    by_cases hc : canon r.1 = canon name
    · rw [if_pos hc] at h; cases h
    · rw [if_neg hc] at h
      intro x hx
      rcases List.mem_cons.1 hx with e | hx
      · rw [e]; exact hc
      · exact ih h x hx

theorem lookup_some {tbl : Table} {name : String} {k : Nat} {p : Pw} (h : lookup tbl name = some (k, p)) :
    ∃ n, tbl[k]? = some (n, p) ∧ canon n = canon name := by
  rcases lookupFrom_some h with ⟨j, n, hk, hj, hn⟩
  have : k = j := by omega
  exact ⟨n, this ▸ hj, hn⟩

/-- in a well-formed table the row a name denotes is the one `lookup` returns. -/
theorem lookup_of_row {tbl : Table} (hwf : WF tbl) {name : String} {k : Nat} {n : String} {p : Pw}
    (hk : tbl[k]? = some (n, p)) (hn : canon n = canon name) : lookup tbl name = some (k, p) := by
  cases hl : lookup tbl name with
  | none =>
    exact absurd hn (lookupFrom_none hl (n, p) (List.mem_of_getElem? hk))
  | some x =>
    rcases x with ⟨k', p'⟩
    rcases lookup_some hl with ⟨n', hk', hn'⟩
    have e : k = k' := WF_inj hwf hk hk' (hn.trans hn'.symm)
    subst e
    rw [hk] at hk'
    have e2 : p = p' := congrArg Prod.snd (Option.some.inj hk')
    rw [e2]

theorem lookup_congr (tbl : Table) {name name' : String} (h : canon name = canon name') :
    lookup tbl name = lookup tbl name' := by
  unfold lookup
  generalize 0 = i
  induction tbl generalizing i with
  | nil => rfl
  | cons r rest ih => simp only [lookupFrom, h, ih]

theorem pwOk_iff {tbl : Table} {name : String} {pw : Pw} :
    pwOk tbl name pw = true ↔ ∃ k, lookup tbl name = some (k, pw) := by
  unfold pwOk
  cases hl : lookup tbl name with
  | none => simp
  | some x =>
    rcases x with ⟨k, p⟩
    simp only [verifies_hashOf, decide_eq_true_eq]
    constructor
    · intro e; exact ⟨k, by rw [e]⟩
    · rintro ⟨k', e⟩
      exact congrArg Prod.snd (Option.some.inj e)

/-- `Authenticate` succeeds iff some row matches the name under NOCASE and holds
    exactly this password. -/
theorem pwOk_iff_row {tbl : Table} (hwf : WF tbl) {name : String} {pw : Pw} :
    pwOk tbl name pw = true ↔ ∃ (u : Nat) (n : String), tbl[u]? = some (n, pw) ∧ canon n = canon name := by
  rw [pwOk_iff]
  constructor
  · rintro ⟨k, h⟩
    rcases lookup_some h with ⟨n, hk, hn⟩
    exact ⟨k, n, hk, hn⟩
  · rintro ⟨u, n, hk, hn⟩
    exact ⟨u, lookup_of_row hwf hk hn⟩

/-! ### well-formedness is preserved -/

theorem changePassword_names (c : Cfg) (s : UState) (ck : Cookie) (cur new : Pw) :
    names (changePassword c s ck cur new).1.tbl = names s.tbl := by
  rcases changePassword_cases c s ck cur new with ⟨h, _⟩ | ⟨u, n, _, _, _, _, _, h⟩
  · rw [h]
  · rw [h, save_names]

theorem step_names (c : Cfg) (s : UState) (op : UOp) : names (step c s op).tbl = names s.tbl := by
  cases op with
  | changePassword ck cur new => rw [step_change]; exact changePassword_names c s ck cur new
  | _ => rfl

theorem run_names (c : Cfg) (ops : List UOp) : ∀ (s : UState), names (run c ops s).tbl = names s.tbl := by
  induction ops with
  | nil => intro s; rfl
  | cons op ops ih => intro s; rw [run_cons, ih, step_names]

theorem run_WF (c : Cfg) (ops : List UOp) {s : UState} (h : WF s.tbl) : WF (run c ops s).tbl := by
  rw [WF_iff, run_names]; exact h

theorem names_row {t1 t2 : Table} (h : names t1 = names t2) {u : Nat} {r1 : String × Pw}
    (h1 : t1[u]? = some r1) : ∃ r2, t2[u]? = some r2 ∧ canon r2.1 = canon r1.1 := by
  have e : (names t1)[u]? = (names t2)[u]? := by rw [h]
  simp only [names, List.getElem?_map, h1, Option.map_some] at e
  cases h2 : t2[u]? with
  | none => rw [h2] at e; cases e
  | some r2 =>
    rw [h2] at e
    exact ⟨r2, rfl, (Option.some.inj e).symm⟩

/-- saving row `u` sets `u`'s password and nobody else's. -/
theorem pwOf_save_row {tbl : Table} (hwf : WF tbl) {u : Nat} {n : String} {cur : Pw}
    (hrow : tbl[u]? = some (n, cur)) (new : Pw) (v : Nat) :
    pwOf (save tbl n new) v = if v = u then some new else pwOf tbl v := by
  rw [pwOf_save]
  by_cases e : v = u
  · subst e; rw [if_pos rfl, hrow]; simp
  · rw [if_neg e]
    unfold pwOf
    cases hv : tbl[v]? with
    | none => rfl
    | some r =>
      have : canon r.1 ≠ canon n := fun hc => e (WF_inj hwf hv hrow hc)
      simp [this]

/-! ### U5: the spelling of the name is irrelevant -/

theorem spelling_irrelevant (c : Cfg) (s : UState) (ck : Cookie) (name name' : String) (pw : Pw)
    (h : canon name = canon name') : login c s ck name pw = login c s ck name' pw := by
  simp only [login, pwOk, idOf, lookup_congr s.tbl h]

theorem pwOk_spelling (tbl : Table) (name name' : String) (pw : Pw) (h : canon name = canon name') :
    pwOk tbl name pw = pwOk tbl name' pw := by
  simp only [pwOk, lookup_congr tbl h]

/-! ### `login` by cases -/

theorem pwOk_and (tbl : Table) (name : String) (pw : Pw) :
    ((lookup tbl name).isSome && pwOk tbl name pw) = pwOk tbl name pw := by
  unfold pwOk
  cases lookup tbl name <;> rfl

theorem login_eq' (c : Cfg) (s : UState) (ck : Cookie) (name : String) (pw : Pw) :
    login c s ck name pw =
      if (liveUser s.auth ck).isSome then ({ s with auth := (look c s.auth ck).1 }, .already)
      else if pwOk s.tbl name pw then
        ({ s with auth := (createSession c (look c s.auth ck).1 ((idOf s.tbl name).getD 0)).1 },
          .created s.auth.nextSid)
      else ({ s with auth := (look c s.auth ck).1 }, .invalid) := by
  unfold login
  rw [login_eq, look_isSome, pwOk_and]
  have hn : (createSession c (look c s.auth ck).1 ((idOf s.tbl name).getD 0)).2 = s.auth.nextSid :=
    (look_sub c s.auth ck).1
  split
  · rfl
  · split
    · simp only [hn]
    · rfl

/-! ### U1: login succeeds iff the password is the user's current one -/

theorem login_created_iff (c : Cfg) (s : UState) (ck : Cookie) (name : String) (pw : Pw)
    (hck : liveUser s.auth ck = none) :
    (∃ sid, (login c s ck name pw).2 = .created sid) ↔ pwOk s.tbl name pw = true := by
  rw [login_eq', hck]
  simp only [Option.isSome_none, Bool.false_eq_true, if_false]
  by_cases h : pwOk s.tbl name pw = true
  · rw [if_pos h]; exact ⟨fun _ => h, fun _ => ⟨_, rfl⟩⟩
  · rw [if_neg h]
    exact ⟨fun ⟨sid, e⟩ => (by cases e), fun e => absurd e h⟩

/-- whatever the cookie, a session is created only with a verifying password. -/
theorem login_created_pwOk (c : Cfg) (s : UState) (ck : Cookie) (name : String) (pw : Pw) (sid : Nat)
    (h : (login c s ck name pw).2 = .created sid) : pwOk s.tbl name pw = true := by
  rw [login_eq'] at h
  split at h
  · cases h
  · split at h
    · assumption
    · cases h

theorem login_iff_row (c : Cfg) (s : UState) (hwf : WF s.tbl) (ck : Cookie) (name : String) (pw : Pw)
    (hck : liveUser s.auth ck = none) :
    (∃ sid, (login c s ck name pw).2 = .created sid) ↔
      ∃ (u : Nat) (n : String), s.tbl[u]? = some (n, pw) ∧ canon n = canon name := by
  rw [login_created_iff c s ck name pw hck, pwOk_iff_row hwf]

theorem login_iff_current_password (c : Cfg) (tbl0 : Table) (hwf : WF tbl0) (ops : List UOp)
    (ck : Cookie) (name : String) (pw : Pw)
    (hck : liveUser (run c ops (init tbl0)).auth ck = none) :
    (∃ sid, (login c (run c ops (init tbl0)) ck name pw).2 = .created sid) ↔
      ∃ (u : Nat) (n : String), (run c ops (init tbl0)).tbl[u]? = some (n, pw) ∧ canon n = canon name :=
  login_iff_row c _ (run_WF c ops hwf) ck name pw hck

/-- the session a successful login creates is a live session of the user the name denotes. -/
theorem login_session_user (c : Cfg) (hl : 0 < c.lifetime) (s : UState) (ck : Cookie) (name : String)
    (pw : Pw) (sid : Nat) (h : (login c s ck name pw).2 = .created sid) :
    ∃ u, idOf s.tbl name = some u ∧ liveUser (login c s ck name pw).1.auth (some sid) = some u := by
  have hok := login_created_pwOk c s ck name pw sid h
  rcases pwOk_iff.1 hok with ⟨k, hk⟩
  refine ⟨k, by simp [idOf, hk], ?_⟩
  rw [login_eq'] at h ⊢
  by_cases hlv : (liveUser s.auth ck).isSome = true
  · rw [if_pos hlv] at h; cases h
  · rw [if_neg hlv, if_pos hok] at h ⊢
    have e : s.auth.nextSid = sid := LoginRes.created.inj h
    have hn : (look c s.auth ck).1.nextSid = s.auth.nextSid := (look_sub c s.auth ck).1
    have hlt : (look c s.auth ck).1.now < (look c s.auth ck).1.now + c.lifetime := by omega
    simp [liveUser, find, createSession, hn, e, idOf, hk, hlt]

/-! ### U4: what `changePassword` needs, and what it leaves alone -/

theorem change_requires_live_session_and_current_password (c : Cfg) (s : UState) (ck : Cookie)
    (cur new : Pw) (h : (changePassword c s ck cur new).1.tbl ≠ s.tbl) :
    ∃ u, liveUser s.auth ck = some u ∧ pwOf s.tbl u = some cur ∧ cur ≠ "" ∧ new ≠ "" ∧
      (changePassword c s ck cur new).2 = .changed := by
  rcases changePassword_cases c s ck cur new with ⟨e, _⟩ | ⟨u, n, hl, hrow, h1, h2, h3, _⟩
  · exact absurd e h
  · exact ⟨u, hl, by simp [pwOf, hrow], h1, h2, h3⟩

theorem change_leaves_other_users (c : Cfg) (s : UState) (hwf : WF s.tbl) (ck : Cookie) (cur new : Pw)
    (v : Nat) (hv : liveUser s.auth ck ≠ some v) :
    pwOf (changePassword c s ck cur new).1.tbl v = pwOf s.tbl v := by
  rcases changePassword_cases c s ck cur new with ⟨e, _⟩ | ⟨u, n, hl, hrow, _, _, _, e⟩
  · rw [e]
  · rw [e, pwOf_save_row hwf hrow]
    have : v ≠ u := fun h => hv (h ▸ hl)
    rw [if_neg this]

/-- the accepted change, exactly. -/
theorem change_accepted_iff (c : Cfg) (s : UState) (ck : Cookie) (cur new : Pw) :
    (changePassword c s ck cur new).2 = .changed ↔
      ∃ u, liveUser s.auth ck = some u ∧ pwOf s.tbl u = some cur ∧ cur ≠ "" ∧ new ≠ "" := by
  constructor
  · intro h
    rcases changePassword_cases c s ck cur new with ⟨_, e⟩ | ⟨u, n, hl, hrow, h1, h2, _, _⟩
    · exact absurd h e
    · exact ⟨u, hl, by simp [pwOf, hrow], h1, h2⟩
  · rintro ⟨u, hl, hp, h1, h2⟩
    rw [changePassword_eq, hl]
    simp only [h1, h2, decide_false, Bool.or_self, Bool.false_eq_true, if_false]
    unfold pwOf at hp
    cases hr : s.tbl[u]? with
    | none => rw [hr] at hp; cases hp
    | some r =>
      rcases r with ⟨n, p⟩
      rw [hr] at hp
      have : p = cur := Option.some.inj hp
      simp [this, verifies, hashOf]

/-- after an accepted change the session's user holds `new`; everybody else holds what they held. -/
theorem change_accepted_table (c : Cfg) (s : UState) (hwf : WF s.tbl) (ck : Cookie) (cur new : Pw) (u : Nat)
    (hl : liveUser s.auth ck = some u) (h : (changePassword c s ck cur new).2 = .changed) (v : Nat) :
    pwOf (changePassword c s ck cur new).1.tbl v = if v = u then some new else pwOf s.tbl v := by
  rcases changePassword_cases c s ck cur new with ⟨_, e⟩ | ⟨u', n, hl', hrow, _, _, _, e⟩
  · exact absurd h e
  · have : u' = u := Option.some.inj (hl'.symm.trans hl)
    subst this
    rw [e, pwOf_save_row hwf hrow]

/-- a refused request (401) leaves the user table alone and does to the session
    table what `Rv.Auth.request` does. -/
theorem unauthorized_change_has_no_effect (c : Cfg) (s : UState) (ck : Cookie) (cur new : Pw) :
    (liveUser s.auth ck = none → (changePassword c s ck cur new).2 = .unauthorized) ∧
    ((changePassword c s ck cur new).2 ≠ .changed → (changePassword c s ck cur new).1.tbl = s.tbl) ∧
    (changePassword c s ck cur new).1.auth = (request c s.auth true "PATCH" "" "" ck).1 := by
  refine ⟨fun h => by rw [changePassword_eq, h], fun h => ?_, changePassword_auth c s ck cur new⟩
  rcases changePassword_cases c s ck cur new with ⟨e, _⟩ | ⟨_, _, _, _, _, _, e, _⟩
  · exact e
  · exact absurd e h

/-! ### U3: the old password is dead -/

theorem pwOf_step_ne (c : Cfg) (s : UState) (hwf : WF s.tbl) (op : UOp) (u : Nat) (p : Pw)
    (h : pwOf s.tbl u ≠ some p)
    (hop : ∀ ck cur, op = .changePassword ck cur p →
      ¬ ((changePassword c s ck cur p).2 = .changed ∧ liveUser s.auth ck = some u)) :
    pwOf (step c s op).tbl u ≠ some p := by
  cases op with
  | changePassword ck cur new =>
    rw [step_change]
    by_cases hl : liveUser s.auth ck = some u
    · by_cases hc : (changePassword c s ck cur new).2 = .changed
      · rw [change_accepted_table c s hwf ck cur new u hl hc, if_pos rfl]
        intro e
        have : new = p := Option.some.inj e
        subst this
        exact hop ck cur rfl ⟨hc, hl⟩
      · rw [(unauthorized_change_has_no_effect c s ck cur new).2.1 hc]; exact h
    · rw [change_leaves_other_users c s hwf ck cur new u hl]; exact h
  | _ => exact h

theorem step_WF (c : Cfg) {s : UState} (op : UOp) (h : WF s.tbl) : WF (step c s op).tbl := by
  rw [WF_iff, step_names]; exact h

theorem dead_core (c : Cfg) (u : Nat) (p : Pw) : ∀ (later : List UOp) (s : UState), WF s.tbl →
    pwOf s.tbl u ≠ some p →
    (∀ l1 ck2 cur l2, later = l1 ++ UOp.changePassword ck2 cur p :: l2 →
      ¬ ((changePassword c (run c l1 s) ck2 cur p).2 = .changed ∧
         liveUser (run c l1 s).auth ck2 = some u)) →
    pwOf (run c later s).tbl u ≠ some p := by
  intro later
  induction later with
  | nil => intro s _ h _; exact h
  | cons op rest ih =>
    intro s hwf h hno
    rw [run_cons]
    refine ih (step c s op) (step_WF c op hwf) ?_ ?_
    · exact pwOf_step_ne c s hwf op u p h (fun ck cur e => hno [] ck cur rest (by rw [e]; rfl))
    · intro l1 ck2 cur l2 e
      have := hno (op :: l1) ck2 cur l2 (by rw [e]; rfl)
      rwa [run_cons] at this

theorem old_password_is_dead (c : Cfg) (tbl0 : Table) (hwf : WF tbl0) (pre later : List UOp)
    (ck : Cookie) (p q : Pw) (u : Nat)
    (hu : liveUser (run c pre (init tbl0)).auth ck = some u)
    (hchg : (changePassword c (run c pre (init tbl0)) ck p q).2 = .changed)
    (hpq : q ≠ p)
    (hnoback : ∀ l1 ck2 cur l2, later = l1 ++ UOp.changePassword ck2 cur p :: l2 →
      ¬ ((changePassword c (run c (pre ++ UOp.changePassword ck p q :: l1) (init tbl0)) ck2 cur p).2 = .changed ∧
         liveUser (run c (pre ++ UOp.changePassword ck p q :: l1) (init tbl0)).auth ck2 = some u))
    (ck' : Cookie) (name : String)
    (hname : ∃ n p0, tbl0[u]? = some (n, p0) ∧ canon name = canon n) (sid : Nat) :
    (login c (run c (pre ++ UOp.changePassword ck p q :: later) (init tbl0)) ck' name p).2 ≠ .created sid := by
  have hsplit : ∀ l, run c (pre ++ UOp.changePassword ck p q :: l) (init tbl0) =
      run c l (step c (run c pre (init tbl0)) (.changePassword ck p q)) := fun l => by
    rw [run_append, run_cons]
  have hwf1 : WF (run c pre (init tbl0)).tbl := run_WF c pre hwf
  have hdead : pwOf (run c (pre ++ UOp.changePassword ck p q :: later) (init tbl0)).tbl u ≠ some p := by
    rw [hsplit]
    refine dead_core c u p later _ (step_WF c _ hwf1) ?_ ?_
    · rw [step_change, change_accepted_table c _ hwf1 ck p q u hu hchg, if_pos rfl]
      exact fun e => hpq (Option.some.inj e)
    · intro l1 ck2 cur l2 e
      rw [← hsplit]
      exact hnoback l1 ck2 cur l2 e
  intro hcr
  have hok := login_created_pwOk c _ ck' name p sid hcr
  have hwf2 : WF (run c (pre ++ UOp.changePassword ck p q :: later) (init tbl0)).tbl := run_WF c _ hwf
  rcases (pwOk_iff_row hwf2).1 hok with ⟨u', n', hrow', hn'⟩
  rcases hname with ⟨n, p0, hrow0, hn⟩
  have hnames : names tbl0 = names (run c (pre ++ UOp.changePassword ck p q :: later) (init tbl0)).tbl :=
    (run_names c _ (init tbl0)).symm
  rcases names_row hnames hrow0 with ⟨r2, hr2, hc2⟩
  have : u' = u := WF_inj hwf2 hrow' hr2 (by rw [hn', hn, hc2])
  subst this
  apply hdead
  simp [pwOf, hrow']

/-! ### U2: the user table against the history-only reference -/

open Rv.Spec.Session Rv.Spec.Users

/-- every session of `st'` is a session of `st` with the same id and the same user. -/
def Keep (st' st : St) : Prop :=
  ∀ x ∈ st'.sessions, ∃ y ∈ st.sessions, y.sid = x.sid ∧ y.user = x.user

theorem Keep.refl (st : St) : Keep st st := fun x hx => ⟨x, hx, rfl, rfl⟩

theorem Keep.trans {a b d : St} (h1 : Keep a b) (h2 : Keep b d) : Keep a d := fun x hx =>
  let ⟨y, hy, e1, e2⟩ := h1 x hx
  let ⟨z, hz, e1', e2'⟩ := h2 y hy
  ⟨z, hz, e1'.trans e1, e2'.trans e2⟩

theorem remove_keep (st : St) (sid : Nat) : Keep (remove st sid) st :=
  fun x hx => ⟨x, (List.mem_filter.1 hx).1, rfl, rfl⟩

theorem gc_keep (st : St) : Keep (gc st) st :=
  fun x hx => ⟨x, (List.mem_filter.1 hx).1, rfl, rfl⟩

theorem renew_keep (c : Cfg) (st : St) (sid : Nat) (s : Session) (hf : find st sid = some s) :
    Keep (renew c st sid s) st := fun x hx => by
  rcases mem_renew hx with ⟨e, _⟩ | ⟨h, _⟩
  · exact ⟨s, (find_some hf).1, by rw [e], by rw [e]⟩
  · exact ⟨x, h, rfl, rfl⟩

theorem getSession_keep (c : Cfg) (st : St) (sid : Nat) : Keep (getSession c st sid).1 st := by
  rcases getSession_cases c st sid with ⟨_, hg⟩ | ⟨s, _, _, hg⟩ | ⟨s, hf, _, _, hg⟩ | ⟨s, _, _, _, hg⟩
  · rw [hg]; exact Keep.refl st
  · rw [hg]; exact remove_keep st sid
  · rw [hg]; exact renew_keep c st sid s hf
  · rw [hg]; exact Keep.refl st

theorem look_keep (c : Cfg) (st : St) (ck : Cookie) : Keep (look c st ck).1 st := by
  cases ck with
  | none => exact Keep.refl st
  | some sid => exact getSession_keep c st sid

theorem logout_keep (c : Cfg) (st : St) (ck : Cookie) : Keep (logout c st ck).1 st := by
  cases ck with
  | none => exact Keep.refl st
  | some sid =>
    rw [logout_fst_some]
    split
    · exact (remove_keep _ sid).trans (getSession_keep c st sid)
    · exact getSession_keep c st sid

theorem request_keep (c : Cfg) (st : St) (ra : Bool) (m o s : String) (ck : Cookie) :
    Keep (request c st ra m o s ck).1 st := by
  rw [request_fst]
  split
  · exact look_keep c st ck
  · exact Keep.refl st

/-- the same canonical names give the same ids. -/
theorem lookupFrom_names {t1 : Table} : ∀ {t2 : Table} (_ : names t1 = names t2) (i : Nat) (name : String),
    (lookupFrom i t1 name).map (·.1) = (lookupFrom i t2 name).map (·.1) := by
  induction t1 with
  | nil =>
    intro t2 h i name
    cases t2 with
    | nil => rfl
    | cons r2 rest2 => simp [names] at h
  | cons r1 rest1 ih =>
    intro t2 h i name
    cases t2 with
    | nil => simp [names] at h
    | cons r2 rest2 =>
      simp only [names, List.map_cons, List.cons.injEq] at h
      simp only [lookupFrom, ← h.1]
      split
      · rfl
      · exact ih h.2 (i + 1) name

theorem idOf_names {t1 t2 : Table} (h : names t1 = names t2) (name : String) : idOf t1 name = idOf t2 name :=
  lookupFrom_names h 0 name

theorem idOf_isSome (tbl : Table) (name : String) : (idOf tbl name).isSome = (lookup tbl name).isSome := by
  unfold idOf
  cases lookup tbl name <;> rfl

theorem liveCk_eq (a : Abs) (ck : Cookie) : Rv.Spec.Users.liveCk a ck = Rv.Lemmas.Auth.liveCk a ck := by
  cases ck <;> rfl

/-- the refinement relation between the model state and the reference. -/
structure Inv (tbl0 : Table) (s : UState) (r : Ref) : Prop where
  sess : R s.auth r.abs
  lt : Lt s.auth
  own : ∀ x ∈ s.auth.sessions, r.owner x.sid = some x.user
  usr : ∀ x ∈ s.auth.sessions, x.user < (names tbl0).length
  pw : ∀ u, r.pw u = pwOf s.tbl u
  nm : names s.tbl = names tbl0

theorem Inv_init (tbl0 : Table) : Inv tbl0 (init tbl0) (Ref.init tbl0) :=
  ⟨R_init, Lt_init, fun _ h => (nomatch h), fun _ h => (nomatch h), fun _ => rfl, rfl⟩

theorem credOk_eq {tbl0 : Table} {s : UState} {r : Ref} (h : Inv tbl0 s r) (name : String) (pw : Pw) :
    r.credOk tbl0 name pw = pwOk s.tbl name pw := by
  unfold Ref.credOk pwOk
  rw [← idOf_names h.nm name]
  unfold idOf
  cases hl : lookup s.tbl name with
  | none => rfl
  | some x =>
    rcases x with ⟨k, p⟩
    rcases lookup_some hl with ⟨n, hk, _⟩
    have : pwOf s.tbl k = some p := by simp [pwOf, hk]
    have hp := h.pw k
    rw [this] at hp
    by_cases e : p = pw <;> simp [hp, e, verifies, hashOf]

theorem authOp_eq {tbl0 : Table} {s : UState} {r : Ref} (h : Inv tbl0 s r) (op : UOp) :
    authOp s.tbl op = r.authOp tbl0 op := by
  cases op with
  | login ck name pw =>
    simp only [authOp, Ref.authOp, credOk_eq h, ← idOf_names h.nm name, idOf_isSome]
  | _ => rfl

theorem liveUser_eq {tbl0 : Table} {s : UState} {r : Ref} (h : Inv tbl0 s r) (ck : Cookie) :
    liveUser s.auth ck = r.sessionUser ck := by
  cases ck with
  | none => rfl
  | some sid =>
    simp only [liveUser, Ref.sessionUser]
    cases hf : find s.auth sid with
    | none =>
      have hno := find_none hf
      have hnl : r.abs.live sid = false := by
        cases hl : r.abs.live sid with
        | false => rfl
        | true =>
          rcases h.sess.live sid hl with ⟨x, hx, e⟩
          exact absurd e (hno x hx)
      simp [hnl]
    | some x =>
      have hx := find_some hf
      have he := h.sess.exp x hx.1
      rw [hx.2] at he
      have ho := h.own x hx.1
      rw [hx.2] at ho
      rw [live_of_expiry he, h.sess.now, ho]
      by_cases hgt : x.expiresAt > s.auth.now <;> simp [hgt]

/-- sessions of the users provisioned: the user of every session has a row. -/
theorem Inv.row {tbl0 : Table} {s : UState} {r : Ref} (h : Inv tbl0 s r) {ck : Cookie} {u : Nat}
    (hl : liveUser s.auth ck = some u) : ∃ n p, s.tbl[u]? = some (n, p) := by
  have hlt : u < s.tbl.length := by
    cases ck with
    | none => cases hl
    | some sid =>
      simp only [liveUser] at hl
      cases hf : find s.auth sid with
      | none => rw [hf] at hl; cases hl
      | some x =>
        simp only [hf] at hl
        by_cases hgt : x.expiresAt > s.auth.now
        · rw [if_pos hgt] at hl
          have := h.usr x (find_some hf).1
          have e : x.user = u := Option.some.inj hl
          rw [← h.nm, e] at this
          simpa [names] using this
        · rw [if_neg hgt] at hl; cases hl
  exact ⟨(s.tbl[u]).1, (s.tbl[u]).2, by simp [List.getElem?_eq_getElem hlt]⟩

theorem step_Inv (c : Cfg) {tbl0 : Table} (hwf : WF tbl0) {s : UState} {r : Ref} (h : Inv tbl0 s r)
    (op : UOp) : Inv tbl0 (step c s op) (r.step c tbl0 op) := by
  have hwfs : WF s.tbl := by rw [WF_iff, h.nm]; exact hwf
  have hR : Rv.Lemmas.Auth.R (step c s op).auth (r.step c tbl0 op).abs := by
    show Rv.Lemmas.Auth.R (Rv.Auth.step c s.auth (authOp s.tbl op)) (Abs.step c r.abs (r.authOp tbl0 op))
    rw [← authOp_eq h]
    exact step_R c h.sess h.lt (authOp s.tbl op)
  have hLt : Lt (step c s op).auth := step_Lt c (authOp s.tbl op) h.lt
  have hnames : names (step c s op).tbl = names tbl0 := by rw [step_names]; exact h.nm
  -- a step that keeps ids and users and leaves the owner map alone
  have keep : Keep (step c s op).auth s.auth → (r.step c tbl0 op).owner = r.owner →
      (∀ x ∈ (step c s op).auth.sessions, (r.step c tbl0 op).owner x.sid = some x.user) ∧
      (∀ x ∈ (step c s op).auth.sessions, x.user < (names tbl0).length) := by
    intro hk ho
    refine ⟨fun x hx => ?_, fun x hx => ?_⟩
    · rcases hk x hx with ⟨y, hy, e1, e2⟩
      rw [ho, ← e1, ← e2]; exact h.own y hy
    · rcases hk x hx with ⟨y, hy, _, e2⟩
      rw [← e2]; exact h.usr y hy
  cases op with
  | login ck name pw =>
    have hpw : ∀ u, (r.step c tbl0 (.login ck name pw)).pw u = pwOf (step c s (.login ck name pw)).tbl u := h.pw
    have hlive : (look c s.auth ck).2.isSome = Rv.Spec.Users.liveCk r.abs ck := by
      rw [liveCk_eq]; exact (look_touch c h.sess ck).2
    have hcred := credOk_eq h name pw
    have hauth : (step c s (.login ck name pw)).auth =
        (Rv.Auth.login c s.auth ck (lookup s.tbl name).isSome (pwOk s.tbl name pw) ((idOf s.tbl name).getD 0)).1 := rfl
    have howner : (r.step c tbl0 (.login ck name pw)).owner =
        if !(Rv.Spec.Users.liveCk r.abs ck) && r.credOk tbl0 name pw then
          fun k => if k = r.abs.nextSid then idOf tbl0 name else r.owner k
        else r.owner := rfl
    by_cases hcreate : (!(Rv.Spec.Users.liveCk r.abs ck) && r.credOk tbl0 name pw) = true
    · -- a session is issued
      have h1 : Rv.Spec.Users.liveCk r.abs ck = false := by
        cases hh : Rv.Spec.Users.liveCk r.abs ck <;> simp [hh] at hcreate ⊢
      have h2 : pwOk s.tbl name pw = true := by
        rw [← hcred]; cases hh : r.credOk tbl0 name pw <;> simp [hh] at hcreate ⊢
      rcases pwOk_iff.1 h2 with ⟨k, hk⟩
      have hid : idOf s.tbl name = some k := by simp [idOf, hk]
      have hid0 : idOf tbl0 name = some k := by rw [← idOf_names h.nm name]; exact hid
      have hsess : (step c s (.login ck name pw)).auth = (createSession c (look c s.auth ck).1 k).1 := by
        rw [hauth, login_eq, hlive, h1, pwOk_and, h2, hid]
        rfl
      have hklt : k < (names tbl0).length := by
        rcases lookup_some hk with ⟨n, hrow, _⟩
        rw [← h.nm]
        have := (List.getElem?_eq_some_iff.1 hrow).1
        simpa [names] using this
      have hnext : (look c s.auth ck).1.nextSid = r.abs.nextSid := by
        rw [(look_sub c s.auth ck).1, h.sess.next]
      refine ⟨hR, hLt, ?_, ?_, hpw, hnames⟩
      · intro x hx
        rw [howner, if_pos hcreate]
        rw [hsess] at hx
        simp only [createSession, List.mem_cons] at hx
        rcases hx with e | hx
        · simp [e, hnext, hid0]
        · rcases look_keep c s.auth ck x hx with ⟨y, hy, e1, e2⟩
          have hne : x.sid ≠ r.abs.nextSid := by
            rw [← e1, h.sess.next]; exact Nat.ne_of_lt (h.lt y hy)
          simp only [if_neg hne]
          rw [← e1, ← e2]; exact h.own y hy
      · intro x hx
        rw [hsess] at hx
        simp only [createSession, List.mem_cons] at hx
        rcases hx with e | hx
        · rw [e]; exact hklt
        · rcases look_keep c s.auth ck x hx with ⟨y, hy, _, e2⟩
          rw [← e2]; exact h.usr y hy
    · -- no session is issued
      have hsess : (step c s (.login ck name pw)).auth = (look c s.auth ck).1 := by
        rw [hauth, login_eq, hlive, pwOk_and, ← hcred]
        cases hh : Rv.Spec.Users.liveCk r.abs ck
        · have : r.credOk tbl0 name pw = false := by
            cases hc : r.credOk tbl0 name pw
            · rfl
            · simp [hh, hc] at hcreate
          simp [this]
        · simp
      have hk : Keep (step c s (.login ck name pw)).auth s.auth := by rw [hsess]; exact look_keep c s.auth ck
      have ho : (r.step c tbl0 (.login ck name pw)).owner = r.owner := by rw [howner, if_neg hcreate]
      exact ⟨hR, hLt, (keep hk ho).1, (keep hk ho).2, hpw, hnames⟩
  | changePassword ck cur new =>
    have hk : Keep (step c s (.changePassword ck cur new)).auth s.auth := request_keep c s.auth _ _ _ _ ck
    refine ⟨hR, hLt, (keep hk rfl).1, (keep hk rfl).2, ?_, hnames⟩
    intro v
    show (if r.accepts ck cur new v then some new else r.pw v) = _
    rw [step_change]
    have hacc : r.accepts ck cur new v = true ↔
        (liveUser s.auth ck = some v ∧ cur ≠ "" ∧ new ≠ "" ∧ pwOf s.tbl v = some cur) := by
      simp only [Ref.accepts, Bool.and_eq_true, decide_eq_true_eq, ← liveUser_eq h ck, h.pw v, and_assoc]
    by_cases ha : r.accepts ck cur new v = true
    · rw [if_pos ha]
      rcases hacc.1 ha with ⟨hl, h1, h2, hp⟩
      have hc : (changePassword c s ck cur new).2 = .changed :=
        (change_accepted_iff c s ck cur new).2 ⟨v, hl, hp, h1, h2⟩
      rw [change_accepted_table c s hwfs ck cur new v hl hc, if_pos rfl]
    · rw [if_neg ha, h.pw v]
      by_cases hc : (changePassword c s ck cur new).2 = .changed
      · rcases (change_accepted_iff c s ck cur new).1 hc with ⟨u, hl, hp, h1, h2⟩
        have hne : v ≠ u := fun e => ha (hacc.2 ⟨e ▸ hl, h1, h2, e ▸ hp⟩)
        rw [change_accepted_table c s hwfs ck cur new u hl hc, if_neg hne]
      · rw [(unauthorized_change_has_no_effect c s ck cur new).2.1 hc]
  | logout ck =>
    have hk : Keep (step c s (.logout ck)).auth s.auth := logout_keep c s.auth ck
    exact ⟨hR, hLt, (keep hk rfl).1, (keep hk rfl).2, h.pw, hnames⟩
  | request ra m o si ck =>
    have hk : Keep (step c s (.request ra m o si ck)).auth s.auth := request_keep c s.auth ra m o si ck
    exact ⟨hR, hLt, (keep hk rfl).1, (keep hk rfl).2, h.pw, hnames⟩
  | shift d =>
    have hk : Keep (step c s (.shift d)).auth s.auth := fun x hx => ⟨x, hx, rfl, rfl⟩
    exact ⟨hR, hLt, (keep hk rfl).1, (keep hk rfl).2, h.pw, hnames⟩
  | gc =>
    have hk : Keep (step c s .gc).auth s.auth := gc_keep s.auth
    exact ⟨hR, hLt, (keep hk rfl).1, (keep hk rfl).2, h.pw, hnames⟩

theorem run_Inv (c : Cfg) {tbl0 : Table} (hwf : WF tbl0) (ops : List UOp) :
    ∀ {s : UState} {r : Ref}, Inv tbl0 s r → Inv tbl0 (run c ops s) (Ref.run c tbl0 ops r) := by
  induction ops with
  | nil => intro s r h; exact h
  | cons op ops ih => intro s r h; exact ih (step_Inv c hwf h op)

theorem reachable_Inv (c : Cfg) {tbl0 : Table} (hwf : WF tbl0) (ops : List UOp) :
    Inv tbl0 (run c ops (init tbl0)) (Ref.run c tbl0 ops (Ref.init tbl0)) :=
  run_Inv c hwf ops (Inv_init tbl0)

/-- U2: the stored password is the one the history-only reference computes. -/
theorem current_password_is_last_accepted_change (c : Cfg) (tbl0 : Table) (hwf : WF tbl0)
    (ops : List UOp) (u : Nat) :
    pwOf (run c ops (init tbl0)).tbl u = lastAccepted c tbl0 ops u :=
  ((reachable_Inv c hwf ops).pw u).symm

/-- what `lastAccepted` is: the provisioned password, … -/
theorem lastAccepted_nil (c : Cfg) (tbl0 : Table) (u : Nat) : lastAccepted c tbl0 [] u = pwOf tbl0 u := rfl

/-- … replaced by `new` at each change-password request the reference accepts for `u`,
    and by nothing else. -/
theorem lastAccepted_snoc (c : Cfg) (tbl0 : Table) (ops : List UOp) (op : UOp) (u : Nat) :
    lastAccepted c tbl0 (ops ++ [op]) u =
      match op with
      | .changePassword ck cur new =>
        if acceptedAfter c tbl0 ops ck cur new u then some new else lastAccepted c tbl0 ops u
      | _ => lastAccepted c tbl0 ops u := by
  simp only [lastAccepted, acceptedAfter, Ref.run, List.foldl_append, List.foldl_cons, List.foldl_nil]
  cases op <;> rfl

/-- the reference's verdict on a change-password request is the endpoint's. -/
theorem accepted_iff_changed (c : Cfg) (tbl0 : Table) (hwf : WF tbl0) (ops : List UOp) (ck : Cookie)
    (cur new : Pw) :
    (∃ u, acceptedAfter c tbl0 ops ck cur new u = true) ↔
      (changePassword c (run c ops (init tbl0)) ck cur new).2 = .changed := by
  have h := reachable_Inv c hwf ops
  rw [change_accepted_iff]
  simp only [acceptedAfter, Ref.accepts, Bool.and_eq_true, decide_eq_true_eq, ← liveUser_eq h ck, h.pw,
    and_assoc]
  constructor
  · rintro ⟨u, hl, h1, h2, hp⟩; exact ⟨u, hl, hp, h1, h2⟩
  · rintro ⟨u, hl, hp, h1, h2⟩; exact ⟨u, hl, h1, h2, hp⟩

/-- in a reachable state the session's user always has a row: the nil dereference
    after `GetByID` is not reachable. -/
theorem change_never_hits_missing_user (c : Cfg) (tbl0 : Table) (hwf : WF tbl0) (ops : List UOp)
    (ck : Cookie) (cur new : Pw) :
    (changePassword c (run c ops (init tbl0)) ck cur new).2 ≠ .noUser := by
  have h := reachable_Inv c hwf ops
  rw [changePassword_eq]
  cases hl : liveUser (run c ops (init tbl0)).auth ck with
  | none => simp
  | some u =>
    rcases h.row hl with ⟨n, p, hrow⟩
    simp only [hrow]
    split
    · simp
    · split <;> simp

/-- U4 over histories: a change-password request that changes the table carries
    the cookie of a session that is live in the history-only session reference. -/
theorem change_needs_reference_live_session (c : Cfg) (tbl0 : Table) (hwf : WF tbl0) (ops : List UOp)
    (ck : Cookie) (cur new : Pw)
    (hch : (changePassword c (run c ops (init tbl0)) ck cur new).1.tbl ≠ (run c ops (init tbl0)).tbl) :
    ∃ sid, ck = some sid ∧ (Ref.run c tbl0 ops (Ref.init tbl0)).abs.live sid = true := by
  have h := reachable_Inv c hwf ops
  rcases change_requires_live_session_and_current_password c _ ck cur new hch with ⟨u, hl, _⟩
  rw [liveUser_eq h ck] at hl
  cases ck with
  | none => cases hl
  | some sid =>
    refine ⟨sid, rfl, ?_⟩
    simp only [Ref.sessionUser] at hl
    split at hl
    · assumption
    · cases hl

end Rv.Lemmas.Users
