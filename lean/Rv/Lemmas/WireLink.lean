import Rv.Model.WireLink
import Rv.Lemmas.Wire
import Rv.Lemmas.Headers
import Rv.Lemmas.FetchB
/-
  Rv.Lemmas.WireLink — the proviso of Rv.Lemmas.Wire (`Resp.WF` of every
  response written on a tunnel) discharged for the responses the proxy
  produces, so that byte-level isolation is a theorem about `Rv.Tunnel.serve`.
  Core Lean only.

    (L1) toWire_fields_ok / ofTunnel_fields_ok
                                the header fields `hdrOps` sets (other than
                                Content-Length) are well formed and not framing
                                fields, given a clean entity tag (`etagClean`)
         toWire_cl_hdrOps       the Content-Length of `toWire` is the one of `hdrOps`
    (L2) toWire_delimited_iff   delimited ⇔ HEAD ∨ status allows a body ∨ no body byte
         toWire_delimited       delimited under `noBodyOK` (a 1xx / 204 / 304 has a
                                declared length of 0)
         toWire_complete        the write completes when the transfer does
         toWire_wf / ofTunnel_wf
    (L3) tunnel_bytes_isolated  readAll ∘ serve over `Rv.Tunnel.serve false`
         resps_clean            its provisos from the origin table and the store
         tunnel_bytes_isolated_of_inputs, tunnel_bytes_isolated_oracle
         triples_isolated       the list-of-triples formulation
         triples_stop_at_cut    a cut transfer: nothing is written after it
    FINDING relay_1xx_with_body `handle` relays an origin record with a status
                                below 200 and a non-empty body as `Content-Length:
                                n` + n bytes on a status that allows no body: not
                                delimitable.  `originOK` excludes exactly that.
-/
namespace Rv.Lemmas.WireLink
open Rv Rv.Fetch Rv.Headers Rv.Wire Rv.WireLink Rv.Lemmas.Wire Rv.Lemmas.Dec Rv.Lemmas.FetchB

/-! ### values -/

def noCRLF (v : Str) : Prop := ∀ c ∈ v, c ≠ '\r' ∧ c ≠ '\n'

theorem noCRLF_append {a b : Str} (ha : noCRLF a) (hb : noCRLF b) : noCRLF (a ++ b) := by
  intro c hc
  rcases List.mem_append.1 hc with h | h
  · exact ha c h
  · exact hb c h

theorem noCRLF_toDec (n : Nat) : noCRLF (toDec n) := fun _ hc =>
  ⟨(digit_ne (mem_toDec hc)).1, (digit_ne (mem_toDec hc)).2.1⟩

theorem dropWhile_head (p : Char → Bool) (x : Str) (h : ∀ c, x.head? = some c → p c = false) :
    x.dropWhile p = x := by
  cases x with
  | nil => rfl
  | cons a t => simp [List.dropWhile, h a rfl]

/-- a value whose first and last characters are not white space is not trimmed. -/
theorem trimOWS_ends (x pre : Str) (z : Char) (hx : x = pre ++ [z]) (hz : isOWS z = false)
    (hh : ∀ c, x.head? = some c → isOWS c = false) : trimOWS x = x := by
  unfold trimOWS
  rw [dropWhile_head isOWS x hh]
  subst hx
  simp [List.reverse_append, hz]

/-- a decimal number ends in a digit. -/
theorem toDec_snoc (n : Nat) : ∃ pre z, toDec n = pre ++ [z] ∧ isDigit z = true :=
  ⟨(toDec n).dropLast, (toDec n).getLast (toDec_ne_nil n),
    (List.dropLast_concat_getLast (toDec_ne_nil n)).symm, mem_toDec (List.getLast_mem _)⟩

/-- `lit ++ <decimal>` with `lit` starting with a non-blank. -/
theorem trimOWS_lit_dec (a : Char) (lit : Str) (n : Nat) (ha : isOWS a = false) :
    trimOWS (a :: lit ++ toDec n) = a :: lit ++ toDec n := by
  obtain ⟨pre, z, hd, hz⟩ := toDec_snoc n
  refine trimOWS_ends _ (a :: lit ++ pre) z ?_ (digit_ne hz).2.2.2.2 ?_
  · rw [hd]; simp
  · intro c hc
    simp only [List.cons_append, List.head?_cons, Option.some.injEq] at hc
    subst hc; exact ha

theorem valueClean_toDec (n : Nat) : valueClean (toDec n) :=
  ⟨noCRLF_toDec n, trimOWS_id _ (fun _ hc => (digit_ne (mem_toDec hc)).2.2.2.2)⟩


/-- `pre ++ <decimal>` with `pre` starting with a non-blank. -/
theorem trimOWS_pre_dec (a : Char) (t pre : Str) (n : Nat) (hp : pre = a :: t) (ha : isOWS a = false) :
    trimOWS (pre ++ toDec n) = pre ++ toDec n := by
  subst hp; exact trimOWS_lit_dec a t n ha

/-! ### (L1) the header fields -/

/-- every field `hdrOps` sets, by kind. -/
theorem hdrOps_mem (r : Fetch.Resp) (nv : Str × Str) (h : nv ∈ Rv.Tunnel.hdrOps r) :
    (∃ o, r.hdrFrom = some o ∧ nv = (s "X-Origin-Ver", toDec o.ver)) ∨
    (∃ o, r.hdrFrom = some o ∧ nv = (s "Etag", o.etag.toList)) ∨
    (∃ a b n, nv = (s "Content-Range", s "bytes " ++ toDec a ++ ['-'] ++ toDec b ++ ['/'] ++ toDec n)) ∨
    (∃ n, nv = (s "Content-Range", s "bytes */" ++ toDec n)) ∨
    (∃ len, (∀ bytes, clOf r.body bytes = some len) ∧ nv = (s "Content-Length", toDec len)) ∨
    nv = (s "Content-Type", s "text/plain; charset=utf-8") ∨
    nv = (s "X-Content-Type-Options", s "nosniff") := by
  unfold Rv.Tunnel.hdrOps at h
  simp only [List.mem_append] at h
  rcases h with ((h | h) | h) | h
  · split at h
    · rename_i o ho
      simp only [List.mem_append, List.mem_singleton] at h
      rcases h with h | h
      · exact .inl ⟨o, ho, h⟩
      · split at h
        · simp at h
        · simp only [List.mem_singleton] at h
          exact .inr (.inl ⟨o, ho, h⟩)
    · simp at h
  · split at h
    · simp only [List.mem_singleton] at h
      exact .inr (.inr (.inl ⟨_, _, _, h⟩))
    · simp at h
  · split at h
    · simp only [List.mem_singleton] at h
      exact .inr (.inr (.inr (.inl ⟨_, h⟩)))
    · simp at h
  · split at h
    · rename_i hb
      simp only [List.mem_singleton] at h
      exact .inr (.inr (.inr (.inr (.inl ⟨_, fun _ => by rw [hb]; rfl, h⟩))))
    · rename_i hb
      simp only [List.mem_singleton] at h
      exact .inr (.inr (.inr (.inr (.inl ⟨_, fun _ => by rw [hb]; rfl, h⟩))))
    · simp only [List.mem_cons, List.not_mem_nil, or_false] at h
      rcases h with h | h
      · exact .inr (.inr (.inr (.inr (.inr (.inl h)))))
      · exact .inr (.inr (.inr (.inr (.inr (.inr h)))))
    · simp at h

/-- a well-formed name that is not a framing field. -/
def NameOK (n : Str) : Prop :=
  n ≠ [] ∧ (∀ c ∈ n, c ≠ ':' ∧ c ≠ '\r' ∧ c ≠ '\n') ∧ toLower n ≠ lowCL ∧ toLower n ≠ lowTE

theorem good_of (n v : Str) (hn : NameOK n) (hv : valueClean v) : FieldOK (n, v) ∧ NotFraming (n, v) :=
  ⟨⟨hn.1, hn.2.1, hv.1, hv.2⟩, hn.2.2.1, hn.2.2.2⟩

theorem valueClean_range (a b n : Nat) :
    valueClean (s "bytes " ++ toDec a ++ ['-'] ++ toDec b ++ ['/'] ++ toDec n) := by
  refine ⟨?_, trimOWS_pre_dec 'b' (s "ytes " ++ toDec a ++ ['-'] ++ toDec b ++ ['/']) _ n rfl (by decide)⟩
  have h1 : noCRLF (s "bytes ") := by unfold noCRLF; decide
  have h2 : noCRLF ['-'] := by unfold noCRLF; decide
  have h3 : noCRLF ['/'] := by unfold noCRLF; decide
  exact noCRLF_append (noCRLF_append (noCRLF_append (noCRLF_append (noCRLF_append h1 (noCRLF_toDec a)) h2)
    (noCRLF_toDec b)) h3) (noCRLF_toDec n)

theorem valueClean_unsat (n : Nat) : valueClean (s "bytes */" ++ toDec n) := by
  refine ⟨?_, trimOWS_pre_dec 'b' (s "ytes */") _ n rfl (by decide)⟩
  have h1 : noCRLF (s "bytes */") := by unfold noCRLF; decide
  exact noCRLF_append h1 (noCRLF_toDec n)

theorem valueClean_ctype : valueClean (s "text/plain; charset=utf-8") := by
  unfold valueClean; decide

theorem valueClean_nosniff : valueClean (s "nosniff") := by
  unfold valueClean; decide


theorem nameOK_ver : NameOK (s "X-Origin-Ver") := by unfold NameOK; decide
theorem nameOK_etag : NameOK (s "Etag") := by unfold NameOK; decide
theorem nameOK_crange : NameOK (s "Content-Range") := by unfold NameOK; decide
theorem nameOK_ctype : NameOK (s "Content-Type") := by unfold NameOK; decide
theorem nameOK_nosniff : NameOK (s "X-Content-Type-Options") := by unfold NameOK; decide

/-- every field `hdrOps` sets other than Content-Length is well formed and not
    a framing field, provided the entity tag is a clean value. -/
theorem hdrOps_good (r : Fetch.Resp) (he : etagClean r) (nv : Str × Str) (h : nv ∈ Rv.Tunnel.hdrOps r)
    (hcl : nv.1 ≠ nameCL) : FieldOK nv ∧ NotFraming nv := by
  rcases hdrOps_mem r nv h with ⟨o, _, rfl⟩ | ⟨o, ho, rfl⟩ | ⟨a, b, n, rfl⟩ | ⟨n, rfl⟩ | ⟨len, _, rfl⟩ | rfl | rfl
  · exact good_of _ _ nameOK_ver (valueClean_toDec _)
  · exact good_of _ _ nameOK_etag (he o ho)
  · exact good_of _ _ nameOK_crange (valueClean_range a b n)
  · exact good_of _ _ nameOK_crange (valueClean_unsat n)
  · exact absurd (by decide : s "Content-Length" = nameCL) hcl
  · exact good_of _ _ nameOK_ctype valueClean_ctype
  · exact good_of _ _ nameOK_nosniff valueClean_nosniff

theorem mem_otherHdrs {h : Hdr} {nv : Str × Str} (hm : nv ∈ otherHdrs h) : nv ∈ h ∧ nv.1 ≠ nameCL := by
  unfold otherHdrs at hm
  simpa using hm

/-- (L1) the `fields` part of `Resp.WF` for every `toWire`. -/
theorem toWire_fields_ok (isHead : Bool) (r : Fetch.Resp) (bytes : Str) (fails : Bool) (he : etagClean r) :
    ∀ nv ∈ (toWire isHead r bytes fails).hdrs, FieldOK nv ∧ NotFraming nv := by
  intro nv hnv
  obtain ⟨h1, h2⟩ := mem_otherHdrs hnv
  exact hdrOps_good r he nv h1 h2

/-! the same through the responder's header map -/

theorem mem_iff_values (h : Hdr) (nv : Str × Str) : nv ∈ h ↔ nv.2 ∈ values h nv.1 := by
  unfold values
  simp only [List.mem_map, List.mem_filter, decide_eq_true_eq]
  constructor
  · intro hm; exact ⟨nv, ⟨hm, rfl⟩, rfl⟩
  · rintro ⟨x, ⟨hx, h1⟩, h2⟩
    have : x = nv := Prod.ext h1 h2
    exact this ▸ hx

/-- a fresh responder holds nothing but the fields the response set. -/
theorem mem_setHeaders_nil {src : Hdr} {nv : Str × Str} (h : nv ∈ setHeaders [] src) : nv ∈ src := by
  rw [mem_iff_values] at h ⊢
  rw [Rv.Lemmas.Headers.setHeaders_values] at h
  split at h
  · exact h
  · simp [values] at h

/-- (L1) for what `Rv.Tunnel.respond` records with a responder of its own. -/
theorem ofTunnel_fields_ok (isHead : Bool) (r : Fetch.Resp) (bytes : Str) (fails : Bool) (he : etagClean r) :
    ∀ nv ∈ (ofTunnel isHead (Rv.Tunnel.respond [] r).2 bytes fails).hdrs, FieldOK nv ∧ NotFraming nv := by
  intro nv hnv
  obtain ⟨h1, h2⟩ := mem_otherHdrs hnv
  exact hdrOps_good r he nv (mem_setHeaders_nil h1) h2


/-! ### (L2) framing of a response whose Content-Length is the number of body bytes -/

theorem framing_exact_nil (x : Wire.Resp) (hcl : x.cl = some x.body.length) (hb : x.body = []) :
    framing x = if noBodyStatus x.status then .noBody else .length 0 := by
  rw [hb] at hcl
  simp [framing, hcl, hb]

theorem framing_exact_cons (x : Wire.Resp) (hcl : x.cl = some x.body.length) (hb : x.body ≠ []) :
    framing x = .length x.body.length := by
  cases hx : x.body with
  | nil => exact absurd hx hb
  | cons a t =>
    rw [hx] at hcl
    simp [framing, hcl]

/-- such a response is written completely when its body source does not fail. -/
theorem complete_of_exact (x : Wire.Resp) (hcl : x.cl = some x.body.length) (hf : x.fails = false) :
    (frame x).2 = true := by
  have hp : probeFails x = false := by
    unfold probeFails; split <;> simp [hf]
  simp only [frame, hp, Bool.false_eq_true, ↓reduceIte]
  unfold bodyBytes
  cases hh : x.head with
  | true => simp
  | false =>
    simp only [Bool.false_eq_true, ↓reduceIte]
    by_cases hb : x.body = []
    · rw [framing_exact_nil x hcl hb]
      cases hn : noBodyStatus x.status <;> simp [hb, hf]
    · rw [framing_exact_cons x hcl hb]
      simp [hf]

/-- such a response is delimited exactly when it is not a body on a status that
    does not allow one. -/
theorem delimited_exact_iff (x : Wire.Resp) (hcl : x.cl = some x.body.length) :
    delimited x = true ↔ (x.head = true ∨ noBodyStatus x.status = false ∨ x.body = []) := by
  unfold delimited
  cases hh : x.head with
  | true => simp
  | false =>
    by_cases hb : x.body = []
    · rw [framing_exact_nil x hcl hb]
      cases hn : noBodyStatus x.status <;> simp [hb]
    · rw [framing_exact_cons x hcl hb]
      cases hx : x.body with
      | nil => exact absurd hx hb
      | cons a t => simp


/-! ### (L2) for `toWire` -/

/-- when the transfer completes, the Content-Length the responder holds is the
    number of bytes the body source yields. -/
theorem clOf_exact {b : Body} {bytes : Str} (hm : bodyMatch b bytes false) : clOf b bytes = some bytes.length := by
  cases b with
  | empty => simp only [bodyMatch] at hm; subst hm; rfl
  | origin v st len => simp only [bodyMatch, Bool.false_eq_true, ↓reduceIte] at hm; simp [clOf, hm]
  | stored v st len => simp only [bodyMatch, Bool.false_eq_true, ↓reduceIte] at hm; simp [clOf, hm]
  | proxyError => rfl

theorem bytes_nil_of {b : Body} {bytes : Str} (hm : bodyMatch b bytes false) (hd : declaredLen b = some 0) :
    bytes = [] := by
  cases b with
  | empty => exact hm
  | origin v st len =>
    simp only [bodyMatch, Bool.false_eq_true, ↓reduceIte] at hm
    simp only [declaredLen, Option.some.injEq] at hd
    exact List.eq_nil_of_length_eq_zero (hm.trans hd)
  | stored v st len =>
    simp only [bodyMatch, Bool.false_eq_true, ↓reduceIte] at hm
    simp only [declaredLen, Option.some.injEq] at hd
    exact List.eq_nil_of_length_eq_zero (hm.trans hd)
  | proxyError => simp [declaredLen] at hd

/-- a record-level response whose transfer does not fail is written completely. -/
theorem toWire_complete (isHead : Bool) (r : Fetch.Resp) (bytes : Str) (hm : bytesMatch r bytes) :
    (frame (toWire isHead r bytes false)).2 = true :=
  complete_of_exact _ (clOf_exact hm) rfl

/-- (L2, exact form) the response is delimited on the wire EXACTLY when it is a
    HEAD exchange, or its status allows a body, or no body byte is sent. -/
theorem toWire_delimited_iff (isHead : Bool) (r : Fetch.Resp) (bytes : Str) (hm : bytesMatch r bytes) :
    delimited (toWire isHead r bytes false) = true ↔
      (isHead = true ∨ noBodyStatus r.status = false ∨ bytes = []) :=
  delimited_exact_iff _ (clOf_exact hm)

/-- (L2) neither non-delimitable shape arises from a record-level response whose
    no-body status (1xx / 204 / 304) comes with a declared length of 0:
    `Content-Length: 0` always goes with an empty body, and a positive
    Content-Length is never put on a status that does not allow a body. -/
theorem toWire_delimited (isHead : Bool) (r : Fetch.Resp) (bytes : Str) (hm : bytesMatch r bytes)
    (hs : noBodyOK r) : delimited (toWire isHead r bytes false) = true := by
  rw [toWire_delimited_iff isHead r bytes hm]
  cases hn : noBodyStatus r.status with
  | false => exact .inr (.inl rfl)
  | true => exact .inr (.inr (bytes_nil_of hm (hs hn)))

/-- the proviso of Rv.Lemmas.Wire, discharged for record-level responses. -/
theorem toWire_wf (isHead : Bool) (r : Fetch.Resp) (bytes : Str) (he : etagClean r) (hs : noBodyOK r)
    (hm : bytesMatch r bytes) : (toWire isHead r bytes false).WF :=
  ⟨toWire_fields_ok isHead r bytes false he, toWire_delimited isHead r bytes hm hs⟩

/-- the same for what `Rv.Tunnel.respond` records with a responder of its own. -/
theorem ofTunnel_wf (isHead : Bool) (r : Fetch.Resp) (bytes : Str) (he : etagClean r) (hs : noBodyOK r)
    (hm : bytesMatch r bytes) : (ofTunnel isHead (Rv.Tunnel.respond [] r).2 bytes false).WF :=
  ⟨ofTunnel_fields_ok isHead r bytes false he, toWire_delimited isHead r bytes hm hs⟩

theorem ofTunnel_complete (isHead : Bool) (r : Fetch.Resp) (bytes : Str) (hm : bytesMatch r bytes) :
    (frame (ofTunnel isHead (Rv.Tunnel.respond [] r).2 bytes false)).2 = true :=
  complete_of_exact _ (clOf_exact hm) rfl

/-- the Content-Length `toWire` announces is the one `hdrOps` sets, read back
    the way `parseAndSetContentLength` does. -/
theorem toWire_cl_hdrOps (isHead : Bool) (r : Fetch.Resp) (bytes : Str) (fails : Bool) (v : Str)
    (hv : (s "Content-Length", v) ∈ Rv.Tunnel.hdrOps r) :
    allDigits v = true ∧ (toWire isHead r bytes fails).cl = some (decVal v) := by
  rcases hdrOps_mem r _ hv with ⟨o, _, h⟩ | ⟨o, _, h⟩ | ⟨a, b, n, h⟩ | ⟨n, h⟩ | ⟨len, hl, h⟩ | h | h
  · exact absurd (Prod.mk.inj h).1 (by decide)
  · exact absurd (Prod.mk.inj h).1 (by decide)
  · exact absurd (Prod.mk.inj h).1 (by decide)
  · exact absurd (Prod.mk.inj h).1 (by decide)
  · rw [(Prod.mk.inj h).2]
    exact ⟨allDigits_toDec len, by rw [decVal_toDec]; exact hl bytes⟩
  · exact absurd (Prod.mk.inj h).1 (by decide)
  · exact absurd (Prod.mk.inj h).1 (by decide)


/-! ### the record level: what `handle` can deliver -/

/-- the origin record an answer carries (what `relay` delivers as `hdrFrom`). -/
def ansRec : OAns → Option ORes
  | .full o | .notModified o | .partial_ o _ _ | .unsat o => some o
  | .missing => none

theorem relay_hdrFrom (a : OAns) (m : String) (l : Label) : (relay a m l).hdrFrom = ansRec a := by
  cases a <;> rfl

/-- the scripted origin answers with a record of its table. -/
theorem originAnswer_rec (tbl : Nat → Option ORes) (u : UpReq) (o : ORes)
    (h : ansRec (originAnswer tbl u) = some o) : tbl u.res = some o := by
  unfold originAnswer at h
  cases ht : tbl u.res with
  | none => simp [ht, ansRec] at h
  | some o' =>
    simp only [ht] at h
    repeat' split at h
    all_goals (simp only [ansRec, Option.some.injEq] at h; rw [h])

section inv
variable (P : ORes → Prop)

theorem erase_sub {c : Cache} {res : Nat} {q : String} {e : CEntry} (h : e ∈ erase c res q) : e ∈ c :=
  (List.mem_filter.1 h).1

theorem onAnswer_cache_inv (cfg : Cfg) (c : Cache) (now : Int) (u : UpReq) (a : OAns)
    (hc : ∀ e ∈ c, P e.o) (ha : ∀ o, ansRec a = some o → P o) :
    ∀ e ∈ (onAnswer cfg c now u a).2, P e.o := by
  rcases onAnswer_cases cfg c now u a with h | h | ⟨o, rfl, _, _, _, h⟩ | ⟨o, e0, rfl, hl, h⟩
  · rw [h]; exact hc
  · rw [h]; exact hc
  · rw [h]; intro e he
    rcases List.mem_cons.1 he with rfl | he
    · exact ha o rfl
    · exact hc e (erase_sub he)
  · rw [h]; intro e he
    rcases List.mem_cons.1 he with rfl | he
    · exact hc e0 (FetchB.lookup_some hl).1
    · exact hc e (erase_sub he)

theorem fetchUpstream_cache_inv (cfg : Cfg) (tbl : Nat → Option ORes) (c : Cache) (now : Int) (u : UpReq) (rp : Bool)
    (hT : ∀ n o, tbl n = some o → P o) (hc : ∀ e ∈ c, P e.o) :
    ∀ e ∈ (fetchUpstream cfg tbl c now u rp).cache, P e.o := by
  obtain ⟨ul, _, _, hcache⟩ := fetchUpstream_spec cfg tbl c now u rp
  rw [hcache]
  exact onAnswer_cache_inv P cfg c now ul _ hc (fun o ho => hT _ o (originAnswer_rec tbl ul o ho))

theorem dedupFetch_cache_shape (cfg : Cfg) (tbl : Nat → Option ORes) (c : Cache) (now : Int) (r : Req)
    (range : Option Str) (rp : Bool) :
    (dedupFetch cfg tbl c now r range rp).cache = c ∨
    ∃ u rp', (dedupFetch cfg tbl c now r range rp).cache = (fetchUpstream cfg tbl c now u rp').cache := by
  unfold dedupFetch dedupFetchEnv
  simp only []
  repeat' split
  all_goals first
    | exact .inl rfl
    | exact .inr ⟨_, _, rfl⟩

theorem dedupFetch_cache_inv (cfg : Cfg) (tbl : Nat → Option ORes) (c : Cache) (now : Int) (r : Req)
    (range : Option Str) (rp : Bool)
    (hT : ∀ n o, tbl n = some o → P o) (hc : ∀ e ∈ c, P e.o) :
    ∀ e ∈ (dedupFetch cfg tbl c now r range rp).cache, P e.o := by
  rcases dedupFetch_cache_shape cfg tbl c now r range rp with h | ⟨u, rp', h⟩
  · rw [h]; exact hc
  · rw [h]; exact fetchUpstream_cache_inv P cfg tbl c now u rp' hT hc

end inv


/-! ### what `handle` delivers -/

/-- an origin answer whose status does not allow a body has no body. -/
def AnsOK (a : OAns) : Prop := ∀ o, a = .full o → o.status < 200 → o.size = 0

theorem noBodyOK_of_status {r : Fetch.Resp} (h : noBodyStatus r.status = false) : noBodyOK r := by
  intro hn; rw [h] at hn; cases hn

theorem noBodyOK_of_eq {r : Fetch.Resp} (n : Nat) (hs : r.status = n) (hn : noBodyStatus n = false) : noBodyOK r :=
  noBodyOK_of_status (hs ▸ hn)

theorem relay_noBodyOK (a : OAns) (m : String) (l : Label) (h : AnsOK a) : noBodyOK (relay a m l) := by
  intro hn
  by_cases hm : m = "HEAD"
  · simp [relay, hm, declaredLen]
  · cases a with
    | full o =>
      simp only [relay, ansStatus, noBodyStatus, Bool.or_eq_true, decide_eq_true_eq, beq_iff_eq] at hn
      by_cases h23 : o.status = 204 ∨ o.status = 304
      · rcases h23 with h23 | h23 <;> simp [relay, hm, h23, declaredLen]
      · have hlt : o.status < 200 := by
          rcases hn with (hn | hn) | hn
          · exact hn
          · exact absurd (.inl hn) h23
          · exact absurd (.inr hn) h23
        have h2 : ¬ o.status = 204 := fun e => h23 (.inl e)
        have h3 : ¬ o.status = 304 := fun e => h23 (.inr e)
        simp [relay, hm, h2, h3, declaredLen, h o rfl hlt]
    | notModified o => simp [relay, hm, declaredLen]
    | partial_ o x y => simp [relay, ansStatus, noBodyStatus] at hn
    | unsat o => simp [relay, hm, declaredLen]
    | missing => simp [relay, ansStatus, noBodyStatus] at hn

/-- `handleAux`: the status / body pairing and the origin of the delivered
    headers, from what the two fetches hand up. -/
theorem handleAux_facts (P : ORes → Prop) (cfg : Cfg) (now : Int) (r : Req) (p : Option (Int × Int)) (d d2 : DF)
    (h1 : ∀ a, d.out = .direct a → AnsOK a ∧ ∀ o, ansRec a = some o → P o)
    (h2 : ∀ a, d2.out = .direct a → AnsOK a ∧ ∀ o, ansRec a = some o → P o)
    (c1 : ∀ e st, d.out = .cached e st → P e.o)
    (c2 : ∀ e st, d2.out = .cached e st → P e.o) :
    noBodyOK (handleAux cfg now r p d d2).1 ∧
    (∀ o, (handleAux cfg now r p d d2).1.hdrFrom = some o → P o) ∧
    ((handleAux cfg now r p d d2).2.1 = d.cache ∨ (handleAux cfg now r p d d2).2.1 = d2.cache) := by
  rcases d with ⟨out, label, cache, log, rd⟩
  cases out with
  | notCacheable =>
    exact ⟨noBodyOK_of_eq 502 rfl (by decide), by simp [handleAux, resp502], .inl rfl⟩
  | direct a =>
    obtain ⟨ha, hp⟩ := h1 a rfl
    refine ⟨relay_noBodyOK a _ _ ha, ?_, .inl rfl⟩
    intro o ho
    exact hp o (by simpa [handleAux, relay_hdrFrom] using ho)
  | cached e st =>
    have pe := c1 e st rfl
    have full : ∀ lab, noBodyOK (fullFromCache e lab st r.method now) ∧
        (∀ o, (fullFromCache e lab st r.method now).hdrFrom = some o → P o) := by
      intro lab
      refine ⟨noBodyOK_of_eq 200 rfl (by decide), ?_⟩
      intro o ho
      have ho' : some e.o = some o := ho
      exact (Option.some.inj ho') ▸ pe
    cases p with
    | none => exact ⟨(full _).1, (full _).2, .inl rfl⟩
    | some ab =>
      obtain ⟨a, b⟩ := ab
      cases rd with
      | true => exact ⟨(full _).1, (full _).2, .inl rfl⟩
      | false =>
        cases hss : Range.sliceSize a b e.o.size with
        | none =>
          cases hri : cfg.retryInvalidRange with
          | false =>
            refine ⟨noBodyOK_of_eq 416 (by simp [handleAux, hss, hri, resp416]) (by decide), ?_, ?_⟩
            · simp [handleAux, hss, hri, resp416]
            · simp [handleAux, hss, hri]
          | true =>
            rcases d2 with ⟨out2, l2, c2', log2, rd2⟩
            cases out2 with
            | notCacheable =>
              refine ⟨noBodyOK_of_eq 502 (by simp [handleAux, hss, hri, resp502]) (by decide), ?_, ?_⟩
              · simp [handleAux, hss, hri, resp502]
              · simp [handleAux, hss, hri]
            | cached e2 st2 =>
              have pe2 := c2 e2 st2 rfl
              refine ⟨noBodyOK_of_eq 200 (by simp [handleAux, hss, hri, respRetry200]) (by decide), ?_, ?_⟩
              · intro o ho
                simp only [handleAux, hss, hri, respRetry200, Bool.not_true, Bool.false_eq_true, ↓reduceIte,
                  Bool.and_true, Option.isSome_some, Bool.not_false, Option.some.injEq] at ho
                exact ho ▸ pe2
              · simp [handleAux, hss, hri]
            | direct a2 =>
              obtain ⟨ha, hp⟩ := h2 a2 rfl
              refine ⟨?_, ?_, ?_⟩
              · have := relay_noBodyOK a2 r.method .none ha
                simpa [handleAux, hss, hri, respRetryRelay, noBodyOK] using this
              · intro o ho
                exact hp o (by simpa [handleAux, hss, hri, respRetryRelay, relay_hdrFrom] using ho)
              · simp [handleAux, hss, hri]
        | some se =>
          obtain ⟨s', en⟩ := se
          by_cases hm : ifRangeMismatch r e = true
          · have e1 : (handleAux cfg now r (some (a, b)) ⟨.cached e st, label, cache, log, false⟩ d2)
                = (fullFromCache e label st r.method now, cache, log) := by
              simp [handleAux, hss, hm]
            rw [e1]
            exact ⟨(full _).1, (full _).2, .inl rfl⟩
          · refine ⟨noBodyOK_of_eq 206 (by simp [handleAux, hss, hm, resp206]) (by decide), ?_, ?_⟩
            · intro o ho
              simp only [handleAux, hss, hm, resp206, Bool.false_eq_true, ↓reduceIte,
                Bool.and_true, Option.isSome_some, Bool.not_false, Option.some.injEq] at ho
              exact ho ▸ pe
            · simp [handleAux, hss, hm]


/-- one request: pairing of status and body, origin of the delivered headers,
    and the store afterwards, for any property `P` of origin records that holds
    of the origin's table and of the store. -/
theorem handle_facts (P : ORes → Prop) (cfg : Cfg) (tbl : Nat → Option ORes) (c : Cache) (now : Int) (r : Req)
    (hO : originOK tbl) (hT : ∀ n o, tbl n = some o → P o) (hC : ∀ e ∈ c, P e.o) :
    noBodyOK (handle cfg tbl c now r).1 ∧
    (∀ o, (handle cfg tbl c now r).1.hdrFrom = some o → P o) ∧
    (∀ e ∈ (handle cfg tbl c now r).2.1, P e.o) := by
  rw [FetchB.handle_eq]
  have i1 : ∀ e ∈ (df1 cfg tbl c now r).cache, P e.o := dedupFetch_cache_inv P cfg tbl c now r _ _ hT hC
  have i2 : ∀ e ∈ (df2 cfg tbl c now r).cache, P e.o := dedupFetch_cache_inv P cfg tbl _ now r _ _ hT i1
  obtain ⟨_, d1, k1, _⟩ := df_facts cfg tbl c now r r.range (parsedOf r).isSome
  obtain ⟨_, d2, k2, _⟩ := df_facts cfg tbl (df1 cfg tbl c now r).cache now r none false
  have dir : ∀ x a, a = originAnswer tbl x → AnsOK a ∧ ∀ o, ansRec a = some o → P o := by
    intro x a ha
    subst ha
    refine ⟨?_, fun o ho => hT _ o (originAnswer_rec tbl x o ho)⟩
    intro o ho
    exact hO _ o (originAnswer_rec tbl x o (by rw [ho]; rfl))
  obtain ⟨f1, f2, f3⟩ := handleAux_facts P cfg now r (parsedOf r) (df1 cfg tbl c now r) (df2 cfg tbl c now r)
    (fun a ha => by obtain ⟨x, _, hx⟩ := d1 a ha; exact dir x a hx)
    (fun a ha => by obtain ⟨x, _, hx⟩ := d2 a ha; exact dir x a hx)
    (fun e st he => i1 e (k1 e st he).1)
    (fun e st he => i2 e (k2 e st he).1)
  refine ⟨f1, f2, ?_⟩
  rcases f3 with h | h <;> rw [h]
  · exact i1
  · exact i2

/-- the provisos of `tunnel_bytes_isolated` hold for EVERY request sequence as
    soon as they hold of the origin's table and of the initial store. -/
theorem resps_clean (cfg : Cfg) (tbl : Nat → Option ORes) (c : Cache) (now : Int) (reqs : List Req)
    (hO : originOK tbl) (hT : tblClean tbl) (hC : cacheClean c) :
    ∀ r ∈ resps cfg tbl c now reqs, etagClean r ∧ noBodyOK r := by
  induction reqs generalizing c now with
  | nil => intro r hr; cases hr
  | cons q rest ih =>
    obtain ⟨f1, f2, f3⟩ := handle_facts (fun o => valueClean o.etag.toList) cfg tbl c now q hO hT hC
    intro r hr
    rcases List.mem_cons.1 hr with rfl | hr
    · exact ⟨f2, f1⟩
    · exact ih _ _ f3 r hr


/-! ### (L3) the tunnel -/

/-- `Rv.Tunnel.serve` with a responder per request is the list of `handle`'s
    response records, each written through a fresh responder. -/
theorem serve_eq_resps (cfg : Cfg) (tbl : Nat → Option ORes) (rs : Rv.Tunnel.Responder) (c : Cache) (now : Int)
    (reqs : List Req) :
    Rv.Tunnel.serve false cfg tbl rs c now reqs =
      (resps cfg tbl c now reqs).map (fun r => (Rv.Tunnel.respond [] r).2) := by
  induction reqs generalizing rs c now with
  | nil => rfl
  | cons q rest ih =>
    simp only [Rv.Tunnel.serve, resps, Bool.false_eq_true, ↓reduceIte, List.map_cons]
    exact congrArg _ (ih _ _ _)

/-- the byte-level responses of a list of record-level responses, each with a
    responder of its own: all well formed, all written completely, one per
    request, HEAD exactly where the request is a HEAD. -/
theorem tunnelResps_ok : ∀ (reqs : List Req) (rsps : List Fetch.Resp) (bs : List Str),
    rsps.length = reqs.length →
    (∀ r ∈ rsps, etagClean r ∧ noBodyOK r) →
    allMatch (rsps.map (fun r => (Rv.Tunnel.respond [] r).2)) bs →
    (∀ x ∈ tunnelResps reqs (rsps.map (fun r => (Rv.Tunnel.respond [] r).2)) bs,
      x.WF ∧ (frame x).2 = true) ∧
    (tunnelResps reqs (rsps.map (fun r => (Rv.Tunnel.respond [] r).2)) bs).map (·.head)
      = reqs.map (fun q => q.method == "HEAD") ∧
    (tunnelResps reqs (rsps.map (fun r => (Rv.Tunnel.respond [] r).2)) bs).map (·.status)
      = rsps.map (·.status)
  | [], [], [], _, _, _ => ⟨by simp [tunnelResps], rfl, rfl⟩
  | [], [], _ :: _, _, _, hm => by simp [allMatch] at hm
  | [], _ :: _, _, hl, _, _ => by simp at hl
  | _ :: _, [], _, hl, _, _ => by simp at hl
  | _ :: _, _ :: _, [], _, _, hm => by simp [allMatch] at hm
  | q :: reqs, r :: rsps, b :: bs, hl, hc, hm => by
    simp only [List.map_cons, allMatch] at hm
    obtain ⟨hc1, hc2⟩ := hc r (by simp)
    obtain ⟨ih1, ih2, ih3⟩ := tunnelResps_ok reqs rsps bs (by simpa using hl)
      (fun x hx => hc x (List.mem_cons_of_mem _ hx)) hm.2
    simp only [List.map_cons, tunnelResps]
    refine ⟨?_, ?_, ?_⟩
    · intro x hx
      rcases List.mem_cons.1 hx with rfl | hx
      · exact ⟨ofTunnel_wf _ r b hc1 hc2 hm.1, ofTunnel_complete _ r b hm.1⟩
      · exact ih1 x hx
    · rw [ih2]; rfl
    · rw [ih3]; rfl

theorem resps_length (cfg : Cfg) (tbl : Nat → Option ORes) (c : Cache) (now : Int) (reqs : List Req) :
    (resps cfg tbl c now reqs).length = reqs.length := by
  induction reqs generalizing c now with
  | nil => rfl
  | cons q rest ih => simp [resps, ih]

/-- (L3) byte-level isolation for `Rv.Tunnel.serve` itself: whatever the
    requests of one CONNECT tunnel (methods, ranges, hits, misses, errors),
    whatever bytes the body sources yield as long as they are what the records
    say and no transfer fails, a client reading the stream by the RFC 9112 rules
    recovers one message per request — exactly the responses written, nothing
    left over.  The two provisos are about the response RECORDS (`resps`, the
    records `Rv.Tunnel.serve` writes: `serve_eq_resps`); `resps_clean` derives
    them from the origin table and the initial store. -/
theorem tunnel_bytes_isolated (cfg : Cfg) (tbl : Nat → Option ORes) (rs : Rv.Tunnel.Responder) (c : Cache)
    (now : Int) (reqs : List Req) (bs : List Str)
    (hc : ∀ r ∈ resps cfg tbl c now reqs, etagClean r ∧ noBodyOK r)
    (hm : allMatch (Rv.Tunnel.serve false cfg tbl rs c now reqs) bs) :
    readAll (reqs.map (fun q => q.method == "HEAD"))
        (Rv.Wire.serve (tunnelResps reqs (Rv.Tunnel.serve false cfg tbl rs c now reqs) bs))
      = ((tunnelResps reqs (Rv.Tunnel.serve false cfg tbl rs c now reqs) bs).map view, []) ∧
    (tunnelResps reqs (Rv.Tunnel.serve false cfg tbl rs c now reqs) bs).map (·.status)
      = (resps cfg tbl c now reqs).map (·.status) := by
  rw [serve_eq_resps] at hm ⊢
  obtain ⟨h1, h2, h3⟩ := tunnelResps_ok reqs _ bs (resps_length cfg tbl c now reqs) hc hm
  refine ⟨?_, h3⟩
  rw [← h2]
  exact serve_isolated _ (fun x hx => (h1 x hx).1) (fun x hx => (h1 x hx).2)


/-- (L3) from the inputs alone: an origin that sends no body on a status below
    200 and whose entity tags are clean header values, a store whose entity tags
    are clean. -/
theorem tunnel_bytes_isolated_of_inputs (cfg : Cfg) (tbl : Nat → Option ORes) (rs : Rv.Tunnel.Responder)
    (c : Cache) (now : Int) (reqs : List Req) (bs : List Str)
    (hO : originOK tbl) (hT : tblClean tbl) (hC : cacheClean c)
    (hm : allMatch (Rv.Tunnel.serve false cfg tbl rs c now reqs) bs) :
    readAll (reqs.map (fun q => q.method == "HEAD"))
        (Rv.Wire.serve (tunnelResps reqs (Rv.Tunnel.serve false cfg tbl rs c now reqs) bs))
      = ((tunnelResps reqs (Rv.Tunnel.serve false cfg tbl rs c now reqs) bs).map view, []) ∧
    (tunnelResps reqs (Rv.Tunnel.serve false cfg tbl rs c now reqs) bs).map (·.status)
      = (resps cfg tbl c now reqs).map (·.status) :=
  tunnel_bytes_isolated cfg tbl rs c now reqs bs (resps_clean cfg tbl c now reqs hO hT hC) hm

/-! ### a bytes oracle -/

theorem allMatch_map (f : Rv.Tunnel.Wire → Str) (hf : ∀ w, bodyMatch w.body (f w) false) :
    ∀ ws : List Rv.Tunnel.Wire, allMatch ws (ws.map f)
  | [] => trivial
  | w :: ws => ⟨hf w, allMatch_map f hf ws⟩

/-- (L3) with a bytes oracle: any function that gives every exchange the bytes
    its record announces. -/
theorem tunnel_bytes_isolated_oracle (cfg : Cfg) (tbl : Nat → Option ORes) (rs : Rv.Tunnel.Responder)
    (c : Cache) (now : Int) (reqs : List Req) (f : Rv.Tunnel.Wire → Str)
    (hO : originOK tbl) (hT : tblClean tbl) (hC : cacheClean c)
    (hf : ∀ w, bodyMatch w.body (f w) false) :
    readAll (reqs.map (fun q => q.method == "HEAD"))
        (Rv.Wire.serve (tunnelResps reqs (Rv.Tunnel.serve false cfg tbl rs c now reqs)
          ((Rv.Tunnel.serve false cfg tbl rs c now reqs).map f)))
      = ((tunnelResps reqs (Rv.Tunnel.serve false cfg tbl rs c now reqs)
          ((Rv.Tunnel.serve false cfg tbl rs c now reqs).map f)).map view, []) :=
  (tunnel_bytes_isolated_of_inputs cfg tbl rs c now reqs _ hO hT hC (allMatch_map f hf _)).1

/-! ### the list-of-triples formulation and cut transfers -/

/-- (L3, triples) any list of exchanges `(isHead, record, bytes)` whose records
    satisfy the two provisos and whose bytes match: read back exactly. -/
theorem triples_isolated (ts : List (Bool × Fetch.Resp × Str))
    (h : ∀ t ∈ ts, etagClean t.2.1 ∧ noBodyOK t.2.1 ∧ bytesMatch t.2.1 t.2.2) :
    readAll (ts.map (·.1)) (Rv.Wire.serve (ts.map ofTriple)) = ((ts.map ofTriple).map view, []) := by
  have hw : ∀ x ∈ ts.map ofTriple, x.WF ∧ (frame x).2 = true := by
    intro x hx
    obtain ⟨t, ht, rfl⟩ := List.mem_map.1 hx
    obtain ⟨h1, h2, h3⟩ := h t ht
    exact ⟨toWire_wf t.1 t.2.1 t.2.2 h1 h2 h3, toWire_complete t.1 t.2.1 t.2.2 h3⟩
  have := serve_isolated (ts.map ofTriple) (fun x hx => (hw x hx).1) (fun x hx => (hw x hx).2)
  simpa [List.map_map, Function.comp_def, ofTriple, toWire] using this

/-- a body source that fails, on a GET exchange with a Content-Length: the
    write is never reported complete. -/
theorem incomplete_of_fails (st : Nat) (n : Nat) (hdrs : List (Str × Str)) (body : Str) :
    (frame { status := st, head := false, cl := some n, hdrs := hdrs, body := body, fails := true }).2 = false := by
  cases n with
  | zero =>
    cases body with
    | nil => simp [frame, probeFails]
    | cons a t => simp [frame, probeFails, bodyBytes, framing]
  | succ k => simp [frame, probeFails, bodyBytes, framing]

/-- a transfer that fails is never reported as a complete write (GET side:
    not a HEAD exchange), whatever bytes were delivered before the failure. -/
theorem toWire_cut_incomplete (r : Fetch.Resp) (bytes : Str) :
    (frame (toWire false r bytes true)).2 = false := by
  have hcl : ∃ n, clOf r.body bytes = some n := by
    cases hb : r.body <;> simp [clOf]
  obtain ⟨n, hn⟩ := hcl
  unfold toWire
  rw [hn]
  exact incomplete_of_fails _ _ _ _

/-- exchanges of a tunnel up to and including one whose transfer is cut: the
    tunnel writes nothing after it, the client recovers the earlier exchanges
    exactly and whatever else it reads comes from bytes of the cut response
    alone.  (`Rv.Lemmas.Wire.serve_stops_at_failure_any` with its proviso
    discharged.) -/
theorem triples_stop_at_cut (pre : List (Bool × Fetch.Resp × Str)) (post : List Rv.Wire.Resp)
    (r : Fetch.Resp) (bytes : Str)
    (h : ∀ t ∈ pre, etagClean t.2.1 ∧ noBodyOK t.2.1 ∧ bytesMatch t.2.1 t.2.2) :
    Rv.Wire.serve (pre.map ofTriple ++ [toWire false r bytes true] ++ post)
      = Rv.Wire.serve (pre.map ofTriple) ++ (frame (toWire false r bytes true)).1 ∧
    readAll ((pre.map ofTriple ++ [toWire false r bytes true] ++ post).map (·.head))
        (Rv.Wire.serve (pre.map ofTriple ++ [toWire false r bytes true] ++ post)) =
      ((pre.map ofTriple).map view ++
        (readAll ((toWire false r bytes true :: post).map (·.head)) (frame (toWire false r bytes true)).1).1,
       (readAll ((toWire false r bytes true :: post).map (·.head)) (frame (toWire false r bytes true)).1).2) := by
  have hw : ∀ x ∈ pre.map ofTriple, x.WF ∧ (frame x).2 = true := by
    intro x hx
    obtain ⟨t, ht, rfl⟩ := List.mem_map.1 hx
    obtain ⟨h1, h2, h3⟩ := h t ht
    exact ⟨toWire_wf t.1 t.2.1 t.2.2 h1 h2 h3, toWire_complete t.1 t.2.1 t.2.2 h3⟩
  exact serve_stops_at_failure_any _ post _ (fun x hx => (hw x hx).1) (fun x hx => (hw x hx).2)
    (toWire_cut_incomplete r bytes)

/-! ### examples and the finding -/

section Examples

/-- a cacheable 200 of 10 bytes with an entity tag, honouring Range. -/
def exO : ORes :=
  { status := 200, ver := 3, size := 10, etag := "v3", lm := .none, cc := [], expires := .absent,
    rangeMode := "honor", cond := true, age := none, hdrset := 0 }

def exCfg : Cfg :=
  { ignoreCC := false, forceDefault := false, defaultMaxAge := 1000, retryInvalidRange := true, retry416 := true,
    fileBackend := false }

def exTbl : Nat → Option ORes := fun k => if k = 1 then some exO else none

def exReq (m : String) (range : Option Str) : Req :=
  { res := 1, method := m, query := "", range := range, ifRangeEtag := none, ifRangeDate := none, hasBody := false }

/-- `GET` with `Range: bytes=0-4` (a 206 relayed from the origin), then a plain
    `GET` (a 200 stored and served from the store). -/
def exReqs : List Req := [exReq "GET" (some (s "bytes=0-4")), exReq "GET" none]

def b5 : Str := ['a', 'b', 'c', 'd', 'e']
def b10 : Str := ['0', '1', '2', '3', '4', '5', '6', '7', '8', '9']

theorem originOK_exTbl : originOK exTbl := by
  intro n o h
  unfold exTbl at h
  split at h
  · cases h; decide
  · cases h

theorem tblClean_exTbl : tblClean exTbl := by
  intro n o h
  unfold exTbl at h
  split at h
  · cases h; unfold valueClean; decide
  · cases h

theorem cacheClean_nil : cacheClean [] := fun _ h => nomatch h

/-- the two records: a 206 of 5 bytes with a Content-Range, a 200 of 10 bytes. -/
example :
    (resps exCfg exTbl [] 0 exReqs).map (fun r => (r.status, r.body, r.contentRange)) =
      [(206, .origin 3 0 5, some (0, 4, 10)), (200, .stored 3 0 10, none)] := by decide

/-- the bytes match the records … -/
theorem exMatch : allMatch (Rv.Tunnel.serve false exCfg exTbl [] [] 0 exReqs) [b5, b10] := by decide

/-- … these are the bytes of the two responses … -/
example :
    (tunnelResps exReqs (Rv.Tunnel.serve false exCfg exTbl [] [] 0 exReqs) [b5, b10]).map (fun x => (frame x).1) =
      [s "HTTP/1.1 206 X\r\nContent-Length: 5\r\nX-Origin-Ver: 3\r\nEtag: v3\r\nContent-Range: bytes 0-4/10\r\n\r\nabcde",
       s "HTTP/1.1 200 X\r\nContent-Length: 10\r\nX-Origin-Ver: 3\r\nEtag: v3\r\n\r\n0123456789"] := by decide

/-- … and the client reads back a 206 with its five bytes and its Content-Range,
    then a 200 with its ten bytes and NO Content-Range, nothing left over.
    (`+kernel`: on a stream this long the elaborator's evaluator runs out of
    recursion depth; the kernel evaluates it.  No axiom is involved.) -/
example :
    readAll [false, false] (tunnelBytes exCfg exTbl [] 0 exReqs [b5, b10]) =
      ([⟨206, [(nameCL, ['5']), (s "X-Origin-Ver", ['3']), (s "Etag", ['v', '3']),
               (s "Content-Range", s "bytes 0-4/10")], b5⟩,
        ⟨200, [(nameCL, ['1', '0']), (s "X-Origin-Ver", ['3']), (s "Etag", ['v', '3'])], b10⟩], []) := by
  decide +kernel

/-- the same as an instance of the theorem: its hypotheses are satisfiable. -/
example :
    readAll [false, false] (tunnelBytes exCfg exTbl [] 0 exReqs [b5, b10]) =
      ((tunnelResps exReqs (Rv.Tunnel.serve false exCfg exTbl [] [] 0 exReqs) [b5, b10]).map view, []) :=
  (tunnel_bytes_isolated_of_inputs exCfg exTbl [] [] 0 exReqs [b5, b10]
    originOK_exTbl tblClean_exTbl cacheClean_nil exMatch).1

/-- a HEAD then a GET on the same tunnel: the HEAD answer carries no body and
    the reader, knowing it answers a HEAD, expects none. -/
example :
    (resps exCfg exTbl [] 0 [exReq "HEAD" none, exReq "GET" none]).map (fun r => (r.status, r.body)) =
      [(200, .empty), (200, .stored 3 0 10)] ∧
    allMatch (Rv.Tunnel.serve false exCfg exTbl [] [] 0 [exReq "HEAD" none, exReq "GET" none]) [[], b10] := by
  decide

/-! #### FINDING: a record-level response that is NOT delimitable -/

/-- an origin record with an informational status and a body of 2 bytes. -/
def o103 : ORes := { exO with status := 103, size := 2, etag := "" }

/-- what `handle` answers to a plain GET for it. -/
def r103 : Fetch.Resp := (handle exCfg (fun _ => some o103) [] 0 (exReq "GET" none)).1

/-- FINDING.  `relay` gives an empty body to 204 / 304 but not to a status below
    200: an origin record with status 103 and size 2 is relayed as a 103 with
    `Body.origin _ 0 2`, i.e. `Content-Length: 2` and two body bytes.  Go writes
    them (the write completes, the tunnel stays open); a client expects no body
    after a 1xx and reads `ab` as the start of the next status line.  This is
    exactly the second shape `Resp.WF.delimited` excludes, and the only way a
    record-level response can have it (`toWire_delimited_iff`, `handle_facts`):
    `originOK` rules it out.  (net/http's client consumes 1xx responses itself
    and never hands one to the proxy as the final response, so the case is one
    of the MODEL, which allows any `ORes.status`.) -/
theorem relay_1xx_with_body :
    r103 = { status := 103, label := .none, body := .origin 3 0 2, hdrFrom := some o103 } ∧
    bytesMatch r103 ['a', 'b'] ∧
    (toWire false r103 ['a', 'b'] false).cl = some 2 ∧
    (frame (toWire false r103 ['a', 'b'] false)).2 = true ∧
    delimited (toWire false r103 ['a', 'b'] false) = false ∧
    readAll [false, false] (Rv.Wire.serve [toWire false r103 ['a', 'b'] false, ok2]) =
      ([⟨103, [(nameCL, ['2']), (s "X-Origin-Ver", ['3'])], []⟩], ['a', 'b'] ++ (frame ok2).1) := by
  decide

/-- `originOK` fails for that origin, as it must. -/
example : ¬ originOK (fun _ => some o103) := fun h => absurd (h 0 o103 rfl (by decide)) (by decide)

end Examples

end Rv.Lemmas.WireLink
