import Rv.Model.Key
import Rv.Spec.Resource
import Rv.Lemmas.Dec
/-
  Rv.Lemmas.Key — helper lemmas and proofs for Props/C02.  Core Lean only.
-/
namespace Rv.Lemmas.Key
open Rv Rv.Key Rv.Spec.Resource Rv.Lemmas.Dec

/-! ### the length-prefixed encoding is uniquely decodable -/

theorem colon_not_digit : isDigit ':' = false := by decide

/-- the first non-digit fixes the digit prefix. -/
theorem digits_colon_inj : ∀ (a b u v : Str), allDigits a = true → allDigits b = true →
    a ++ ':' :: u = b ++ ':' :: v → a = b ∧ u = v
  | [], [], u, v, _, _, h => by
      simp only [List.nil_append, List.cons.injEq, true_and] at h
      exact ⟨rfl, h⟩
  | [], d :: b, u, v, _, hb, h => by
      simp only [List.nil_append, List.cons_append, List.cons.injEq] at h
      rw [allDigits_cons] at hb
      rw [← h.1, colon_not_digit] at hb
      exact absurd hb.1 (by decide)
  | c :: a, [], u, v, ha, _, h => by
      simp only [List.nil_append, List.cons_append, List.cons.injEq] at h
      rw [allDigits_cons] at ha
      rw [h.1, colon_not_digit] at ha
      exact absurd ha.1 (by decide)
  | c :: a, d :: b, u, v, ha, hb, h => by
      simp only [List.cons_append, List.cons.injEq] at h
      rw [allDigits_cons] at ha hb
      obtain ⟨e1, e2⟩ := digits_colon_inj a b u v ha.2 hb.2 h.2
      exact ⟨by rw [h.1, e1], e2⟩

/-- `lp x` followed by anything determines `x` and the rest. -/
theorem lp_append_inj {x y r r' : Str} (h : lp x ++ r = lp y ++ r') : x = y ∧ r = r' := by
  simp only [lp, List.append_assoc, List.cons_append] at h
  obtain ⟨e1, e2⟩ := digits_colon_inj _ _ _ _ (allDigits_toDec _) (allDigits_toDec _) h
  exact List.append_inj e2 (toDec_injective e1)

/-- `keyString` with all appends nested to the right. -/
theorem keyString_eq (sc m h p q : Str) :
    keyString sc m h p q =
      sc ++ '|' :: (lp m ++ '|' :: (lp (toLower h) ++ '|' :: (lp (normPath p) ++ '|' :: q))) := by
  simp only [keyString, List.append_assoc, List.cons_append]

/-- equal tails after the scheme mean the same components. -/
theorem tail_inj {m h p q m' h' p' q' : Str}
    (e : lp m ++ '|' :: (lp h ++ '|' :: (lp p ++ '|' :: q)) =
         lp m' ++ '|' :: (lp h' ++ '|' :: (lp p' ++ '|' :: q'))) :
    m = m' ∧ h = h' ∧ p = p' ∧ q = q' := by
  obtain ⟨e1, r1⟩ := lp_append_inj e
  simp only [List.cons.injEq, true_and] at r1
  obtain ⟨e2, r2⟩ := lp_append_inj r1
  simp only [List.cons.injEq, true_and] at r2
  obtain ⟨e3, r3⟩ := lp_append_inj r2
  simp only [List.cons.injEq, true_and] at r3
  exact ⟨e1, e2, e3, r3⟩

theorem key_injective (sc : Str) (a b : Req)
    (_hs : sc = s "http" ∨ sc = s "https") :
    keyString sc a.method a.host a.path a.query = keyString sc b.method b.host b.path b.query ↔
      sameResource a b := by
  rw [keyString_eq, keyString_eq]
  constructor
  · intro h
    have h' := List.append_cancel_left h
    simp only [List.cons.injEq, true_and] at h'
    exact tail_inj h'
  · rintro ⟨e1, e2, e3, e4⟩
    rw [e1, e2, e3, e4]

theorem key_scheme (sa sb : Str) (a b : Req)
    (ha : sa = s "http" ∨ sa = s "https") (hb : sb = s "http" ∨ sb = s "https")
    (h : keyString sa a.method a.host a.path a.query =
         keyString sb b.method b.host b.path b.query) : sa = sb := by
  rw [keyString_eq, keyString_eq] at h
  have e1 : s "http" = ['h', 't', 't', 'p'] := rfl
  have e2 : s "https" = ['h', 't', 't', 'p', 's'] := rfl
  rcases ha with ha | ha <;> rcases hb with hb | hb <;> subst ha <;> subst hb
  · rfl
  · exfalso
    rw [e1, e2] at h
    simp only [List.cons_append, List.nil_append, List.cons.injEq, true_and] at h
    exact absurd h.1 (by decide)
  · exfalso
    rw [e1, e2] at h
    simp only [List.cons_append, List.nil_append, List.cons.injEq, true_and] at h
    exact absurd h.1 (by decide)
  · rfl

/-! ### host case -/

theorem lowerChar_lower : ∀ k, k < 26 → lowerChar (Char.ofNat (97 + k)) = Char.ofNat (97 + k) := by
  decide

theorem upper_bounds {c : Char} (h : ('A' ≤ c && c ≤ 'Z') = true) :
    65 ≤ c.toNat ∧ c.toNat ≤ 90 := by
  simp only [Bool.and_eq_true, decide_eq_true_eq] at h
  obtain ⟨h1, h2⟩ := h
  rw [Char.le_def] at h1 h2
  simp only [UInt32.le_iff_toNat_le] at h1 h2
  have e1 : 'A'.val.toNat = 65 := by decide
  have e2 : 'Z'.val.toNat = 90 := by decide
  have e3 : c.toNat = c.val.toNat := rfl
  omega

theorem lowerChar_idem (c : Char) : lowerChar (lowerChar c) = lowerChar c := by
  by_cases h : ('A' ≤ c && c ≤ 'Z') = true
  · have hb := upper_bounds h
    have e : lowerChar c = Char.ofNat (c.toNat + 32) := by
      unfold lowerChar; rw [if_pos h]
    have e' : c.toNat + 32 = 97 + (c.toNat - 65) := by omega
    rw [e, e']
    exact lowerChar_lower _ (by omega)
  · have e : lowerChar c = c := by
      unfold lowerChar; rw [if_neg h]
    rw [e, e]

theorem toLower_idem (x : Str) : toLower (toLower x) = toLower x := by
  simp only [toLower, List.map_map]
  apply List.map_congr_left
  intro c _
  exact lowerChar_idem c

theorem host_case_shares (sc m h p q : Str) :
    keyString sc m h p q = keyString sc m (toLower h) p q := by
  simp only [keyString, toLower_idem]

/-! ### splitting on the separator -/

theorem splitOn_ne_nil (sep : Char) : ∀ x : Str, splitOn sep x ≠ []
  | [] => by simp [splitOn]
  | c :: cs => by
      unfold splitOn
      split
      · simp
      · split <;> simp

theorem splitOn_append (sep : Char) : ∀ x y : Str,
    splitOn sep (x ++ sep :: y) = splitOn sep x ++ splitOn sep y
  | [], y => by simp [splitOn]
  | c :: cs, y => by
      have ih := splitOn_append sep cs y
      by_cases hc : c = sep
      · simp only [List.cons_append, splitOn, if_pos hc, ih]
      · simp only [List.cons_append, splitOn, if_neg hc, ih]
        cases hs : splitOn sep cs with
        | nil => exact absurd hs (splitOn_ne_nil sep cs)
        | cons h t => simp

theorem splitOn_no_sep (sep : Char) : ∀ x : Str, sep ∉ x → splitOn sep x = [x]
  | [], _ => by simp [splitOn]
  | c :: cs, h => by
      have hc : c ≠ sep := fun e => h (by simp [e])
      have ih := splitOn_no_sep sep cs (fun m => h (List.mem_cons_of_mem _ m))
      simp only [splitOn, if_neg hc, ih]

/-! ### the segment stack -/

theorem cleanStep_nil (r : Bool) (st : List Str) : cleanStep r st [] = st := by
  simp [cleanStep]

theorem cleanStep_dot (r : Bool) (st : List Str) : cleanStep r st dot = st := by
  simp [cleanStep]

theorem cleanStep_ord (r : Bool) (st : List Str) (seg : Str)
    (h1 : seg ≠ []) (h2 : seg ≠ dot) (h3 : seg ≠ dotdot) : cleanStep r st seg = seg :: st := by
  simp [cleanStep, h1, h2, h3]

theorem cleanStep_pop (r : Bool) (st : List Str) (seg : Str) (h3 : seg ≠ dotdot) :
    cleanStep r (seg :: st) dotdot = st := by
  have a : dotdot ≠ [] := by decide
  have b : dotdot ≠ dot := by decide
  simp [cleanStep, a, b, h3]

/-- the stack `clean` folds, as a function of the whole path. -/
def stack (r : Bool) (p : Str) : List Str := (splitOn '/' p).foldl (cleanStep r) []

theorem clean_rooted (x : Str) :
    clean ('/' :: x) = '/' :: joinSlash (stack true ('/' :: x)).reverse := by
  simp [clean, stack]

theorem stack_append (r : Bool) (x y : Str) :
    stack r (x ++ '/' :: y) = (splitOn '/' y).foldl (cleanStep r) (stack r x) := by
  simp only [stack, splitOn_append, List.foldl_append]

theorem stack_dot (r : Bool) (x y : Str) :
    stack r (x ++ '/' :: '.' :: '/' :: y) = stack r (x ++ '/' :: y) := by
  have e : x ++ '/' :: '.' :: '/' :: y = (x ++ '/' :: dot) ++ '/' :: y := by
    simp [dot]
  have d : splitOn '/' dot = [dot] := by decide
  rw [e, stack_append, stack_append, stack_append, d]
  simp only [List.foldl_cons, List.foldl_nil, cleanStep_dot]

theorem stack_slash (r : Bool) (x y : Str) :
    stack r (x ++ '/' :: '/' :: y) = stack r (x ++ '/' :: y) := by
  have e : x ++ '/' :: '/' :: y = (x ++ '/' :: []) ++ '/' :: y := by simp
  have d : splitOn '/' [] = [[]] := by decide
  rw [e, stack_append, stack_append, stack_append, d]
  simp only [List.foldl_cons, List.foldl_nil, cleanStep_nil]

theorem stack_seg (r : Bool) (x seg : Str) (h1 : seg ≠ []) (h2 : seg ≠ dot) (h3 : seg ≠ dotdot)
    (h4 : '/' ∉ seg) : stack r (x ++ '/' :: seg) = seg :: stack r x := by
  rw [stack_append, splitOn_no_sep _ _ h4]
  simp only [List.foldl_cons, List.foldl_nil, cleanStep_ord r _ seg h1 h2 h3]

theorem stack_dotdot (r : Bool) (x seg y : Str) (h1 : seg ≠ []) (h2 : seg ≠ dot)
    (h3 : seg ≠ dotdot) (h4 : '/' ∉ seg) :
    stack r (x ++ '/' :: seg ++ '/' :: '.' :: '.' :: '/' :: y) = stack r (x ++ '/' :: y) := by
  have e : x ++ '/' :: seg ++ '/' :: '.' :: '.' :: '/' :: y =
      ((x ++ '/' :: seg) ++ '/' :: dotdot) ++ '/' :: y := by
    simp [dotdot]
  have d : splitOn '/' dotdot = [dotdot] := by decide
  rw [e, stack_append, stack_append _ _ dotdot, stack_seg r x seg h1 h2 h3 h4, stack_append, d]
  simp only [List.foldl_cons, List.foldl_nil, cleanStep_pop r _ seg h3]

/-! ### the directory test -/

/-- the trailing-slash test of `normPath`. -/
def dirLike (p : Str) : Bool :=
  endsWith p ['/'] || endsWith p ['/', '.'] || endsWith p ['/', '.', '.']

theorem normPath_eq (p : Str) :
    normPath p = if (clean p ≠ ['/'] && dirLike p) = true then clean p ++ ['/'] else clean p := by
  rfl

/-- what precedes the last slash does not matter. -/
theorem dirLike_append (x b : Str) : dirLike (x ++ '/' :: b) = dirLike ('/' :: b) := by
  have e1 : (x ++ '/' :: b).reverse = b.reverse ++ '/' :: x.reverse := by simp
  have e2 : ('/' :: b).reverse = b.reverse ++ ['/'] := by simp
  simp only [dirLike, endsWith, e1, e2]
  generalize b.reverse = r
  generalize x.reverse = t
  match r with
  | [] => simp [List.isPrefixOf_cons_cons]
  | [c] => simp [List.isPrefixOf_cons_cons]
  | [c, d] => simp [List.isPrefixOf_cons_cons]
  | c :: d :: e :: r' => simp [List.isPrefixOf_cons_cons]

theorem dirLike_slash (x : Str) : dirLike (x ++ ['/']) = true := by
  rw [dirLike_append]; decide

theorem dirLike_seg (seg : Str) (h1 : seg ≠ []) (h2 : seg ≠ dot) (h3 : seg ≠ dotdot)
    (h4 : '/' ∉ seg) : dirLike ('/' :: seg) = false := by
  have e2 : ('/' :: seg).reverse = seg.reverse ++ ['/'] := by simp
  have g1 : seg.reverse ≠ [] := by simpa using h1
  have g2 : seg.reverse ≠ ['.'] := by
    intro h; apply h2
    have := congrArg List.reverse h
    simpa [dot] using this
  have g3 : seg.reverse ≠ ['.', '.'] := by
    intro h; apply h3
    have := congrArg List.reverse h
    simpa [dotdot] using this
  have g4 : '/' ∉ seg.reverse := by simpa using h4
  simp only [dirLike, endsWith, e2]
  generalize seg.reverse = r at g1 g2 g3 g4
  match r with
  | [] => exact absurd rfl g1
  | [c] =>
      simp only [List.mem_cons, List.not_mem_nil, or_false] at g4
      simp [List.isPrefixOf_cons_cons]
      exact ⟨g4, fun h => g2 (by subst h; rfl)⟩
  | [c, d] =>
      simp only [List.mem_cons, List.not_mem_nil, or_false, not_or] at g4
      simp [List.isPrefixOf_cons_cons]
      exact ⟨⟨g4.1, fun _ => g4.2⟩, fun h h' => g3 (by subst h; subst h'; rfl)⟩
  | c :: d :: e :: r' =>
      simp only [List.mem_cons, not_or] at g4
      simp [List.isPrefixOf_cons_cons]
      exact ⟨⟨g4.1, fun _ => g4.2.1⟩, fun _ _ => g4.2.2.1⟩

/-! ### the path theorems -/

theorem normPath_congr {x y : Str} (hs : stack true ('/' :: x) = stack true ('/' :: y))
    (hd : dirLike ('/' :: x) = dirLike ('/' :: y)) : normPath ('/' :: x) = normPath ('/' :: y) := by
  rw [normPath_eq, normPath_eq, clean_rooted, clean_rooted, hs, hd]

theorem dot_segment_shares (a b : Str) :
    normPath ('/' :: a ++ s "/./" ++ b) = normPath ('/' :: a ++ '/' :: b) := by
  have e1 : '/' :: a ++ s "/./" ++ b = '/' :: (a ++ '/' :: '.' :: '/' :: b) := by
    simp [s]
  have e2 : '/' :: a ++ '/' :: b = '/' :: (a ++ '/' :: b) := by simp
  rw [e1, e2]
  apply normPath_congr
  · exact stack_dot true ('/' :: a) b
  · have := dirLike_append ('/' :: a ++ '/' :: dot) b
    have h1 : '/' :: a ++ '/' :: dot ++ '/' :: b = '/' :: (a ++ '/' :: '.' :: '/' :: b) := by
      simp [dot]
    rw [h1] at this
    rw [this]
    exact (dirLike_append ('/' :: a) b).symm

theorem double_slash_shares (a b : Str) :
    normPath ('/' :: a ++ s "//" ++ b) = normPath ('/' :: a ++ '/' :: b) := by
  have e1 : '/' :: a ++ s "//" ++ b = '/' :: (a ++ '/' :: '/' :: b) := by
    simp [s]
  have e2 : '/' :: a ++ '/' :: b = '/' :: (a ++ '/' :: b) := by simp
  rw [e1, e2]
  apply normPath_congr
  · exact stack_slash true ('/' :: a) b
  · have := dirLike_append ('/' :: a ++ ['/']) b
    have h1 : '/' :: a ++ ['/'] ++ '/' :: b = '/' :: (a ++ '/' :: '/' :: b) := by simp
    rw [h1] at this
    rw [this]
    exact (dirLike_append ('/' :: a) b).symm

theorem dotdot_shares (a seg b : Str) (h1 : seg ≠ []) (h2 : seg ≠ dot) (h3 : seg ≠ dotdot)
    (h4 : '/' ∉ seg) :
    normPath ('/' :: a ++ '/' :: seg ++ s "/../" ++ b) = normPath ('/' :: a ++ '/' :: b) := by
  have e1 : '/' :: a ++ '/' :: seg ++ s "/../" ++ b =
      '/' :: (a ++ '/' :: seg ++ '/' :: '.' :: '.' :: '/' :: b) := by
    simp [s]
  have e2 : '/' :: a ++ '/' :: b = '/' :: (a ++ '/' :: b) := by simp
  rw [e1, e2]
  apply normPath_congr
  · exact stack_dotdot true ('/' :: a) seg b h1 h2 h3 h4
  · have := dirLike_append ('/' :: a ++ '/' :: seg ++ '/' :: dotdot) b
    have g1 : '/' :: a ++ '/' :: seg ++ '/' :: dotdot ++ '/' :: b =
        '/' :: (a ++ '/' :: seg ++ '/' :: '.' :: '.' :: '/' :: b) := by
      simp [dotdot]
    rw [g1] at this
    rw [this]
    exact (dirLike_append ('/' :: a) b).symm

theorem joinSlash_snoc_ne_nil (seg : Str) (h : seg ≠ []) : ∀ l : List Str, joinSlash (l ++ [seg]) ≠ []
  | [] => by simpa [joinSlash] using h
  | x :: l => by
      cases hl : l ++ [seg] with
      | nil => simp at hl
      | cons y t => simp [joinSlash]

theorem trailing_slash_distinct (a seg : Str) (h1 : seg ≠ []) (h2 : seg ≠ dot) (h3 : seg ≠ dotdot)
    (h4 : '/' ∉ seg) :
    normPath ('/' :: a ++ '/' :: seg) ≠ normPath ('/' :: a ++ '/' :: seg ++ ['/']) := by
  have e1 : '/' :: a ++ '/' :: seg = '/' :: (a ++ '/' :: seg) := by simp
  have e2 : '/' :: a ++ '/' :: seg ++ ['/'] = '/' :: (a ++ '/' :: seg ++ ['/']) := by simp
  have hst : stack true ('/' :: (a ++ '/' :: seg ++ ['/'])) = stack true ('/' :: (a ++ '/' :: seg)) := by
    have d : splitOn '/' [] = [[]] := by decide
    have := stack_append true ('/' :: (a ++ '/' :: seg)) []
    rw [d] at this
    simpa [cleanStep_nil] using this
  have hs : stack true ('/' :: (a ++ '/' :: seg)) = seg :: stack true ('/' :: a) :=
    stack_seg true ('/' :: a) seg h1 h2 h3 h4
  have hd1 : dirLike ('/' :: (a ++ '/' :: seg)) = false := by
    have := dirLike_append ('/' :: a) seg
    rw [List.cons_append] at this
    rw [this]
    exact dirLike_seg seg h1 h2 h3 h4
  have hd2 : dirLike ('/' :: (a ++ '/' :: seg ++ ['/'])) = true := by
    have := dirLike_slash ('/' :: (a ++ '/' :: seg))
    simpa using this
  have hne : clean ('/' :: (a ++ '/' :: seg)) ≠ ['/'] := by
    rw [clean_rooted, hs, List.reverse_cons]
    intro h
    simp only [List.cons.injEq, true_and] at h
    exact joinSlash_snoc_ne_nil seg h1 _ h
  rw [e2, e1, normPath_eq, normPath_eq, clean_rooted ((a ++ '/' :: seg ++ ['/'])), hst,
    ← clean_rooted, hd1, hd2]
  simp only [Bool.and_false, Bool.false_eq_true, if_false, Bool.and_true]
  have : (clean ('/' :: (a ++ '/' :: seg)) ≠ ['/']) := hne
  simp only [this, ne_eq, not_false_eq_true, decide_true, if_true]
  intro h
  have := congrArg List.length h
  simp at this

/-! ### shard index -/

theorem shard_index_in_range (k : Str) (n : Nat) (h : 1 ≤ n) :
    ∃ i, lockIndex k n = .idx i ∧ i < n := by
  have hn : n ≠ 0 := by omega
  have hlt : hex8ToIndex k % n < n := Nat.mod_lt _ (by omega)
  refine ⟨hex8ToIndex k % n, ?_, hlt⟩
  simp only [lockIndex, if_neg hn, if_pos hlt]

end Rv.Lemmas.Key
