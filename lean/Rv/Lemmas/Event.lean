import Rv.Model.Event
import Rv.Spec.PubSub
/-
  Rv.Lemmas.Event — helper lemmas and proofs for Props/C19.  Core Lean only.
-/
namespace Rv.Lemmas.Event
open Rv.Event Rv.Spec.PubSub

/-! ### `run` -/

theorem run_nil (st : State) : run [] st = st := rfl

theorem run_cons (op : Op) (ops : List Op) (st : State) :
    run (op :: ops) st = run ops (step st op) := rfl

theorem run_append (a b : List Op) (st : State) : run (a ++ b) st = run b (run a st) := by
  simp only [run, List.foldl_append]

/-! ### `deliver` and `fire` do not touch the subscriber list -/

theorem step_deliver_subs (st : State) (i : Nat) : (step st (.deliver i)).subs = st.subs := by
  simp only [step]
  split <;> rfl

theorem step_deliver_nextId (st : State) (i : Nat) :
    (step st (.deliver i)).nextId = st.nextId := by
  simp only [step]
  split <;> rfl

/-! ### `removeId` -/

theorem mem_removeId {id : Nat} {x : Nat × Nat} :
    ∀ {l : List (Nat × Nat)}, x ∈ removeId id l → x ∈ l
  | [], h => h
  | y :: ys, h => by
      simp only [removeId] at h
      split at h
      · exact List.mem_cons_of_mem _ h
      · rcases List.mem_cons.1 h with e | h'
        · exact e ▸ List.mem_cons_self
        · exact List.mem_cons_of_mem _ (mem_removeId h')

/-- with distinct ids, removing the first entry with `id` removes every such entry. -/
theorem removeId_eq_filter (id : Nat) :
    ∀ (l : List (Nat × Nat)), l.Pairwise (fun a b => a.1 ≠ b.1) →
      removeId id l = l.filter (fun x => x.1 ≠ id)
  | [], _ => rfl
  | y :: ys, h => by
      rw [List.pairwise_cons] at h
      simp only [removeId]
      by_cases e : y.1 = id
      · rw [if_pos e, List.filter_cons_of_neg (by simp [e])]
        symm
        rw [List.filter_eq_self]
        intro a ha
        have := h.1 a ha
        rw [e] at this
        simpa using fun e' => this e'.symm
      · rw [if_neg e, List.filter_cons_of_pos (by simp [e]), removeId_eq_filter id ys h.2]

/-! ### the invariant: ids are distinct and below `nextId` -/

def Inv (st : State) : Prop :=
  (∀ x ∈ st.subs, x.1 < st.nextId) ∧ st.subs.Pairwise (fun a b => a.1 ≠ b.1)

theorem inv_init : Inv init :=
  ⟨fun _ h => (nomatch h), List.Pairwise.nil⟩

theorem inv_subscribe {st : State} (h : Inv st) (l : Nat) : Inv (step st (.subscribe l)) := by
  refine ⟨?_, ?_⟩
  · intro x hx
    simp only [step, List.mem_append, List.mem_singleton] at hx ⊢
    rcases hx with hx | hx
    · exact Nat.lt_succ_of_lt (h.1 x hx)
    · rw [hx]; exact Nat.lt_succ_self _
  · simp only [step]
    rw [List.pairwise_append]
    refine ⟨h.2, List.pairwise_singleton _ _, ?_⟩
    intro a ha b hb
    rw [List.mem_singleton.1 hb]
    exact Nat.ne_of_lt (h.1 a ha)

theorem inv_unsubscribe {st : State} (h : Inv st) (id : Nat) :
    Inv (step st (.unsubscribe id)) := by
  have e : (step st (.unsubscribe id)).subs = st.subs.filter (fun x => x.1 ≠ id) :=
    removeId_eq_filter id st.subs h.2
  refine ⟨?_, ?_⟩
  · intro x hx
    rw [e] at hx
    exact h.1 x (List.mem_filter.1 hx).1
  · rw [e]
    exact h.2.filter _

theorem inv_step {st : State} (h : Inv st) : ∀ op, Inv (step st op)
  | .subscribe l => inv_subscribe h l
  | .unsubscribe id => inv_unsubscribe h id
  | .fire _ => h
  | .deliver i => by
      unfold Inv
      rw [step_deliver_subs, step_deliver_nextId]
      exact h

theorem inv_run : ∀ (ops : List Op) {st : State}, Inv st → Inv (run ops st)
  | [], _, h => h
  | op :: ops, _, h => inv_run ops (inv_step h op)

/-! ### refinement of the reference -/

theorem subs_eq_live_gen : ∀ (ops : List Op) (st : State), Inv st →
    (run ops st).subs = live ops st.nextId st.subs
  | [], _, _ => rfl
  | .subscribe l :: ops, st, h => by
      rw [run_cons, subs_eq_live_gen ops _ (inv_subscribe h l)]
      rfl
  | .unsubscribe id :: ops, st, h => by
      rw [run_cons, subs_eq_live_gen ops _ (inv_unsubscribe h id)]
      have e : (step st (.unsubscribe id)).subs = st.subs.filter (fun x => x.1 ≠ id) :=
        removeId_eq_filter id st.subs h.2
      rw [e]
      rfl
  | .fire v :: ops, st, h => by
      rw [run_cons, subs_eq_live_gen ops _ (inv_step h (.fire v))]
      rfl
  | .deliver i :: ops, st, h => by
      rw [run_cons, subs_eq_live_gen ops _ (inv_step h (.deliver i)),
        step_deliver_subs, step_deliver_nextId]
      rfl

theorem subs_eq_live (ops : List Op) : (run ops init).subs = live ops 0 [] :=
  subs_eq_live_gen ops init inv_init

theorem fire_reaches_exactly_live (ops : List Op) (v : Int) :
    (run (ops ++ [.fire v]) init).pending =
      (run ops init).pending ++ (live ops 0 []).map (fun x => (x.2, v)) := by
  rw [run_append, ← subs_eq_live]
  rfl

theorem unsubscribe_only_own (ops : List Op) (id : Nat) :
    (run (ops ++ [.unsubscribe id]) init).subs =
      ((run ops init).subs).filter (fun x => x.1 ≠ id) := by
  rw [run_append]
  exact removeId_eq_filter id _ (inv_run ops inv_init).2

/-! ### a removed id never comes back -/

def Gone (id : Nat) (st : State) : Prop :=
  (∀ x ∈ st.subs, x.1 ≠ id) ∧ id < st.nextId

theorem gone_step {id : Nat} {st : State} (h : Gone id st) : ∀ op, Gone id (step st op)
  | .subscribe l => by
      refine ⟨?_, Nat.lt_succ_of_lt h.2⟩
      intro x hx
      simp only [step, List.mem_append, List.mem_singleton] at hx
      rcases hx with hx | hx
      · exact h.1 x hx
      · rw [hx]; exact Nat.ne_of_gt h.2
  | .unsubscribe id' => ⟨fun x hx => h.1 x (mem_removeId hx), h.2⟩
  | .fire _ => h
  | .deliver i => by
      unfold Gone
      rw [step_deliver_subs, step_deliver_nextId]
      exact h

theorem gone_run {id : Nat} : ∀ (ops : List Op) {st : State}, Gone id st → Gone id (run ops st)
  | [], _, h => h
  | op :: ops, _, h => gone_run ops (gone_step h op)

theorem unsubscribed_stays_out (ops later : List Op) (id : Nat)
    (hid : id < (run ops init).nextId) :
    ∀ x ∈ (run (ops ++ [.unsubscribe id] ++ later) init).subs, x.1 ≠ id := by
  rw [run_append]
  refine (gone_run later ?_).1
  refine ⟨?_, ?_⟩
  · intro x hx
    rw [unsubscribe_only_own] at hx
    simpa using (List.mem_filter.1 hx).2
  · rw [run_append]
    exact hid

/-! ### one change, any delivery order -/

/-- every outstanding delivery carries `v`, and every listener of `L` either
    already holds `v` or still has a delivery of `v` outstanding. -/
def Settling (L : List Nat) (v : Int) (s : State) : Prop :=
  (∀ p ∈ s.pending, p.2 = v) ∧ ∀ l ∈ L, s.cell l = some v ∨ (l, v) ∈ s.pending

theorem settling_deliver {L : List Nat} {v : Int} {s : State} (h : Settling L v s) (i : Nat) :
    Settling L v (step s (.deliver i)) := by
  simp only [step]
  split
  · exact h
  · rename_i l' v' hi
    have hv : v' = v := h.1 (l', v') (List.mem_of_getElem? hi)
    refine ⟨fun p hp => h.1 p (List.mem_of_mem_eraseIdx hp), ?_⟩
    intro l hl
    by_cases e : l = l'
    · left
      simp only [if_pos e, hv]
    · rcases h.2 l hl with hc | hp
      · left
        simp only [if_neg e, hc]
      · right
        show (l, v) ∈ s.pending.eraseIdx i
        obtain ⟨j, hj⟩ := List.getElem?_of_mem hp
        rw [List.mem_eraseIdx_iff_getElem?]
        refine ⟨j, ?_, hj⟩
        intro eji
        rw [eji, hi] at hj
        exact e (congrArg Prod.fst (Option.some.inj hj)).symm

theorem settling_run {L : List Nat} {v : Int} : ∀ (sched : List Nat) {s : State},
    Settling L v s → Settling L v (run (sched.map .deliver) s)
  | [], _, h => h
  | i :: sched, _, h => settling_run sched (settling_deliver h i)

theorem settling_fire (st : State) (v : Int) (hq : st.pending = []) :
    Settling (listeners st) v (step st (.fire v)) := by
  simp only [step, hq, List.nil_append, listeners]
  refine ⟨?_, ?_⟩
  · intro p hp
    obtain ⟨x, _, hx⟩ := List.mem_map.1 hp
    rw [← hx]
  · intro l hl
    obtain ⟨x, hx, e⟩ := List.mem_map.1 hl
    right
    exact List.mem_map.2 ⟨x, hx, by rw [← e]⟩

theorem follows_latest_partial (st : State) (v : Int) (sched : List Nat)
    (hq : st.pending = [])
    (hdone : (run (.fire v :: sched.map .deliver) st).pending = []) :
    ∀ l ∈ listeners st, (run (.fire v :: sched.map .deliver) st).cell l = some v := by
  intro l hl
  have h := settling_run sched (settling_fire st v hq)
  rw [← run_cons] at h
  rcases h.2 l hl with hc | hp
  · exact hc
  · rw [hdone] at hp
    exact nomatch hp

/-! ### two changes in a row: the older value can win -/

theorem not_follows_latest_full :
    ¬ (∀ (ops : List Op), (run ops init).pending = [] →
        ∀ v, lastFired ops = some v →
          ∀ l ∈ listeners (run ops init),
            (run ops init).cell l = some v ∨ (run ops init).cell l = none) := by
  intro h
  have h' := h [.subscribe 0, .fire 1, .fire 2, .deliver 1, .deliver 0] (by decide) 2
    (by decide) 0 (by decide)
  revert h'
  decide

end Rv.Lemmas.Event
