import Rv.Model.Certs
/-
  Rv.Lemmas.Certs — helper lemmas and proofs for Props/C11.  Core Lean only.
-/
namespace Rv.Lemmas.Certs
open Rv Rv.Certs

/-! ### `indexOf` / `lastIndex` characterisations -/

theorem find_aux (c : Char) : ∀ (x : Str) (n i : Nat),
    ((x.zipIdx n).find? (fun p => p.1 = c)).map (·.2) = some i →
    ∃ a b, x = a ++ c :: b ∧ c ∉ a ∧ i = n + a.length
  | [], n, i, h => by simp at h
  | d :: x, n, i, h => by
    rw [List.zipIdx_cons, List.find?_cons] at h
    by_cases hd : d = c
    · simp only [hd, decide_true, Option.map_some, Option.some.injEq] at h
      exact ⟨[], x, by simp [hd], by simp, by simp [h]⟩
    · simp only [hd, decide_false] at h
      obtain ⟨a, b, e, na, ei⟩ := find_aux c x (n + 1) i h
      refine ⟨d :: a, b, by simp [e], ?_, by simp [ei]; omega⟩
      intro hm
      cases hm with
      | head => exact hd rfl
      | tail _ hm => exact na hm

theorem find_none_aux (c : Char) : ∀ (x : Str) (n : Nat),
    ((x.zipIdx n).find? (fun p => p.1 = c)).map (·.2) = none → c ∉ x
  | [], _, _ => by simp
  | d :: x, n, h => by
    rw [List.zipIdx_cons, List.find?_cons] at h
    by_cases hd : d = c
    · simp [hd] at h
    · simp only [hd, decide_false] at h
      have := find_none_aux c x (n + 1) h
      intro hm
      cases hm with
      | head => exact hd rfl
      | tail _ hm => exact this hm

theorem filter_nil_aux (c : Char) : ∀ (x : Str) (n : Nat),
    (x.zipIdx n).filter (fun p => p.1 = c) = [] → c ∉ x
  | [], _, _ => by simp
  | d :: x, n, h => by
    rw [List.zipIdx_cons] at h
    by_cases hd : d = c
    · simp [hd] at h
    · rw [List.filter_cons_of_neg (by simpa using hd)] at h
      have := filter_nil_aux c x (n + 1) h
      intro hm
      cases hm with
      | head => exact hd rfl
      | tail _ hm => exact this hm

theorem last_aux (c : Char) : ∀ (x : Str) (n i : Nat),
    (((x.zipIdx n).filter (fun p => p.1 = c)).getLast?).map (·.2) = some i →
    ∃ a b, x = a ++ c :: b ∧ c ∉ b ∧ i = n + a.length
  | [], n, i, h => by simp at h
  | d :: x, n, i, h => by
    rw [List.zipIdx_cons] at h
    by_cases hd : d = c
    · rw [List.filter_cons_of_pos (by simp [hd]), List.getLast?_cons] at h
      cases hl : ((x.zipIdx (n + 1)).filter (fun p => p.1 = c)).getLast? with
      | none =>
        rw [hl] at h
        simp only [Option.getD_none, Option.map_some, Option.some.injEq] at h
        have hnil := List.getLast?_eq_none_iff.mp hl
        exact ⟨[], x, by simp [hd], filter_nil_aux c x (n + 1) hnil, by simp [h]⟩
      | some p =>
        rw [hl] at h
        simp only [Option.getD_some, Option.map_some, Option.some.injEq] at h
        obtain ⟨a, b, e, nb, ei⟩ := last_aux c x (n + 1) i (by rw [hl]; simp [h])
        exact ⟨d :: a, b, by simp [e], nb, by simp [ei]; omega⟩
    · rw [List.filter_cons_of_neg (by simpa using hd)] at h
      obtain ⟨a, b, e, nb, ei⟩ := last_aux c x (n + 1) i h
      exact ⟨d :: a, b, by simp [e], nb, by simp [ei]; omega⟩

theorem indexOf_some {c : Char} {x : Str} {i : Nat} (h : indexOf c x = some i) :
    ∃ a b, x = a ++ c :: b ∧ c ∉ a ∧ i = a.length := by
  obtain ⟨a, b, e, na, ei⟩ := find_aux c x 0 i h
  exact ⟨a, b, e, na, by omega⟩

theorem indexOf_not_isSome {c : Char} {x : Str} (h : ¬ (indexOf c x).isSome = true) : c ∉ x := by
  apply find_none_aux c x 0
  cases hi : indexOf c x with
  | none => exact hi
  | some j => rw [hi] at h; simp at h

theorem lastIndex_some {c : Char} {x : Str} {i : Nat} (h : lastIndex c x = some i) :
    ∃ a b, x = a ++ c :: b ∧ c ∉ b ∧ i = a.length := by
  obtain ⟨a, b, e, nb, ei⟩ := last_aux c x 0 i h
  exact ⟨a, b, e, nb, by omega⟩

/-! ### `splitHostPort` -/

theorem split_shape (hp host port : Str) (h : splitHostPort hp = .ok host port) :
    (hp = host ++ ':' :: port ∧ ':' ∉ host ∧ '[' ∉ hp ∧ ']' ∉ hp ∧ ':' ∉ port) ∨
    (hp = '[' :: host ++ ']' :: ':' :: port ∧ ']' ∉ host ∧ '[' ∉ host ∧ ':' ∉ port ∧ '[' ∉ port ∧ ']' ∉ port) := by
  unfold splitHostPort at h
  cases hi : lastIndex ':' hp with
  | none => rw [hi] at h; cases h
  | some i =>
    rw [hi] at h
    dsimp only at h
    obtain ⟨a, b, e, nb, ei⟩ := lastIndex_some hi
    have htake : hp.take i = a := by rw [e, ei]; simp
    have hdrop : hp.drop (i + 1) = b := by
      rw [e, ei]; simp
    by_cases hhead : hp.head? = some '['
    · rw [if_pos hhead] at h
      cases hen : indexOf ']' hp with
      | none => rw [hen] at h; cases h
      | some en =>
        rw [hen] at h
        dsimp only at h
        obtain ⟨a2, b2, e2, na2, een⟩ := indexOf_some hen
        by_cases h1 : en + 1 = hp.length
        · rw [if_pos h1] at h; cases h
        · rw [if_neg h1] at h
          by_cases h2 : en + 1 = i
          · rw [if_pos h2] at h
            by_cases hlb : (indexOf '[' (hp.drop 1)).isSome = true
            · rw [if_pos hlb] at h; cases h
            · rw [if_neg hlb] at h
              by_cases hrb : (indexOf ']' (hp.drop (en + 1))).isSome = true
              · rw [if_pos hrb] at h; cases h
              · rw [if_neg hrb] at h
                simp only [Split.ok.injEq] at h
                obtain ⟨hh, hpz⟩ := h
                have nlb := indexOf_not_isSome hlb
                have nrb := indexOf_not_isSome hrb
                -- a2 starts with '['
                cases a2 with
                | nil =>
                  rw [e2] at hhead
                  simp at hhead
                | cons d a3 =>
                  have hd : d = '[' := by
                    rw [e2] at hhead
                    simpa using hhead
                  subst hd
                  have hlen : a.length = ('[' :: a3 ++ [']']).length := by
                    simp only [List.length_cons, List.length_append, List.length_nil] at een ⊢
                    omega
                  have e3 : a ++ ':' :: b = ('[' :: a3 ++ [']']) ++ b2 := by
                    rw [← e, e2]; simp
                  obtain ⟨ea, eb⟩ := List.append_inj e3 hlen
                  have hhost : host = a3 := by
                    rw [← hh, e2, een]; simp
                  have hport : port = b := by rw [← hpz, hdrop]
                  subst hhost hport
                  have e4 : hp = '[' :: host ++ ']' :: ':' :: port := by
                    rw [e2, ← eb]
                  have hd1 : hp.drop 1 = host ++ ']' :: ':' :: port := by rw [e4]; simp
                  have hd2 : hp.drop (en + 1) = ':' :: port := by
                    rw [e4, een]
                    simp
                  rw [hd1] at nlb
                  rw [hd2] at nrb
                  refine Or.inr ⟨e4, ?_, ?_, nb, ?_, ?_⟩
                  · intro hm; exact na2 (List.mem_cons_of_mem _ hm)
                  · intro hm; exact nlb (List.mem_append_left _ hm)
                  · intro hm
                    exact nlb (List.mem_append_right _ (List.mem_cons_of_mem _ (List.mem_cons_of_mem _ hm)))
                  · intro hm; exact nrb (List.mem_cons_of_mem _ hm)
          · rw [if_neg h2] at h; cases h
    · rw [if_neg hhead] at h
      rw [htake, hdrop] at h
      by_cases hc : (indexOf ':' a).isSome = true
      · rw [if_pos hc] at h; cases h
      · rw [if_neg hc] at h
        by_cases hlb : (indexOf '[' hp).isSome = true
        · rw [if_pos hlb] at h; cases h
        · rw [if_neg hlb] at h
          by_cases hrb : (indexOf ']' hp).isSome = true
          · rw [if_pos hrb] at h; cases h
          · rw [if_neg hrb] at h
            simp only [Split.ok.injEq] at h
            obtain ⟨hh, hpz⟩ := h
            subst hh hpz
            exact Or.inl ⟨e, indexOf_not_isSome hc, indexOf_not_isSome hlb, indexOf_not_isSome hrb, nb⟩

/-! ### the certificate cache -/

/-- invariant of every certificate in the cache (same body as `Rv.Props.C11.Inv`). -/
def Inv (isIP : Str → Bool) (st : St) : Prop :=
  ∀ c ∈ st.cache, c.sanIsIP = isIP c.host ∧ c.issuedByCA = true ∧ c.notBefore ≤ st.now ∧
    c.notAfter = c.notBefore + validityMs ∧ c.id < st.nextId

/-- at most one certificate per host. -/
def Unique (st : St) : Prop := ∀ host : Str, (st.cache.filter (·.host = host)).length ≤ 1

theorem validityMs_nonneg : (0 : Int) ≤ validityMs := by decide

theorem lookup_some {st : St} {host : Str} {c : Cert} (h : lookup st host = some c) :
    c ∈ st.cache ∧ c.host = host := by
  unfold lookup at h
  exact ⟨List.mem_of_find?_eq_some h, by simpa using List.find?_some h⟩

theorem filter_ne_filter_eq (l : List Cert) (host : Str) :
    (l.filter (·.host ≠ host)).filter (·.host = host) = [] := by
  rw [List.filter_eq_nil_iff]
  intro c hc
  have := (List.mem_filter.mp hc).2
  simpa using this

theorem filter_ne_filter_le (l : List Cert) (host host' : Str) :
    ((l.filter (·.host ≠ host)).filter (·.host = host')).length ≤ (l.filter (·.host = host')).length :=
  (List.Sublist.filter _ List.filter_sublist).length_le

/-- the four possible outcomes of `lookupStep`. -/
theorem lookupStep_cases (st : St) (host : Str) :
    (lookup st host = none ∧ lookupStep st host = (st, none)) ∨
    (∃ c, lookup st host = some c ∧ c.notAfter < st.now ∧
      lookupStep st host = ({ st with cache := st.cache.filter (·.host ≠ host) }, none)) ∨
    (∃ c, lookup st host = some c ∧ ¬ c.notAfter < st.now ∧ lookupStep st host = (st, some c)) := by
  unfold lookupStep
  cases hl : lookup st host with
  | none => exact Or.inl ⟨rfl, rfl⟩
  | some c =>
    dsimp only
    by_cases hx : c.notAfter < st.now
    · rw [if_pos hx]; exact Or.inr (Or.inl ⟨c, rfl, hx, rfl⟩)
    · rw [if_neg hx]; exact Or.inr (Or.inr ⟨c, rfl, hx, rfl⟩)

theorem inv_filter {isIP : Str → Bool} {st : St} (p : Cert → Bool) (h : Inv isIP st) :
    Inv isIP { st with cache := st.cache.filter p } := by
  intro c hc
  exact h c (List.mem_filter.mp hc).1

theorem lookupStep_now (st : St) (host : Str) : (lookupStep st host).1.now = st.now := by
  rcases lookupStep_cases st host with ⟨_, e⟩ | ⟨c, _, _, e⟩ | ⟨c, _, _, e⟩ <;> rw [e]

theorem lookupStep_nextId (st : St) (host : Str) : (lookupStep st host).1.nextId = st.nextId := by
  rcases lookupStep_cases st host with ⟨_, e⟩ | ⟨c, _, _, e⟩ | ⟨c, _, _, e⟩ <;> rw [e]

theorem inv_lookupStep {isIP : Str → Bool} {st : St} (host : Str) (h : Inv isIP st) :
    Inv isIP (lookupStep st host).1 := by
  rcases lookupStep_cases st host with ⟨_, e⟩ | ⟨c, _, _, e⟩ | ⟨c, _, _, e⟩ <;> rw [e]
  · exact h
  · exact inv_filter _ h
  · exact h

theorem count_lookupStep (st : St) (host host' : Str) :
    ((lookupStep st host).1.cache.filter (·.host = host')).length ≤
      (st.cache.filter (·.host = host')).length := by
  rcases lookupStep_cases st host with ⟨_, e⟩ | ⟨c, _, _, e⟩ | ⟨c, _, _, e⟩ <;> rw [e]
  · exact Nat.le_refl _
  · exact filter_ne_filter_le _ _ _
  · exact Nat.le_refl _

/-- what `lookupStep` returns is a cached, unexpired certificate for the host. -/
theorem lookupStep_some {st : St} {host : Str} {c : Cert} (h : (lookupStep st host).2 = some c) :
    (lookupStep st host).1 = st ∧ c ∈ st.cache ∧ c.host = host ∧ ¬ c.notAfter < st.now := by
  rcases lookupStep_cases st host with ⟨_, e⟩ | ⟨c', _, _, e⟩ | ⟨c', hl, hx, e⟩ <;> rw [e] at h ⊢
  · cases h
  · cases h
  · simp only [Option.some.injEq] at h
    subst h
    exact ⟨rfl, (lookup_some hl).1, (lookup_some hl).2, hx⟩

theorem inv_issueStep {isIP : Str → Bool} {st : St} (host : Str) (b : Bool) (hb : b = isIP host)
    (h : Inv isIP st) : Inv isIP (issueStep st host b).1 := by
  intro c hc
  simp only [issueStep, List.mem_cons] at hc
  rcases hc with rfl | hc
  · exact ⟨hb, rfl, Int.le_refl _, rfl, Nat.lt_succ_self _⟩
  · obtain ⟨h1, h2, h3, h4, h5⟩ := h c (List.mem_filter.mp hc).1
    exact ⟨h1, h2, h3, h4, Nat.lt_succ_of_lt h5⟩

theorem count_issueStep_self (st : St) (host : Str) (b : Bool) :
    ((issueStep st host b).1.cache.filter (·.host = host)).length = 1 := by
  simp only [issueStep]
  rw [List.filter_cons_of_pos (by simp), filter_ne_filter_eq]
  rfl

theorem count_issueStep_other (st : St) (host host' : Str) (b : Bool) (hne : host ≠ host') :
    ((issueStep st host b).1.cache.filter (·.host = host')).length ≤
      (st.cache.filter (·.host = host')).length := by
  simp only [issueStep]
  rw [List.filter_cons_of_neg (by simpa using hne)]
  exact filter_ne_filter_le _ _ _

theorem lookupStep_valid {st : St} {host : Str} {c : Cert} (hl : lookup st host = some c)
    (hx : ¬ c.notAfter < st.now) : lookupStep st host = (st, some c) := by
  unfold lookupStep; rw [hl]; dsimp only; rw [if_neg hx]

theorem lookupStep_expired {st : St} {host : Str} {c : Cert} (hl : lookup st host = some c)
    (hx : c.notAfter < st.now) :
    lookupStep st host = ({ st with cache := st.cache.filter (·.host ≠ host) }, none) := by
  unfold lookupStep; rw [hl]; dsimp only; rw [if_pos hx]

theorem lookupStep_some_lookup {st : St} {host : Str} {c : Cert} (h : (lookupStep st host).2 = some c) :
    lookup st host = some c := by
  rcases lookupStep_cases st host with ⟨_, e⟩ | ⟨c', _, _, e⟩ | ⟨c', hl, hx, e⟩ <;> rw [e] at h
  · cases h
  · cases h
  · simp only [Option.some.injEq] at h
    subst h
    exact hl

/-! ### `get` -/

theorem get_err {st : St} {target : Str} {isIP : Str → Bool} (hs : splitHostPort target = .err) :
    get st target isIP = (st, .err) := by
  unfold Rv.Certs.get; rw [hs]

theorem get_hit {st : St} {target host port : Str} {isIP : Str → Bool} {c : Cert}
    (hs : splitHostPort target = .ok host port) (hl : (lookupStep st host).2 = some c) :
    get st target isIP = ((lookupStep st host).1, .ok c) := by
  unfold Rv.Certs.get; rw [hs]; dsimp only
  rcases hp : lookupStep st host with ⟨st1, r⟩
  rw [hp] at hl
  dsimp only at hl
  subst hl
  rfl

theorem get_miss {st : St} {target host port : Str} {isIP : Str → Bool}
    (hs : splitHostPort target = .ok host port) (hl : (lookupStep st host).2 = none) :
    get st target isIP = ((issueStep (lookupStep st host).1 host (isIP host)).1,
      .ok (issueStep (lookupStep st host).1 host (isIP host)).2) := by
  unfold Rv.Certs.get; rw [hs]; dsimp only
  rcases hp : lookupStep st host with ⟨st1, r⟩
  rw [hp] at hl
  dsimp only at hl
  subst hl
  rfl

theorem get_ok_split {st : St} {target : Str} {isIP : Str → Bool} {c : Cert}
    (h1 : (get st target isIP).2 = .ok c) : ∃ host port, splitHostPort target = .ok host port := by
  cases hs : splitHostPort target with
  | err => rw [get_err hs] at h1; cases h1
  | ok host port => exact ⟨host, port, rfl⟩

theorem inv_get (isIP : Str → Bool) (st : St) (target : Str) (h : Inv isIP st) :
    Inv isIP (get st target isIP).1 := by
  cases hs : splitHostPort target with
  | err => rw [get_err hs]; exact h
  | ok host port =>
    cases hl : (lookupStep st host).2 with
    | some c => rw [get_hit hs hl]; exact inv_lookupStep host h
    | none => rw [get_miss hs hl]; exact inv_issueStep host _ rfl (inv_lookupStep host h)

theorem unique_init : Unique init := by intro host; exact Nat.zero_le _

theorem unique_get (isIP : Str → Bool) (st : St) (target : Str) (h : Unique st) :
    Unique (get st target isIP).1 := by
  intro host'
  cases hs : splitHostPort target with
  | err => rw [get_err hs]; exact h host'
  | ok host port =>
    cases hl : (lookupStep st host).2 with
    | some c => rw [get_hit hs hl]; exact Nat.le_trans (count_lookupStep st host host') (h host')
    | none =>
      rw [get_miss hs hl]
      by_cases hne : host = host'
      · subst hne; exact Nat.le_of_eq (count_issueStep_self _ _ _)
      · exact Nat.le_trans (count_issueStep_other _ _ _ _ hne)
          (Nat.le_trans (count_lookupStep st host host') (h host'))

theorem cert_names_host_and_valid (isIP : Str → Bool) (st : St) (target : Str) (h : Inv isIP st) :
    (splitHostPort target = .err ∧ get st target isIP = (st, .err)) ∨
    ∃ host port c, splitHostPort target = .ok host port ∧ (get st target isIP).2 = .ok c ∧
      c.host = host ∧ c.sanIsIP = isIP host ∧ c.issuedByCA = true ∧
      c.notBefore ≤ st.now ∧ st.now ≤ c.notAfter := by
  cases hs : splitHostPort target with
  | err => exact Or.inl ⟨rfl, get_err hs⟩
  | ok host port =>
    refine Or.inr ⟨host, port, ?_⟩
    cases hl : (lookupStep st host).2 with
    | some c =>
      obtain ⟨_, hm, hh, hx⟩ := lookupStep_some hl
      obtain ⟨h1, h2, h3, _, _⟩ := h c hm
      refine ⟨c, rfl, by rw [get_hit hs hl], hh, by rw [h1, hh], h2, h3, Int.not_lt.mp hx⟩
    | none =>
      refine ⟨(issueStep (lookupStep st host).1 host (isIP host)).2, rfl, by rw [get_miss hs hl],
        rfl, rfl, rfl, ?_, ?_⟩
      · show (lookupStep st host).1.now ≤ st.now
        rw [lookupStep_now]; exact Int.le_refl _
      · show st.now ≤ (lookupStep st host).1.now + validityMs
        rw [lookupStep_now]
        have := validityMs_nonneg
        omega

/-- the certificate returned by `get` is the cache entry for its host afterwards. -/
theorem get_cached {isIP : Str → Bool} {st : St} {target host port : Str} {c : Cert}
    (hs : splitHostPort target = .ok host port) (h1 : (get st target isIP).2 = .ok c) :
    lookup (get st target isIP).1 host = some c := by
  cases hl : (lookupStep st host).2 with
  | some c' =>
    rw [get_hit hs hl] at h1 ⊢
    simp only [GetRes.ok.injEq] at h1
    subst h1
    rw [(lookupStep_some hl).1]
    exact lookupStep_some_lookup hl
  | none =>
    rw [get_miss hs hl] at h1 ⊢
    simp only [GetRes.ok.injEq] at h1
    subst h1
    simp [lookup, issueStep]

theorem get_id_lt {isIP : Str → Bool} {st : St} {target : Str} {c : Cert} (h : Inv isIP st)
    (h1 : (get st target isIP).2 = .ok c) : c.id < (get st target isIP).1.nextId := by
  obtain ⟨host, port, hs⟩ := get_ok_split h1
  have hc := get_cached hs h1
  exact (inv_get isIP st target h c (lookup_some hc).1).2.2.2.2

theorem get_now (isIP : Str → Bool) (st : St) (target : Str) : (get st target isIP).1.now = st.now := by
  cases hs : splitHostPort target with
  | err => rw [get_err hs]
  | ok host port =>
    cases hl : (lookupStep st host).2 with
    | some c => rw [get_hit hs hl]; exact lookupStep_now st host
    | none => rw [get_miss hs hl]; exact lookupStep_now st host

theorem reuse_while_valid (isIP : Str → Bool) (st : St) (target : Str) (c : Cert) (d : Nat) (_h : Inv isIP st)
    (h1 : (get st target isIP).2 = .ok c) (hd : (st.now + d : Int) ≤ c.notAfter) :
    (get { (get st target isIP).1 with now := st.now + d } target isIP).2 = .ok c := by
  obtain ⟨host, port, hs⟩ := get_ok_split h1
  have hc : lookup { (get st target isIP).1 with now := st.now + d } host = some c := get_cached hs h1
  have hx : ¬ c.notAfter < ({ (get st target isIP).1 with now := st.now + d } : St).now :=
    Int.not_lt.mpr hd
  have hl := lookupStep_valid hc hx
  rw [get_hit hs (by rw [hl])]

theorem replace_once_expired (isIP : Str → Bool) (st : St) (target : Str) (c : Cert) (d : Nat) (h : Inv isIP st)
    (h1 : (get st target isIP).2 = .ok c) (hd : c.notAfter < (st.now + d : Int)) :
    ∃ c', (get { (get st target isIP).1 with now := st.now + d } target isIP).2 = .ok c' ∧ c'.id ≠ c.id ∧
      c'.notBefore = st.now + d ∧
      c ∉ (get { (get st target isIP).1 with now := st.now + d } target isIP).1.cache := by
  obtain ⟨host, port, hs⟩ := get_ok_split h1
  have hc : lookup { (get st target isIP).1 with now := st.now + d } host = some c := get_cached hs h1
  have hid := get_id_lt h h1
  have hhost := (lookup_some hc).2
  have hl := lookupStep_expired (st := { (get st target isIP).1 with now := st.now + d }) hc hd
  rw [get_miss hs (by rw [hl])]
  rw [hl]
  refine ⟨_, rfl, ?_, rfl, ?_⟩
  · show (get st target isIP).1.nextId ≠ c.id
    omega
  · intro hm
    simp only [issueStep, List.mem_cons] at hm
    rcases hm with e | hm
    · have : c.id = (get st target isIP).1.nextId := by rw [e]
      omega
    · have := (List.mem_filter.mp (List.mem_filter.mp hm).1).2
      simp [hhost] at this

/-! ### concurrent callers -/

theorem progOf_setProg_self (p : List (Nat × Option Cert)) (k : Nat) (v : Option Cert) :
    progOf (setProg p k v) k = some v := by
  simp [progOf, setProg]

theorem progOf_filter_ne : ∀ (p : List (Nat × Option Cert)) (k k' : Nat), k' ≠ k →
    progOf (p.filter (·.1 ≠ k)) k' = progOf p k'
  | [], _, _, _ => rfl
  | q :: p, k, k', hne => by
    have ih := progOf_filter_ne p k k' hne
    unfold progOf at ih ⊢
    by_cases hq : q.1 = k
    · rw [List.filter_cons_of_neg (by simpa using hq), ih,
        List.find?_cons_of_neg (by simp only [decide_eq_true_eq]; omega)]
    · rw [List.filter_cons_of_pos (by simpa using hq)]
      by_cases hq' : q.1 = k'
      · rw [List.find?_cons_of_pos (by simpa using hq'), List.find?_cons_of_pos (by simpa using hq')]
      · rw [List.find?_cons_of_neg (by simpa using hq'), List.find?_cons_of_neg (by simpa using hq'), ih]

theorem progOf_setProg_other (p : List (Nat × Option Cert)) (k k' : Nat) (v : Option Cert) (hne : k' ≠ k) :
    progOf (setProg p k v) k' = progOf p k' := by
  have := progOf_filter_ne p k k' hne
  unfold progOf setProg at *
  rw [List.find?_cons_of_neg (by simp only [decide_eq_true_eq]; omega)]
  exact this

/-- what every finished caller holds. -/
def CertOK (isIP : Str → Bool) (host : Str) (now : Int) (c : Cert) : Prop :=
  c.host = host ∧ c.sanIsIP = isIP host ∧ c.issuedByCA = true ∧
    c.notAfter = c.notBefore + validityMs ∧ c.notBefore ≤ now

/-- invariant of the concurrent run. -/
def Good (isIP : Str → Bool) (host : Str) (c : Conc) : Prop :=
  Inv isIP c.st ∧ (c.st.cache.filter (·.host = host)).length ≤ 1 ∧
    ∀ k ce, progOf c.prog k = some (some ce) → CertOK isIP host c.st.now ce

theorem concStep_lookup_none {host : Str} {b : Bool} {c : Conc} {k : Nat} (hp : progOf c.prog k = none) :
    concStep host b c (.lookup k) =
      { st := (lookupStep c.st host).1, prog := setProg c.prog k (lookupStep c.st host).2 } := by
  simp only [concStep]; rw [hp]

theorem concStep_lookup_some {host : Str} {b : Bool} {c : Conc} {k : Nat} {o : Option Cert}
    (hp : progOf c.prog k = some o) : concStep host b c (.lookup k) = c := by
  simp only [concStep]; rw [hp]

theorem concStep_issue_ready {host : Str} {b : Bool} {c : Conc} {k : Nat} (hp : progOf c.prog k = some none) :
    concStep host b c (.issue k) =
      { st := (issueStep c.st host b).1, prog := setProg c.prog k (some (issueStep c.st host b).2) } := by
  simp only [concStep]; rw [hp]

theorem concStep_issue_other {host : Str} {b : Bool} {c : Conc} {k : Nat} (hp : progOf c.prog k ≠ some none) :
    concStep host b c (.issue k) = c := by
  cases hq : progOf c.prog k with
  | none => simp only [concStep, hq]
  | some o =>
    cases o with
    | none => exact absurd hq hp
    | some ce => simp only [concStep, hq]

theorem good_step (isIP : Str → Bool) (host : Str) (c : Conc) (step : Step) (h : Good isIP host c) :
    Good isIP host (concStep host (isIP host) c step) := by
  obtain ⟨hinv, hcnt, hprog⟩ := h
  cases step with
  | lookup k =>
    cases hp : progOf c.prog k with
    | some o => rw [concStep_lookup_some hp]; exact ⟨hinv, hcnt, hprog⟩
    | none =>
      rw [concStep_lookup_none hp]
      refine ⟨inv_lookupStep host hinv, Nat.le_trans (count_lookupStep _ _ _) hcnt, ?_⟩
      intro k' ce hk
      show CertOK isIP host (lookupStep c.st host).1.now ce
      rw [lookupStep_now]
      by_cases hkk : k' = k
      · subst hkk
        have hk : progOf (setProg c.prog k' (lookupStep c.st host).2) k' = some (some ce) := hk
        rw [progOf_setProg_self] at hk
        simp only [Option.some.injEq] at hk
        obtain ⟨_, hm, hh, _⟩ := lookupStep_some hk
        obtain ⟨h1, h2, h3, h4, _⟩ := hinv ce hm
        exact ⟨hh, by rw [h1, hh], h2, h4, h3⟩
      · have hk : progOf (setProg c.prog k (lookupStep c.st host).2) k' = some (some ce) := hk
        rw [progOf_setProg_other _ _ _ _ hkk] at hk
        exact hprog k' ce hk
  | issue k =>
    by_cases hp : progOf c.prog k = some none
    · rw [concStep_issue_ready hp]
      refine ⟨inv_issueStep host _ rfl hinv, Nat.le_of_eq (count_issueStep_self _ _ _), ?_⟩
      intro k' ce hk
      show CertOK isIP host c.st.now ce
      by_cases hkk : k' = k
      · subst hkk
        have hk : progOf (setProg c.prog k' (some (issueStep c.st host (isIP host)).2)) k' = some (some ce) := hk
        rw [progOf_setProg_self] at hk
        simp only [Option.some.injEq] at hk
        subst hk
        exact ⟨rfl, rfl, rfl, rfl, Int.le_refl _⟩
      · have hk : progOf (setProg c.prog k (some (issueStep c.st host (isIP host)).2)) k' = some (some ce) := hk
        rw [progOf_setProg_other _ _ _ _ hkk] at hk
        exact hprog k' ce hk
    · rw [concStep_issue_other hp]; exact ⟨hinv, hcnt, hprog⟩
  | tick d =>
    refine ⟨?_, hcnt, ?_⟩
    · intro ce hm
      obtain ⟨h1, h2, h3, h4, h5⟩ := hinv ce hm
      refine ⟨h1, h2, ?_, h4, h5⟩
      show ce.notBefore ≤ c.st.now + d
      omega
    · intro k' ce hk
      obtain ⟨h1, h2, h3, h4, h5⟩ := hprog k' ce hk
      refine ⟨h1, h2, h3, h4, ?_⟩
      show ce.notBefore ≤ c.st.now + d
      omega

theorem good_run (isIP : Str → Bool) (host : Str) : ∀ (steps : List Step) (c : Conc),
    Good isIP host c → Good isIP host (concRun host (isIP host) steps c)
  | [], _, h => h
  | step :: steps, c, h => by
    show Good isIP host (concRun host (isIP host) steps (concStep host (isIP host) c step))
    exact good_run isIP host steps _ (good_step isIP host c step h)

theorem concurrent_first_requests (isIP : Str → Bool) (host : Str) (steps : List Step) (st : St) (h : Inv isIP st)
    (hu : (st.cache.filter (·.host = host)).length ≤ 1) :
    let r := concRun host (isIP host) steps { st := st, prog := [] }
    (∀ k c, progOf r.prog k = some (some c) → c.host = host ∧ c.sanIsIP = isIP host ∧ c.issuedByCA = true ∧
        c.notAfter = c.notBefore + validityMs ∧ c.notBefore ≤ r.st.now) ∧
    (r.st.cache.filter (·.host = host)).length ≤ 1 ∧ Inv isIP r.st := by
  intro r
  have hg : Good isIP host r := good_run isIP host steps _ ⟨h, hu, by intro k ce hk; cases hk⟩
  exact ⟨hg.2.2, hg.2.1, hg.1⟩

end Rv.Lemmas.Certs
