import Rv.Model.Auth
import Rv.Spec.Session
/-
  Rv.Lemmas.Auth — helper lemmas and proofs for Props/C20.  Core Lean only.
-/
namespace Rv.Lemmas.Auth
open Rv.Auth Rv.Spec.Session

/-! ### `run` -/

theorem run_append (c : Cfg) (x y : List Op) (st : St) : run c (x ++ y) st = run c y (run c x st) := by
  simp only [run, List.foldl_append]

theorem abs_run_append (c : Cfg) (x y : List Op) (a : Abs) :
    Abs.run c (x ++ y) a = Abs.run c y (Abs.run c x a) := by
  simp only [Abs.run, List.foldl_append]

/-! ### `find`, `getSession` -/

theorem find_some {st : St} {sid : Nat} {s : Session} (h : find st sid = some s) :
    s ∈ st.sessions ∧ s.sid = sid := by
  unfold find at h
  exact ⟨List.mem_of_find?_eq_some h, by simpa using List.find?_some h⟩

theorem find_none {st : St} {sid : Nat} (h : find st sid = none) :
    ∀ s ∈ st.sessions, s.sid ≠ sid := by
  unfold find at h
  intro s hs
  simpa using (List.find?_eq_none.1 h) s hs

/-- the table after a sliding renewal of `sid`. -/
def renew (c : Cfg) (st : St) (sid : Nat) (s : Session) : St :=
  { st with
    sessions := st.sessions.map
      (fun x => if x.sid = sid then { s with expiresAt := st.now + c.lifetime } else x) }

theorem getSession_cases (c : Cfg) (st : St) (sid : Nat) :
    (find st sid = none ∧ getSession c st sid = (st, none)) ∨
    (∃ s, find st sid = some s ∧ ¬ s.expiresAt > st.now ∧
       getSession c st sid = (remove st sid, none)) ∨
    (∃ s, find st sid = some s ∧ s.expiresAt > st.now ∧ s.expiresAt - st.now ≤ c.threshold ∧
       getSession c st sid = (renew c st sid s, some { s with expiresAt := st.now + c.lifetime })) ∨
    (∃ s, find st sid = some s ∧ s.expiresAt > st.now ∧ ¬ s.expiresAt - st.now ≤ c.threshold ∧
       getSession c st sid = (st, some s)) := by
  unfold getSession
  cases h : find st sid with
  | none => exact Or.inl ⟨rfl, rfl⟩
  | some s =>
    by_cases h1 : s.expiresAt > st.now
    · by_cases h2 : s.expiresAt - st.now ≤ c.threshold
      · exact Or.inr (Or.inr (Or.inl ⟨s, rfl, h1, h2, by simp only [h1, h2, renew, not_true, if_false, if_true]⟩))
      · exact Or.inr (Or.inr (Or.inr ⟨s, rfl, h1, h2, by simp only [h1, h2, not_true, if_false]⟩))
    · exact Or.inr (Or.inl ⟨s, rfl, h1, by simp only [h1, not_false_eq_true, if_true]⟩)

/-- cookie lookup as done by `wrap` and `login`. -/
def look (c : Cfg) (st : St) (ck : Cookie) : St × Option Session :=
  match ck with
  | none => (st, none)
  | some sid => getSession c st sid

theorem wrap_eq (c : Cfg) (st : St) (ra : Bool) (ck : Cookie) :
    wrap c st ra ck =
      if ra && (look c st ck).2.isNone then ((look c st ck).1, .unauthorized)
      else ((look c st ck).1, .reached ((look c st ck).2.map (·.user))) := rfl

theorem login_eq (c : Cfg) (st : St) (ck : Cookie) (ue v : Bool) (u : Nat) :
    login c st ck ue v u =
      if (look c st ck).2.isSome then ((look c st ck).1, .already)
      else if ue && v then
        ((createSession c (look c st ck).1 u).1, .created (createSession c (look c st ck).1 u).2)
      else ((look c st ck).1, .invalid) := rfl

theorem logout_fst_none (c : Cfg) (st : St) : (logout c st none).1 = st := rfl

theorem logout_fst_some (c : Cfg) (st : St) (sid : Nat) :
    (logout c st (some sid)).1 =
      if (getSession c st sid).2.isSome then remove (getSession c st sid).1 sid
      else (getSession c st sid).1 := by
  cases hg : getSession c st sid with
  | mk st1 o => cases o <;> simp [logout, wrap_eq, look, hg]

theorem request_fst (c : Cfg) (st : St) (ra : Bool) (m o s : String) (ck : Cookie) :
    (request c st ra m o s ck).1 = if hardenAllows m o s then (look c st ck).1 else st := by
  unfold request
  rw [wrap_eq]
  cases hardenAllows m o s
  · rfl
  · simp only [Bool.not_true, Bool.false_eq_true, if_false, if_true]
    split <;> rfl

/-! ### the per-request theorems -/

theorem wrap_none (c : Cfg) (st : St) : wrap c st true none = (st, .unauthorized) := rfl

theorem wrap_of_none {c : Cfg} {st st1 : St} {sid : Nat} (h : getSession c st sid = (st1, none)) :
    wrap c st true (some sid) = (st1, .unauthorized) := by
  rw [wrap_eq]; simp only [look, h]; rfl

theorem wrap_of_some {c : Cfg} {st st1 : St} {sid : Nat} {s : Session} (ra : Bool)
    (h : getSession c st sid = (st1, some s)) :
    wrap c st ra (some sid) = (st1, .reached (some s.user)) := by
  rw [wrap_eq]; simp only [look, h]; simp

theorem guarded_needs_live_session (c : Cfg) (st : St) (ck : Cookie) (u : Option Nat)
    (h : (wrap c st true ck).2 = .reached u) :
    ∃ sid s, ck = some sid ∧ find st sid = some s ∧ s.expiresAt > st.now ∧ u = some s.user := by
  cases ck with
  | none => rw [wrap_none] at h; exact absurd h (by simp)
  | some sid =>
    rcases getSession_cases c st sid with ⟨_, hg⟩ | ⟨s, _, _, hg⟩ | ⟨s, hf, h1, _, hg⟩ | ⟨s, hf, h1, _, hg⟩
    · rw [wrap_of_none hg] at h; exact absurd h (by simp)
    · rw [wrap_of_none hg] at h; exact absurd h (by simp)
    · rw [wrap_of_some true hg] at h
      exact ⟨sid, s, rfl, hf, h1, (Outcome.reached.inj h).symm⟩
    · rw [wrap_of_some true hg] at h
      exact ⟨sid, s, rfl, hf, h1, (Outcome.reached.inj h).symm⟩

theorem unauthorized_has_no_effect (c : Cfg) (st : St) (ck : Cookie)
    (h : (wrap c st true ck).2 = .unauthorized) :
    (wrap c st true ck).1 = st ∨ ∃ sid, ck = some sid ∧ (wrap c st true ck).1 = remove st sid := by
  cases ck with
  | none => exact Or.inl rfl
  | some sid =>
    rcases getSession_cases c st sid with ⟨_, hg⟩ | ⟨s, _, _, hg⟩ | ⟨s, hf, h1, _, hg⟩ | ⟨s, hf, h1, _, hg⟩
    · rw [wrap_of_none hg]; exact Or.inl rfl
    · rw [wrap_of_none hg]; exact Or.inr ⟨sid, rfl, rfl⟩
    · rw [wrap_of_some true hg] at h; exact absurd h (by simp)
    · rw [wrap_of_some true hg] at h; exact absurd h (by simp)

theorem login_only_with_verifying_password (c : Cfg) (st : St) (ck : Cookie) (ue v : Bool) (u sid : Nat)
    (h : (login c st ck ue v u).2 = .created sid) : ue = true ∧ v = true := by
  rw [login_eq] at h
  split at h
  · simp at h
  · split at h
    · rename_i h2
      simpa using h2
    · simp at h

theorem cross_site_refused (c : Cfg) (st : St) (ra : Bool) (m origin site : String) (ck : Cookie)
    (h : (origin ≠ "" ∧ site ≠ "" ∧ site ≠ "same-origin" ∧ site ≠ "same-site") ∨ (m = "OPTIONS" ∧ origin ≠ "")) :
    request c st ra m origin site ck = (st, .forbidden) := by
  have hh : hardenAllows m origin site = false := by
    unfold hardenAllows
    rcases h with ⟨h1, h2, h3, h4⟩ | ⟨h1, h2⟩
    · simp [h1, h2, h3, h4]
    · simp [h1, h2]
  unfold request
  rw [hh]
  rfl

/-! ### no operation but a successful login introduces a session id -/

/-- same id counter, and every session id of `st'` is already one of `st`. -/
def Sub (st' st : St) : Prop :=
  st'.nextSid = st.nextSid ∧ ∀ x ∈ st'.sessions, ∃ y ∈ st.sessions, y.sid = x.sid

theorem Sub.refl (st : St) : Sub st st := ⟨rfl, fun x hx => ⟨x, hx, rfl⟩⟩

theorem Sub.trans {a b d : St} (h1 : Sub a b) (h2 : Sub b d) : Sub a d :=
  ⟨h1.1.trans h2.1, fun x hx =>
    let ⟨y, hy, e⟩ := h1.2 x hx
    let ⟨z, hz, e'⟩ := h2.2 y hy
    ⟨z, hz, e'.trans e⟩⟩

theorem remove_sub (st : St) (sid : Nat) : Sub (remove st sid) st :=
  ⟨rfl, fun x hx => ⟨x, (List.mem_filter.1 hx).1, rfl⟩⟩

theorem gc_sub (st : St) : Sub (gc st) st :=
  ⟨rfl, fun x hx => ⟨x, (List.mem_filter.1 hx).1, rfl⟩⟩

theorem mem_renew {c : Cfg} {st : St} {sid : Nat} {s x : Session} (hx : x ∈ (renew c st sid s).sessions) :
    (x = { s with expiresAt := st.now + c.lifetime } ∧ ∃ y ∈ st.sessions, y.sid = sid) ∨
    (x ∈ st.sessions ∧ x.sid ≠ sid) := by
  simp only [renew, List.mem_map] at hx
  rcases hx with ⟨y, hy, e⟩
  by_cases hys : y.sid = sid
  · rw [if_pos hys] at e
    exact Or.inl ⟨e.symm, y, hy, hys⟩
  · rw [if_neg hys] at e
    exact Or.inr (e ▸ ⟨hy, hys⟩)

theorem renew_sub (c : Cfg) (st : St) (sid : Nat) (s : Session) (hs : s.sid = sid) :
    Sub (renew c st sid s) st :=
  ⟨rfl, fun x hx => by
    rcases mem_renew hx with ⟨e, y, hy, hys⟩ | ⟨h, _⟩
    · exact ⟨y, hy, by rw [e, hys]; exact hs.symm⟩
    · exact ⟨x, h, rfl⟩⟩

theorem getSession_sub (c : Cfg) (st : St) (sid : Nat) : Sub (getSession c st sid).1 st := by
  rcases getSession_cases c st sid with ⟨_, hg⟩ | ⟨s, _, _, hg⟩ | ⟨s, hf, _, _, hg⟩ | ⟨s, _, _, _, hg⟩
  · rw [hg]; exact Sub.refl st
  · rw [hg]; exact remove_sub st sid
  · rw [hg]; exact renew_sub c st sid s (find_some hf).2
  · rw [hg]; exact Sub.refl st

theorem look_sub (c : Cfg) (st : St) (ck : Cookie) : Sub (look c st ck).1 st := by
  cases ck with
  | none => exact Sub.refl st
  | some sid => exact getSession_sub c st sid

theorem logout_sub (c : Cfg) (st : St) (ck : Cookie) : Sub (logout c st ck).1 st := by
  cases ck with
  | none => exact Sub.refl st
  | some sid =>
    rw [logout_fst_some]
    split
    · exact (remove_sub _ sid).trans (getSession_sub c st sid)
    · exact getSession_sub c st sid

theorem request_sub (c : Cfg) (st : St) (ra : Bool) (m o s : String) (ck : Cookie) :
    Sub (request c st ra m o s ck).1 st := by
  rw [request_fst]
  split
  · exact look_sub c st ck
  · exact Sub.refl st

theorem login_fst_of_not {c : Cfg} {st : St} {ck : Cookie} {ue v : Bool} (u : Nat)
    (h : (ue && v) = false) : (login c st ck ue v u).1 = (look c st ck).1 := by
  rw [login_eq, h]
  split <;> rfl

theorem login_fst_ok (c : Cfg) (st : St) (ck : Cookie) (u : Nat) :
    (login c st ck true true u).1 =
      if (look c st ck).2.isSome then (look c st ck).1 else (createSession c (look c st ck).1 u).1 := by
  rw [login_eq]
  split <;> rfl

theorem step_sub (c : Cfg) (st : St) (op : Op) (h : ∀ ck u, op ≠ .login ck true true u) :
    Sub (step c st op) st := by
  cases op with
  | login ck ue v u =>
    have hb : (ue && v) = false := by
      cases ue <;> cases v <;> first | rfl | exact absurd rfl (h ck u)
    simp only [step]
    rw [login_fst_of_not u hb]
    exact look_sub c st ck
  | logout ck => exact logout_sub c st ck
  | request ra m o s ck => exact request_sub c st ra m o s ck
  | shift d => exact ⟨rfl, fun x hx => ⟨x, hx, rfl⟩⟩
  | gc => exact gc_sub st

theorem only_login_adds_sessions (c : Cfg) (st : St) (op : Op) (s : Session)
    (hs : s.sid ∈ (step c st op).sessions.map (·.sid)) (hn : s.sid ∉ st.sessions.map (·.sid)) :
    ∃ ck u, op = .login ck true true u := by
  apply Classical.byContradiction
  intro hno
  have hsub := step_sub c st op (fun ck u e => hno ⟨ck, u, e⟩)
  rcases List.mem_map.1 hs with ⟨x, hx, e⟩
  rcases hsub.2 x hx with ⟨y, hy, e'⟩
  exact hn (List.mem_map.2 ⟨y, hy, e'.trans e⟩)

/-! ### issued ids are below the counter -/

def Lt (st : St) : Prop := ∀ s ∈ st.sessions, s.sid < st.nextSid

theorem Lt_of_sub {st' st : St} (h : Sub st' st) (hl : Lt st) : Lt st' := fun x hx => by
  rcases h.2 x hx with ⟨y, hy, e⟩
  rw [← e, h.1]
  exact hl y hy

theorem Lt_create (c : Cfg) {st : St} (u : Nat) (hl : Lt st) : Lt (createSession c st u).1 := by
  intro x hx
  simp only [createSession, List.mem_cons] at hx ⊢
  rcases hx with e | hx
  · rw [e]; exact Nat.lt_succ_self _
  · exact Nat.lt_succ_of_lt (hl x hx)

theorem step_Lt (c : Cfg) {st : St} (op : Op) (hl : Lt st) : Lt (step c st op) := by
  by_cases h : ∃ ck u, op = .login ck true true u
  · rcases h with ⟨ck, u, rfl⟩
    simp only [step]
    rw [login_fst_ok]
    have h1 : Lt (look c st ck).1 := Lt_of_sub (look_sub c st ck) hl
    split
    · exact h1
    · exact Lt_create c u h1
  · exact Lt_of_sub (step_sub c st op (fun ck u e => h ⟨ck, u, e⟩)) hl

theorem run_Lt (c : Cfg) (ops : List Op) : ∀ {st : St}, Lt st → Lt (run c ops st) := by
  induction ops with
  | nil => intro st h; exact h
  | cons op ops ih => intro st h; exact ih (step_Lt c op h)

theorem Lt_init : Lt init := fun _ h => nomatch h

theorem find_eq_none_of {st : St} {sid : Nat} (h : ∀ s ∈ st.sessions, s.sid ≠ sid) :
    find st sid = none := by
  unfold find
  exact List.find?_eq_none.2 (fun s hs => by simpa using h s hs)

theorem getSession_of_find_none {c : Cfg} {st : St} {sid : Nat} (h : find st sid = none) :
    getSession c st sid = (st, none) := by
  unfold getSession
  rw [h]

theorem unknown_cookie_refused (c : Cfg) (ops : List Op) (sid : Nat)
    (h : (run c ops init).nextSid ≤ sid) :
    (wrap c (run c ops init) true (some sid)).2 = .unauthorized := by
  have hl : Lt (run c ops init) := run_Lt c ops Lt_init
  have hf : find (run c ops init) sid = none :=
    find_eq_none_of (fun s hs e => Nat.lt_irrefl _ (Nat.lt_of_lt_of_le (e ▸ hl s hs) h))
  rw [wrap_of_none (getSession_of_find_none hf)]

/-! ### the reference: `live`, `touch` -/

/-- overwrite one entry of the reference's expiry map. -/
def setExp (a : Abs) (k : Nat) (v : Option Int) : Abs :=
  { a with expiry := fun j => if j = k then v else a.expiry j }

theorem live_true_iff {a : Abs} {sid : Nat} :
    a.live sid = true ↔ ∃ e, a.expiry sid = some e ∧ e > a.now := by
  unfold Abs.live
  cases a.expiry sid with
  | none => simp
  | some e => simp

theorem live_false_iff {a : Abs} {sid : Nat} :
    a.live sid = false ↔ ∀ e, a.expiry sid = some e → e ≤ a.now := by
  unfold Abs.live
  cases a.expiry sid with
  | none => simp
  | some e => simp

theorem touch_none (c : Cfg) (a : Abs) : a.touch c none = a := rfl

theorem touch_cases (c : Cfg) (a : Abs) (sid : Nat) :
    (a.expiry sid = none ∧ a.touch c (some sid) = a) ∨
    (∃ e, a.expiry sid = some e ∧ ¬ e > a.now ∧ a.touch c (some sid) = setExp a sid none) ∨
    (∃ e, a.expiry sid = some e ∧ e > a.now ∧ e - a.now ≤ c.threshold ∧
       a.touch c (some sid) = setExp a sid (some (a.now + c.lifetime))) ∨
    (∃ e, a.expiry sid = some e ∧ e > a.now ∧ ¬ e - a.now ≤ c.threshold ∧
       a.touch c (some sid) = a) := by
  simp only [Abs.touch]
  cases h : a.expiry sid with
  | none => exact Or.inl ⟨rfl, rfl⟩
  | some e =>
    by_cases h1 : e > a.now
    · by_cases h2 : e - a.now ≤ c.threshold
      · exact Or.inr (Or.inr (Or.inl ⟨e, rfl, h1, h2, by simp only [h1, h2, setExp, not_true, if_false, if_true]⟩))
      · exact Or.inr (Or.inr (Or.inr ⟨e, rfl, h1, h2, by simp only [h1, h2, not_true, if_false]⟩))
    · exact Or.inr (Or.inl ⟨e, rfl, h1, by simp only [h1, setExp, not_false_eq_true, if_true]⟩)

theorem touch_now (c : Cfg) (a : Abs) (ck : Cookie) : (a.touch c ck).now = a.now := by
  cases ck with
  | none => rfl
  | some sid =>
    rcases touch_cases c a sid with ⟨_, h⟩ | ⟨_, _, _, h⟩ | ⟨_, _, _, _, h⟩ | ⟨_, _, _, _, h⟩ <;> rw [h] <;> rfl

theorem touch_nextSid (c : Cfg) (a : Abs) (ck : Cookie) : (a.touch c ck).nextSid = a.nextSid := by
  cases ck with
  | none => rfl
  | some sid =>
    rcases touch_cases c a sid with ⟨_, h⟩ | ⟨_, _, _, h⟩ | ⟨_, _, _, _, h⟩ | ⟨_, _, _, _, h⟩ <;> rw [h] <;> rfl

theorem setExp_live_none (a : Abs) (k sid : Nat) (h : a.live sid = false) :
    (setExp a k none).live sid = false := by
  rw [live_false_iff] at h ⊢
  intro e he
  simp only [setExp] at he
  by_cases hk : sid = k
  · rw [if_pos hk] at he; exact absurd he (by simp)
  · rw [if_neg hk] at he; exact h e he

/-- a use never revives: a session that is not live is not live after any touch. -/
theorem touch_dead (c : Cfg) (a : Abs) (ck : Cookie) (sid : Nat) (h : a.live sid = false) :
    (a.touch c ck).live sid = false := by
  cases ck with
  | none => exact h
  | some k =>
    rcases touch_cases c a k with ⟨_, ht⟩ | ⟨_, _, _, ht⟩ | ⟨e, he, h1, _, ht⟩ | ⟨_, _, _, _, ht⟩
    · rw [ht]; exact h
    · rw [ht]; exact setExp_live_none a k sid h
    · rw [ht]
      have hk : sid ≠ k := by
        intro hk
        rw [live_false_iff] at h
        have := h e (hk ▸ he)
        omega
      rw [live_false_iff] at h ⊢
      intro e' he'
      simp only [setExp, if_neg hk] at he'
      exact h e' he'
    · rw [ht]; exact h

/-! ### in the reference an ended session stays ended -/

/-- issued and not live. -/
def Ended (a : Abs) (sid : Nat) : Prop := sid < a.nextSid ∧ a.live sid = false

/-- is the cookie's session live in the reference? -/
def liveCk (a : Abs) (ck : Cookie) : Bool :=
  match ck with
  | some sid => a.live sid
  | none => false

/-- the reference issues the next id. -/
def absCreate (c : Cfg) (a : Abs) : Abs :=
  { a with nextSid := a.nextSid + 1,
           expiry := fun k => if k = a.nextSid then some (a.now + c.lifetime) else a.expiry k }

theorem abs_step_login (c : Cfg) (a : Abs) (ck : Cookie) (ue v : Bool) (u : Nat) :
    Abs.step c a (.login ck ue v u) =
      if liveCk a ck then a.touch c ck
      else if ue && v then absCreate c (a.touch c ck) else a.touch c ck := rfl

theorem abs_step_logout_none (c : Cfg) (a : Abs) : Abs.step c a (.logout none) = a := rfl

theorem abs_step_logout_some (c : Cfg) (a : Abs) (sid : Nat) :
    Abs.step c a (.logout (some sid)) =
      if a.live sid then setExp (a.touch c (some sid)) sid none else a.touch c (some sid) := rfl

theorem abs_step_request (c : Cfg) (a : Abs) (ra : Bool) (m o s : String) (ck : Cookie) :
    Abs.step c a (.request ra m o s ck) = if hardenAllows m o s then a.touch c ck else a := rfl

theorem step_Ended (c : Cfg) (a : Abs) (op : Op) (sid : Nat) (h : Ended a sid) :
    Ended (Abs.step c a op) sid := by
  rcases h with ⟨hlt, hd⟩
  have h1 : ∀ ck, Ended (a.touch c ck) sid := fun ck =>
    ⟨by rw [touch_nextSid]; exact hlt, touch_dead c a ck sid hd⟩
  cases op with
  | login ck ue v u =>
    rw [abs_step_login]
    split
    · exact h1 ck
    · split
      · refine ⟨Nat.lt_succ_of_lt (h1 ck).1, ?_⟩
        have h2 := (h1 ck).2
        rw [live_false_iff] at h2 ⊢
        intro e he
        have hne : sid ≠ (a.touch c ck).nextSid := Nat.ne_of_lt (h1 ck).1
        simp only [absCreate, if_neg hne] at he
        exact h2 e he
      · exact h1 ck
  | logout ck =>
    cases ck with
    | none => exact ⟨hlt, hd⟩
    | some k =>
      rw [abs_step_logout_some]
      split
      · exact ⟨(h1 _).1, setExp_live_none _ k sid (h1 _).2⟩
      · exact h1 _
  | request ra m o s ck =>
    rw [abs_step_request]
    split
    · exact h1 ck
    · exact ⟨hlt, hd⟩
  | shift d =>
    refine ⟨hlt, ?_⟩
    rw [live_false_iff] at hd ⊢
    intro e he
    have := hd e he
    simp only [Abs.step]
    omega
  | gc => exact ⟨hlt, hd⟩

theorem run_Ended (c : Cfg) (ops : List Op) (sid : Nat) :
    ∀ (a : Abs), Ended a sid → Ended (Abs.run c ops a) sid := by
  induction ops with
  | nil => intro a h; exact h
  | cons op ops ih => intro a h; exact ih _ (step_Ended c a op sid h)

theorem ended_stays_ended (c : Cfg) (_hl : 0 < c.lifetime) (_ht : 0 ≤ c.threshold) (ops later : List Op)
    (sid : Nat)
    (hissued : sid < (Abs.run c ops Abs.init).nextSid)
    (hdead : (Abs.run c ops Abs.init).live sid = false) :
    (Abs.run c (ops ++ later) Abs.init).live sid = false := by
  rw [abs_run_append]
  exact (run_Ended c later sid _ ⟨hissued, hdead⟩).2

/-! ### refinement: the session table against the reference -/

theorem touch_unknown {c : Cfg} {a : Abs} {sid : Nat} (he : a.expiry sid = none) :
    a.touch c (some sid) = a := by
  simp only [Abs.touch, he]

theorem touch_expired {c : Cfg} {a : Abs} {sid : Nat} {e : Int} (he : a.expiry sid = some e)
    (h1 : ¬ e > a.now) : a.touch c (some sid) = setExp a sid none := by
  simp only [Abs.touch, he, h1, setExp, not_false_eq_true, if_true]

theorem touch_renew {c : Cfg} {a : Abs} {sid : Nat} {e : Int} (he : a.expiry sid = some e)
    (h1 : e > a.now) (h2 : e - a.now ≤ c.threshold) :
    a.touch c (some sid) = setExp a sid (some (a.now + c.lifetime)) := by
  simp only [Abs.touch, he, h1, h2, setExp, not_true, if_false, if_true]

theorem touch_keep {c : Cfg} {a : Abs} {sid : Nat} {e : Int} (he : a.expiry sid = some e)
    (h1 : e > a.now) (h2 : ¬ e - a.now ≤ c.threshold) : a.touch c (some sid) = a := by
  simp only [Abs.touch, he, h1, h2, not_true, if_false]

theorem live_of_expiry {a : Abs} {sid : Nat} {e : Int} (he : a.expiry sid = some e) :
    a.live sid = decide (e > a.now) := by
  simp only [Abs.live, he]

theorem live_of_none {a : Abs} {sid : Nat} (he : a.expiry sid = none) : a.live sid = false := by
  simp only [Abs.live, he]

theorem setExp_live_ne (a : Abs) {k sid : Nat} (v : Option Int) (h : k ≠ sid) :
    (setExp a sid v).live k = a.live k := by
  have e : (setExp a sid v).expiry k = a.expiry k := by simp only [setExp, if_neg h]
  unfold Abs.live
  rw [e]
  rfl

theorem setExp_live_self_none (a : Abs) (sid : Nat) : (setExp a sid none).live sid = false := by
  simp only [Abs.live, setExp, if_true]

/-- the refinement relation. GC may drop a session the reference still records
    (with an expiry in the past); a live session is never missing from the table. -/
structure R (st : St) (a : Abs) : Prop where
  now : a.now = st.now
  next : a.nextSid = st.nextSid
  exp : ∀ s ∈ st.sessions, a.expiry s.sid = some s.expiresAt
  live : ∀ sid, a.live sid = true → ∃ s ∈ st.sessions, s.sid = sid

theorem R_init : R init Abs.init :=
  ⟨rfl, rfl, fun _ h => (nomatch h), fun _ h => Bool.noConfusion h⟩

theorem R_forget {st : St} {a : Abs} {sid : Nat} (h : R st a) (hno : ∀ s ∈ st.sessions, s.sid ≠ sid) :
    R st (setExp a sid none) where
  now := h.now
  next := h.next
  exp := fun s hs => by
    simp only [setExp, if_neg (hno s hs)]
    exact h.exp s hs
  live := fun k hk => by
    by_cases e : k = sid
    · rw [e, setExp_live_self_none] at hk; exact absurd hk (by simp)
    · rw [setExp_live_ne a none e] at hk; exact h.live k hk

theorem R_remove {st : St} {a : Abs} (sid : Nat) (h : R st a) :
    R (remove st sid) (setExp a sid none) where
  now := h.now
  next := h.next
  exp := fun s hs => by
    have hm := List.mem_filter.1 hs
    have hne : s.sid ≠ sid := by simpa using hm.2
    simp only [setExp, if_neg hne]
    exact h.exp s hm.1
  live := fun k hk => by
    by_cases e : k = sid
    · rw [e, setExp_live_self_none] at hk; exact absurd hk (by simp)
    · rw [setExp_live_ne a none e] at hk
      rcases h.live k hk with ⟨s, hs, hsk⟩
      exact ⟨s, List.mem_filter.2 ⟨hs, by simpa [hsk] using e⟩, hsk⟩

theorem R_renew {c : Cfg} {st : St} {a : Abs} {sid : Nat} {s : Session} (h : R st a)
    (hf : find st sid = some s) :
    R (renew c st sid s) (setExp a sid (some (a.now + c.lifetime))) where
  now := h.now
  next := h.next
  exp := fun x hx => by
    rcases mem_renew hx with ⟨e, _⟩ | ⟨hx', hne⟩
    · have : x.sid = sid := by rw [e]; exact (find_some hf).2
      simp only [setExp, if_pos this]
      rw [e, h.now]
    · simp only [setExp, if_neg hne]
      exact h.exp x hx'
  live := fun k hk => by
    by_cases e : k = sid
    · refine ⟨{ s with expiresAt := st.now + c.lifetime }, ?_, by rw [e]; exact (find_some hf).2⟩
      simp only [renew]
      exact List.mem_map.2 ⟨s, (find_some hf).1, if_pos (find_some hf).2⟩
    · rw [setExp_live_ne a _ e] at hk
      rcases h.live k hk with ⟨y, hy, hyk⟩
      refine ⟨y, ?_, hyk⟩
      simp only [renew]
      exact List.mem_map.2 ⟨y, hy, if_neg (by rw [hyk]; exact e)⟩

/-- the core step: `GetSession` against `touch`. -/
theorem getSession_touch (c : Cfg) {st : St} {a : Abs} (h : R st a) (sid : Nat) :
    R (getSession c st sid).1 (a.touch c (some sid)) ∧
      (getSession c st sid).2.isSome = a.live sid := by
  rcases getSession_cases c st sid with ⟨hf, hg⟩ | ⟨s, hf, h1, hg⟩ | ⟨s, hf, h1, h2, hg⟩ | ⟨s, hf, h1, h2, hg⟩
  · -- not in the table: the reference has it ended or never issued
    rw [hg]
    have hno := find_none hf
    have hnl : a.live sid = false := by
      cases hl : a.live sid with
      | false => rfl
      | true =>
        rcases h.live sid hl with ⟨s, hs, e⟩
        exact absurd e (hno s hs)
    refine ⟨?_, by rw [hnl]; rfl⟩
    cases he : a.expiry sid with
    | none => rw [touch_unknown he]; exact h
    | some e =>
      have : ¬ e > a.now := by
        have := live_false_iff.1 hnl e he
        omega
      rw [touch_expired he this]
      exact R_forget h hno
  · rw [hg]
    have he := h.exp s (find_some hf).1
    rw [(find_some hf).2] at he
    have h1' : ¬ s.expiresAt > a.now := by rw [h.now]; exact h1
    rw [touch_expired he h1', live_of_expiry he]
    exact ⟨R_remove sid h, by simp [h1']⟩
  · rw [hg]
    have he := h.exp s (find_some hf).1
    rw [(find_some hf).2] at he
    have h1' : s.expiresAt > a.now := by rw [h.now]; exact h1
    have h2' : s.expiresAt - a.now ≤ c.threshold := by rw [h.now]; exact h2
    rw [touch_renew he h1' h2', live_of_expiry he]
    exact ⟨R_renew h hf, by simp [h1']⟩
  · rw [hg]
    have he := h.exp s (find_some hf).1
    rw [(find_some hf).2] at he
    have h1' : s.expiresAt > a.now := by rw [h.now]; exact h1
    have h2' : ¬ s.expiresAt - a.now ≤ c.threshold := by rw [h.now]; exact h2
    rw [touch_keep he h1' h2', live_of_expiry he]
    exact ⟨h, by simp [h1']⟩

theorem look_touch (c : Cfg) {st : St} {a : Abs} (h : R st a) (ck : Cookie) :
    R (look c st ck).1 (a.touch c ck) ∧ (look c st ck).2.isSome = liveCk a ck := by
  cases ck with
  | none => exact ⟨h, rfl⟩
  | some sid => exact getSession_touch c h sid

theorem R_create (c : Cfg) {st : St} {a : Abs} (h : R st a) (hl : Lt st) (u : Nat) :
    R (createSession c st u).1 (absCreate c a) where
  now := h.now
  next := by simp only [absCreate, createSession, h.next]
  exp := fun x hx => by
    simp only [createSession, List.mem_cons] at hx
    rcases hx with e | hx
    · have : x.sid = a.nextSid := by rw [e, h.next]
      simp only [absCreate, if_pos this]
      rw [e, h.now]
    · have : x.sid ≠ a.nextSid := by rw [h.next]; exact Nat.ne_of_lt (hl x hx)
      simp only [absCreate, if_neg this]
      exact h.exp x hx
  live := fun k hk => by
    by_cases e : k = a.nextSid
    · exact ⟨_, List.mem_cons_self, by rw [e, h.next]⟩
    · have : a.live k = true := by
        rw [live_true_iff] at hk ⊢
        rcases hk with ⟨e', he', hgt⟩
        simp only [absCreate, if_neg e] at he'
        exact ⟨e', he', hgt⟩
      rcases h.live k this with ⟨y, hy, hyk⟩
      exact ⟨y, List.mem_cons_of_mem _ hy, hyk⟩

theorem R_shift {st : St} {a : Abs} (h : R st a) (d : Nat) :
    R { st with now := st.now + d } { a with now := a.now + d } where
  now := by simp only [h.now]
  next := h.next
  exp := h.exp
  live := fun k hk => by
    apply h.live k
    rw [live_true_iff] at hk ⊢
    rcases hk with ⟨e, he, hgt⟩
    refine ⟨e, he, ?_⟩
    simp only at hgt
    omega

theorem R_gc {st : St} {a : Abs} (h : R st a) : R (gc st) a where
  now := h.now
  next := h.next
  exp := fun s hs => h.exp s (List.mem_filter.1 hs).1
  live := fun k hk => by
    rcases h.live k hk with ⟨s, hs, hsk⟩
    refine ⟨s, List.mem_filter.2 ⟨hs, ?_⟩, hsk⟩
    rcases live_true_iff.1 hk with ⟨e, he, hgt⟩
    have := h.exp s hs
    rw [hsk, he] at this
    have he' : e = s.expiresAt := Option.some.inj this
    have hn := h.now
    simp only [decide_eq_true_eq]
    omega

theorem step_R (c : Cfg) {st : St} {a : Abs} (h : R st a) (hl : Lt st) (op : Op) :
    R (step c st op) (Abs.step c a op) := by
  cases op with
  | login ck ue v u =>
    have ht := look_touch c h ck
    simp only [step]
    rw [abs_step_login]
    cases hb : (ue && v) with
    | false =>
      rw [login_fst_of_not u hb]
      simp only [Bool.false_eq_true, if_false, ite_self]
      exact ht.1
    | true =>
      have hue : ue = true := by cases ue <;> simp_all
      have hv : v = true := by cases v <;> simp_all
      subst hue; subst hv
      rw [login_fst_ok, ht.2]
      simp only [if_true]
      split
      · exact ht.1
      · exact R_create c ht.1 (Lt_of_sub (look_sub c st ck) hl) u
  | logout ck =>
    cases ck with
    | none => exact h
    | some sid =>
      have ht := getSession_touch c h sid
      simp only [step]
      rw [abs_step_logout_some, logout_fst_some, ht.2]
      split
      · exact R_remove sid ht.1
      · exact ht.1
  | request ra m o s ck =>
    simp only [step]
    rw [abs_step_request, request_fst]
    split
    · exact (look_touch c h ck).1
    · exact h
  | shift d => exact R_shift h d
  | gc => exact R_gc h

theorem run_R (c : Cfg) (ops : List Op) :
    ∀ {st : St} {a : Abs}, R st a → Lt st → R (run c ops st) (Abs.run c ops a) := by
  induction ops with
  | nil => intro st a h _; exact h
  | cons op ops ih => intro st a h hl; exact ih (step_R c h hl op) (step_Lt c op hl)

theorem served_iff_live (c : Cfg) {st : St} {a : Abs} (h : R st a) (sid : Nat) :
    ((wrap c st true (some sid)).2 ≠ .unauthorized) ↔ a.live sid = true := by
  have ht := (getSession_touch c h sid).2
  cases hg : getSession c st sid with
  | mk st1 o =>
    rw [hg] at ht
    cases o with
    | none =>
      rw [wrap_of_none hg, ← ht]
      simp
    | some s =>
      rw [wrap_of_some true hg, ← ht]
      simp

theorem session_live_exactly (c : Cfg) (_hl : 0 < c.lifetime) (_ht : 0 ≤ c.threshold) (ops : List Op)
    (sid : Nat) :
    ((wrap c (run c ops init) true (some sid)).2 ≠ .unauthorized) ↔
      (Abs.run c ops Abs.init).live sid = true :=
  served_iff_live c (run_R c ops R_init Lt_init) sid

end Rv.Lemmas.Auth
