import Rv.Basic
/-
  Rv.Lemmas.Dec — general facts about decimal digits, `decVal` (Horner
  evaluation) and `toDec` (decimal printing).  Core Lean only.
-/
namespace Rv.Lemmas.Dec
open Rv

/-! ### characters -/

theorem isDigit_bounds {c : Char} (h : isDigit c = true) : 48 ≤ c.toNat ∧ c.toNat ≤ 57 := by
  simp only [isDigit, Bool.and_eq_true, decide_eq_true_eq] at h
  obtain ⟨h1, h2⟩ := h
  rw [Char.le_def] at h1 h2
  simp only [UInt32.le_iff_toNat_le] at h1 h2
  have e1 : '0'.val.toNat = 48 := by decide
  have e2 : '9'.val.toNat = 57 := by decide
  have e3 : c.toNat = c.val.toNat := rfl
  omega

theorem digitVal_le {c : Char} (h : isDigit c = true) : digitVal c ≤ 9 := by
  have := isDigit_bounds h
  unfold digitVal; omega

/-- the ten digit characters, by value. -/
theorem digitVal_ofNat : ∀ k, k < 10 → digitVal (Char.ofNat (48 + k)) = k := by decide

theorem isDigit_ofNat : ∀ k, k < 10 → isDigit (Char.ofNat (48 + k)) = true := by decide

/-! ### Horner evaluation with an explicit accumulator -/

/-- Horner evaluation with an explicit accumulator. -/
def val (num : Nat) (ds : Str) : Nat := ds.foldl (fun a c => a * 10 + digitVal c) num

theorem val_nil (num : Nat) : val num [] = num := by simp [val]

theorem val_cons (num : Nat) (c : Char) (cs : Str) :
    val num (c :: cs) = val (num * 10 + digitVal c) cs := by simp [val]

theorem decVal_eq (ds : Str) : decVal ds = val 0 ds := by simp [val, decVal]

theorem decVal_nil : decVal [] = 0 := by simp [decVal]

theorem val_append (num : Nat) (a b : Str) : val num (a ++ b) = val (val num a) b := by
  simp [val, List.foldl_append]

theorem val_ge : ∀ (ds : Str) (num : Nat), num ≤ val num ds
  | [], num => by simp [val_nil]
  | c :: cs, num => by
      rw [val_cons]; have := val_ge cs (num * 10 + digitVal c); omega

theorem val_mono : ∀ (ds : Str) {a b : Nat}, a ≤ b → val a ds ≤ val b ds
  | [], a, b, h => by simpa [val_nil] using h
  | c :: cs, a, b, h => by
      rw [val_cons, val_cons]; exact val_mono cs (by omega)

/-- accumulator form: the accumulator is shifted by one decimal place per digit. -/
theorem val_eq : ∀ (ds : Str) (num : Nat), val num ds = num * 10 ^ ds.length + decVal ds
  | [], num => by simp [val_nil, decVal_nil]
  | c :: cs, num => by
      rw [val_cons, decVal_eq, val_cons, val_eq cs, val_eq cs (0 * 10 + digitVal c)]
      simp only [List.length_cons, Nat.pow_succ, Nat.zero_mul, Nat.zero_add, Nat.add_mul]
      have : num * (10 ^ cs.length * 10) = num * 10 * 10 ^ cs.length := by
        rw [Nat.mul_assoc, Nat.mul_comm 10]
      omega

theorem decVal_append (a b : Str) : decVal (a ++ b) = decVal a * 10 ^ b.length + decVal b := by
  rw [decVal_eq, val_append, val_eq b, ← decVal_eq]

theorem decVal_cons (c : Char) (cs : Str) :
    decVal (c :: cs) = digitVal c * 10 ^ cs.length + decVal cs := by
  have := decVal_append [c] cs
  simpa [decVal] using this

theorem decVal_snoc (a : Str) (c : Char) : decVal (a ++ [c]) = decVal a * 10 + digitVal c := by
  simp [decVal, List.foldl_append]

theorem allDigits_nil : allDigits [] = true := by simp [allDigits]

theorem allDigits_cons (c : Char) (cs : Str) :
    allDigits (c :: cs) = true ↔ isDigit c = true ∧ allDigits cs = true := by
  simp [allDigits]

theorem allDigits_append (a b : Str) :
    allDigits (a ++ b) = true ↔ allDigits a = true ∧ allDigits b = true := by
  simp only [allDigits, List.all_append, Bool.and_eq_true]

/-- an all-digit string of length `n` denotes a number below `10 ^ n`. -/
theorem decVal_lt : ∀ (ds : Str), allDigits ds = true → decVal ds < 10 ^ ds.length
  | [], _ => by simp [decVal_nil]
  | c :: cs, h => by
      rw [allDigits_cons] at h
      have h9 := digitVal_le h.1
      have ih := decVal_lt cs h.2
      rw [decVal_cons, List.length_cons, Nat.pow_succ]
      have : digitVal c * 10 ^ cs.length ≤ 9 * 10 ^ cs.length := Nat.mul_le_mul_right _ h9
      omega

/-! ### decimal printing -/

theorem toDecAux_append : ∀ (fuel n : Nat) (acc : Str),
    toDecAux fuel n acc = toDecAux fuel n [] ++ acc
  | 0, n, acc => by simp [toDecAux]
  | fuel + 1, n, acc => by
      simp only [toDecAux]
      split
      · simp
      · rw [toDecAux_append fuel (n / 10) (_ :: acc), toDecAux_append fuel (n / 10) [_]]
        simp

theorem toDecAux_succ (fuel n : Nat) :
    toDecAux (fuel + 1) n [] =
      if n / 10 = 0 then [Char.ofNat (48 + n % 10)]
      else toDecAux fuel (n / 10) [] ++ [Char.ofNat (48 + n % 10)] := by
  simp only [toDecAux]
  split
  · rfl
  · rw [toDecAux_append]

theorem decVal_toDecAux : ∀ (fuel n : Nat), n < fuel → decVal (toDecAux fuel n []) = n
  | 0, n, h => by omega
  | fuel + 1, n, h => by
      rw [toDecAux_succ]
      have hd := digitVal_ofNat (n % 10) (Nat.mod_lt _ (by omega))
      split
      · rename_i h0
        simp only [decVal, List.foldl_cons, List.foldl_nil, hd]
        omega
      · rename_i h0
        rw [decVal_snoc, hd, decVal_toDecAux fuel (n / 10) (by omega)]
        omega

theorem allDigits_toDecAux : ∀ (fuel n : Nat), allDigits (toDecAux fuel n []) = true
  | 0, n => by simp [toDecAux, allDigits]
  | fuel + 1, n => by
      rw [toDecAux_succ]
      have hd := isDigit_ofNat (n % 10) (Nat.mod_lt _ (by omega))
      split
      · simp [allDigits, hd]
      · rw [allDigits_append]
        exact ⟨allDigits_toDecAux fuel (n / 10), by simp [allDigits, hd]⟩

theorem toDecAux_ne_nil (fuel n : Nat) : toDecAux (fuel + 1) n [] ≠ [] := by
  rw [toDecAux_succ]
  split <;> simp

theorem decVal_toDec (n : Nat) : decVal (toDec n) = n :=
  decVal_toDecAux (n + 1) n (by omega)

theorem allDigits_toDec (n : Nat) : allDigits (toDec n) = true :=
  allDigits_toDecAux (n + 1) n

theorem toDec_ne_nil (n : Nat) : toDec n ≠ [] :=
  toDecAux_ne_nil n n

theorem toDec_injective {a b : Nat} (h : toDec a = toDec b) : a = b := by
  have := congrArg decVal h
  rwa [decVal_toDec, decVal_toDec] at this

theorem toDec_inj {a b : Nat} : toDec a = toDec b ↔ a = b :=
  ⟨toDec_injective, fun h => h ▸ rfl⟩

end Rv.Lemmas.Dec
