import Rv.Model.Fetch
import Rv.Spec.Range
import Rv.Lemmas.Range
/-
  Rv.Lemmas.FetchB — helper lemmas and proofs for Props/C06 and Props/C09 (the
  request state machine `Rv.Fetch.handle`).  Core Lean only.

  Plan: normal forms for `onAnswer`, `fetchUpstream`, `dedupFetch` (one
  specification lemma each), a case table for `handle` (`handle_cases`), then
  every property by case analysis over that table.
-/
namespace Rv.Lemmas.FetchB
open Rv Rv.Fetch

/-- the stored `Last-Modified` as a conditional request carries it (same
    definition as `Rv.Props.C06.lmOf`). -/
def lmOf (e : CEntry) : Option Int := match e.o.lm with | .at l => some l | _ => none

/-! ### `lookup` / `erase` -/

theorem lookup_some {c : Cache} {res : Nat} {q : String} {e : CEntry} (h : lookup c res q = some e) :
    e ∈ c ∧ e.res = res ∧ e.query = q := by
  unfold lookup at h
  exact ⟨List.mem_of_find?_eq_some h, by simpa using List.find?_some h⟩

theorem lookup_cons_self (e : CEntry) (t : Cache) : lookup (e :: t) e.res e.query = some e := by
  simp [lookup]

theorem mem_erase {c : Cache} {res : Nat} {q : String} {x : CEntry} (h : x ∈ erase c res q) :
    x ∈ c ∧ ¬ (x.res = res ∧ x.query = q) := by
  unfold erase at h
  have := List.mem_filter.1 h
  refine ⟨this.1, fun hx => ?_⟩
  have h2 := this.2
  simp [hx.1, hx.2] at h2

/-! ### `onAnswer` -/

/-- the entry `handleUpstream200` writes. -/
def newEntry (cfg : Cfg) (now : Int) (u : UpReq) (o : ORes) : CEntry :=
  { res := u.res, query := u.query, o := o, expires := lifetimeEnd cfg o now, timeWritten := now }

/-- the entry after `handleUpstream304`. -/
def renewed (cfg : Cfg) (now : Int) (e : CEntry) : CEntry :=
  { e with expires := now + cfg.defaultMaxAge }

theorem onAnswer_cases (cfg : Cfg) (c : Cache) (now : Int) (u : UpReq) (a : OAns) :
    onAnswer cfg c now u a = (.direct a, c) ∨
    onAnswer cfg c now u a = (.notCacheable, c) ∨
    (∃ o, a = .full o ∧ o.status = 200 ∧ storable cfg o u.method now = true ∧ storeFails cfg o = false ∧
      onAnswer cfg c now u a = (.cached (newEntry cfg now u o) 200, newEntry cfg now u o :: erase c u.res u.query)) ∨
    (∃ o e, a = .notModified o ∧ lookup c u.res u.query = some e ∧
      onAnswer cfg c now u a = (.cached (renewed cfg now e) 304, renewed cfg now e :: erase c u.res u.query)) := by
  cases a with
  | full o =>
    by_cases h2 : o.status = 200
    · by_cases hs : storable cfg o u.method now = true
      · by_cases hf : storeFails cfg o = true
        · exact Or.inr (Or.inl (by simp only [onAnswer, h2, hs, hf, if_true]))
        · exact Or.inr (Or.inr (Or.inl ⟨o, rfl, h2, hs, by simpa using hf,
            by simp only [onAnswer, h2, hs, hf, if_true, newEntry]; trivial⟩))
      · exact Or.inl (by simp only [onAnswer, h2, hs, if_true]; trivial)
    · exact Or.inl (by simp only [onAnswer, h2, if_false])
  | notModified o =>
    cases hl : lookup c u.res u.query with
    | none => exact Or.inr (Or.inl (by simp only [onAnswer, hl]))
    | some e => exact Or.inr (Or.inr (Or.inr ⟨o, e, rfl, rfl, by simp only [onAnswer, hl, renewed]⟩))
  | partial_ o x y => exact Or.inl rfl
  | unsat o => exact Or.inl rfl
  | missing => exact Or.inl rfl

/-! ### `fetchUpstream` -/

/-- `fetchUpstream` is `onAnswer` applied to the answer to its LAST upstream
    request; the log is `[u]`, or `[u, u2]` on the 416 retry. -/
theorem fetchUpstream_spec (cfg : Cfg) (tbl : Nat → Option ORes) (c : Cache) (now : Int) (u : UpReq) (rp : Bool) :
    ∃ ul, (((fetchUpstream cfg tbl c now u rp).log = [u] ∧ ul = u ∧
              (fetchUpstream cfg tbl c now u rp).rangeDropped = false) ∨
           ((fetchUpstream cfg tbl c now u rp).log = [u, ul] ∧
              (fetchUpstream cfg tbl c now u rp).rangeDropped = rp ∧
              ul = (if rp then { u with range := none } else u))) ∧
      (fetchUpstream cfg tbl c now u rp).out = (onAnswer cfg c now ul (originAnswer tbl ul)).1 ∧
      (fetchUpstream cfg tbl c now u rp).cache = (onAnswer cfg c now ul (originAnswer tbl ul)).2 := by
  cases h : originAnswer tbl u with
  | unsat o =>
    by_cases hr : cfg.retry416 = true
    · refine ⟨if rp then { u with range := none } else u, Or.inr ?_, ?_, ?_⟩ <;>
        simp only [fetchUpstream, h, hr] <;> simp
    · refine ⟨u, Or.inl ?_, ?_, ?_⟩ <;> simp only [fetchUpstream, h, hr] <;> simp [onAnswer]
  | full o => refine ⟨u, Or.inl ?_, ?_, ?_⟩ <;> simp only [fetchUpstream, h] <;> simp
  | notModified o => refine ⟨u, Or.inl ?_, ?_, ?_⟩ <;> simp only [fetchUpstream, h] <;> simp
  | partial_ o x y => refine ⟨u, Or.inl ?_, ?_, ?_⟩ <;> simp only [fetchUpstream, h] <;> simp
  | missing => refine ⟨u, Or.inl ?_, ?_, ?_⟩ <;> simp only [fetchUpstream, h] <;> simp

theorem originAnswer_notModified {tbl : Nat → Option ORes} {u : UpReq} {o : ORes}
    (h : originAnswer tbl u = .notModified o) : u.inm ≠ "" ∨ u.ims ≠ none := by
  unfold originAnswer at h
  cases ht : tbl u.res with
  | none => simp [ht] at h
  | some o' =>
    by_cases h1 : u.inm = ""
    · cases h2 : u.ims with
      | some t => exact Or.inr (by simp)
      | none =>
        simp only [ht, h1, h2] at h
        repeat' split at h
        all_goals simp at h
        all_goals simp_all
    · exact Or.inl h1

/-- everything the later lemmas need to know about one `fetchUpstream`. -/
theorem fu_facts (cfg : Cfg) (tbl : Nat → Option ORes) (c : Cache) (now : Int) (u : UpReq) (rp : Bool) :
    (∃ rest, (fetchUpstream cfg tbl c now u rp).log = u :: rest) ∧
    (∀ x ∈ (fetchUpstream cfg tbl c now u rp).log,
      x.res = u.res ∧ x.method = u.method ∧ x.query = u.query ∧ x.inm = u.inm ∧ x.ims = u.ims) ∧
    (∀ a, (fetchUpstream cfg tbl c now u rp).out = .direct a →
      (fetchUpstream cfg tbl c now u rp).cache = c ∧
      ∃ x ∈ (fetchUpstream cfg tbl c now u rp).log, a = originAnswer tbl x) ∧
    ((fetchUpstream cfg tbl c now u rp).out = .notCacheable → (fetchUpstream cfg tbl c now u rp).cache = c) ∧
    (∀ e st, (fetchUpstream cfg tbl c now u rp).out = .cached e st →
      e ∈ (fetchUpstream cfg tbl c now u rp).cache ∧ e.res = u.res ∧ e.query = u.query ∧
      lookup (fetchUpstream cfg tbl c now u rp).cache u.res u.query = some e) := by
  obtain ⟨ul, hlog, hout, hcache⟩ := fetchUpstream_spec cfg tbl c now u rp
  have hul : ul ∈ (fetchUpstream cfg tbl c now u rp).log ∧
      ul.res = u.res ∧ ul.method = u.method ∧ ul.query = u.query ∧ ul.inm = u.inm ∧ ul.ims = u.ims := by
    rcases hlog with ⟨h1, rfl, _⟩ | ⟨h1, _, h3⟩
    · exact ⟨by simp [h1], rfl, rfl, rfl, rfl, rfl⟩
    · refine ⟨by simp [h1], ?_⟩
      cases rp <;> simp [h3]
  obtain ⟨hmem, hres, hmeth, hq, hinm, hims⟩ := hul
  refine ⟨?_, ?_, ?_, ?_, ?_⟩
  · rcases hlog with ⟨h1, _, _⟩ | ⟨h1, _, _⟩
    · exact ⟨[], h1⟩
    · exact ⟨[ul], h1⟩
  · intro x hx
    rcases hlog with ⟨h1, _, _⟩ | ⟨h1, _, _⟩
    · rw [h1] at hx
      simp only [List.mem_singleton] at hx
      subst hx
      exact ⟨rfl, rfl, rfl, rfl, rfl⟩
    · rw [h1] at hx
      simp only [List.mem_cons, List.not_mem_nil, or_false] at hx
      rcases hx with rfl | rfl
      · exact ⟨rfl, rfl, rfl, rfl, rfl⟩
      · exact ⟨hres, hmeth, hq, hinm, hims⟩
  · intro a ha
    rw [hcache]
    rw [hout] at ha
    rcases onAnswer_cases cfg c now ul (originAnswer tbl ul) with h | h | ⟨o, _, _, _, _, h⟩ | ⟨o, e, _, _, h⟩
    · rw [h] at ha ⊢
      simp only [Fetched.direct.injEq] at ha
      exact ⟨rfl, ul, hmem, ha.symm⟩
    · rw [h] at ha; cases ha
    · rw [h] at ha; cases ha
    · rw [h] at ha; cases ha
  · intro ha
    rw [hcache]
    rw [hout] at ha
    rcases onAnswer_cases cfg c now ul (originAnswer tbl ul) with h | h | ⟨o, _, _, _, _, h⟩ | ⟨o, e, _, _, h⟩
    · rw [h]
    · rw [h]
    · rw [h] at ha; cases ha
    · rw [h] at ha; cases ha
  · intro e st ha
    rw [hcache]
    rw [hout] at ha
    rcases onAnswer_cases cfg c now ul (originAnswer tbl ul) with h | h | ⟨o, _, _, _, _, h⟩ | ⟨o, e0, _, hl, h⟩
    · rw [h] at ha; cases ha
    · rw [h] at ha; cases ha
    · rw [h] at ha ⊢
      simp only [Fetched.cached.injEq] at ha
      obtain ⟨rfl, _⟩ := ha
      refine ⟨List.mem_cons_self, hres, hq, ?_⟩
      rw [hres, hq]
      have := lookup_cons_self (newEntry cfg now ul o) (erase c u.res u.query)
      simpa only [newEntry, hres, hq] using this
    · rw [h] at ha ⊢
      simp only [Fetched.cached.injEq] at ha
      obtain ⟨rfl, _⟩ := ha
      obtain ⟨_, h1, h2⟩ := lookup_some hl
      rw [hres] at h1; rw [hq] at h2
      refine ⟨List.mem_cons_self, h1, h2, ?_⟩
      rw [hres, hq]
      have := lookup_cons_self (renewed cfg now e0) (erase c u.res u.query)
      simpa only [renewed, h1, h2] using this

/-- an unconditional, uncoalesced fetch that ends with a stored entry and did
    not drop the Range stored exactly the origin's answer to `u`. -/
theorem fu_cached_unconditional (cfg : Cfg) (tbl : Nat → Option ORes) (c : Cache) (now : Int) (u : UpReq)
    (e : CEntry) (st : Nat) (hi : u.inm = "") (hs : u.ims = none)
    (hd : (fetchUpstream cfg tbl c now u true).rangeDropped = false)
    (ho : (fetchUpstream cfg tbl c now u true).out = .cached e st) :
    originAnswer tbl u = .full e.o ∧ storable cfg e.o u.method now = true ∧ e.expires = lifetimeEnd cfg e.o now := by
  obtain ⟨ul, hlog, hout, _⟩ := fetchUpstream_spec cfg tbl c now u true
  rcases hlog with ⟨_, rfl, _⟩ | ⟨_, h2, _⟩
  · rw [hout] at ho
    rcases onAnswer_cases cfg c now ul (originAnswer tbl ul) with h | h | ⟨o, ha, _, hst, _, h⟩ | ⟨o, e0, ha, _, h⟩
    · rw [h] at ho; cases ho
    · rw [h] at ho; cases ho
    · rw [h] at ho
      simp only [Fetched.cached.injEq] at ho
      obtain ⟨rfl, _⟩ := ho
      exact ⟨ha, hst, rfl⟩
    · rcases originAnswer_notModified ha with h' | h'
      · exact absurd hi h'
      · exact absurd hs h'
  · rw [hd] at h2; cases h2

/-! ### `dedupFetch` -/

/-- the conditional request built from a stale entry. -/
def condReq (r : Req) (range : Option Str) (e : CEntry) : UpReq :=
  { res := r.res, method := r.method, query := r.query, inm := e.o.etag, ims := lmOf e, range := range }

theorem directFallback_facts (tbl : Nat → Option ORes) (c : Cache) (r : Req) (range : Option Str)
    (log : List UpReq) (d : Bool) :
    (directFallback tbl c r range log d).out = .direct (originAnswer tbl (upReq r range)) ∧
    (directFallback tbl c r range log d).cache = c ∧
    (directFallback tbl c r range log d).log = log ++ [upReq r range] ∧
    (directFallback tbl c r range log d).label = .miss ∧
    (directFallback tbl c r range log d).rangeDropped = d := ⟨rfl, rfl, rfl, rfl, rfl⟩

/-- the coalesced branches of `dedupFetch` after their `fetchUpstream`. -/
def afterFetch (tbl : Nat → Option ORes) (r : Req) (range : Option Str) (label : Label) (fu : FU) : DF :=
  match fu.out with
  | .cached e st => { out := .cached e st, label := label, cache := fu.cache, log := fu.log, rangeDropped := fu.rangeDropped }
  | _ => directFallback tbl fu.cache r range fu.log fu.rangeDropped

theorem afterFetch_cases (tbl : Nat → Option ORes) (r : Req) (range : Option Str) (label : Label) (fu : FU) :
    (∃ e st, fu.out = .cached e st ∧
      afterFetch tbl r range label fu =
        { out := .cached e st, label := label, cache := fu.cache, log := fu.log, rangeDropped := fu.rangeDropped }) ∨
    ((∀ e st, fu.out ≠ .cached e st) ∧
      afterFetch tbl r range label fu = directFallback tbl fu.cache r range fu.log fu.rangeDropped) := by
  rcases fu with ⟨out, cache, log, rd⟩
  cases out with
  | notCacheable => exact Or.inr ⟨by simp, rfl⟩
  | cached e' st => exact Or.inl ⟨e', st, rfl, rfl⟩
  | direct a => exact Or.inr ⟨by simp, rfl⟩

/-- the three branches of `dedupFetch`, with the inner `fetchUpstream` named. -/
theorem dedupFetch_branches (cfg : Cfg) (tbl : Nat → Option ORes) (c : Cache) (now : Int) (r : Req)
    (range : Option Str) (rp : Bool) :
    -- uncoalesced
    ((rp = true ∨ r.method ≠ "GET") ∧
      ((fetchUpstream cfg tbl c now (upReq r range) rp).out = .notCacheable ∧
        dedupFetch cfg tbl c now r range rp =
          directFallback tbl (fetchUpstream cfg tbl c now (upReq r range) rp).cache r
            range
            (fetchUpstream cfg tbl c now (upReq r range) rp).log
            (fetchUpstream cfg tbl c now (upReq r range) rp).rangeDropped
       ∨ (fetchUpstream cfg tbl c now (upReq r range) rp).out ≠ .notCacheable ∧
        dedupFetch cfg tbl c now r range rp =
          { out := (fetchUpstream cfg tbl c now (upReq r range) rp).out, label := .miss,
            cache := (fetchUpstream cfg tbl c now (upReq r range) rp).cache,
            log := (fetchUpstream cfg tbl c now (upReq r range) rp).log,
            rangeDropped := (fetchUpstream cfg tbl c now (upReq r range) rp).rangeDropped })) ∨
    -- no entry
    (rp = false ∧ r.method = "GET" ∧ lookup c r.res r.query = none ∧
      ((∃ e st, (fetchUpstream cfg tbl c now (upReq r range) false).out = .cached e st ∧
        dedupFetch cfg tbl c now r range rp =
          { out := .cached e st, label := .miss,
            cache := (fetchUpstream cfg tbl c now (upReq r range) false).cache,
            log := (fetchUpstream cfg tbl c now (upReq r range) false).log,
            rangeDropped := (fetchUpstream cfg tbl c now (upReq r range) false).rangeDropped })
       ∨ ((∀ e st, (fetchUpstream cfg tbl c now (upReq r range) false).out ≠ .cached e st) ∧
        dedupFetch cfg tbl c now r range rp =
          directFallback tbl (fetchUpstream cfg tbl c now (upReq r range) false).cache r range
            (fetchUpstream cfg tbl c now (upReq r range) false).log
            (fetchUpstream cfg tbl c now (upReq r range) false).rangeDropped))) ∨
    -- fresh entry
    (∃ e, rp = false ∧ r.method = "GET" ∧ lookup c r.res r.query = some e ∧ ¬ e.expires < now ∧
      dedupFetch cfg tbl c now r range rp =
        { out := .cached e 0, label := .hit, cache := c, log := [], rangeDropped := false }) ∨
    -- stale entry
    (∃ e, rp = false ∧ r.method = "GET" ∧ lookup c r.res r.query = some e ∧ e.expires < now ∧
      ((∃ e' st, (fetchUpstream cfg tbl c now (condReq r range e) false).out = .cached e' st ∧
        dedupFetch cfg tbl c now r range rp =
          { out := .cached e' st, label := .revalidated,
            cache := (fetchUpstream cfg tbl c now (condReq r range e) false).cache,
            log := (fetchUpstream cfg tbl c now (condReq r range e) false).log,
            rangeDropped := (fetchUpstream cfg tbl c now (condReq r range e) false).rangeDropped })
       ∨ ((∀ e' st, (fetchUpstream cfg tbl c now (condReq r range e) false).out ≠ .cached e' st) ∧
        dedupFetch cfg tbl c now r range rp =
          directFallback tbl (fetchUpstream cfg tbl c now (condReq r range e) false).cache r range
            (fetchUpstream cfg tbl c now (condReq r range e) false).log
            (fetchUpstream cfg tbl c now (condReq r range e) false).rangeDropped))) := by
  by_cases h1 : rp = true ∨ r.method ≠ "GET"
  · refine Or.inl ⟨h1, ?_⟩
    have hc : (rp || decide (r.method ≠ "GET")) = true := by
      rcases h1 with h | h <;> simp [h]
    unfold dedupFetch dedupFetchEnv
    simp only [hc, if_true]
    cases hfo : (fetchUpstream cfg tbl c now (upReq r range) rp).out with
    | notCacheable => exact Or.inl ⟨rfl, rfl⟩
    | cached e st => exact Or.inr ⟨by simp, rfl⟩
    | direct a => exact Or.inr ⟨by simp, rfl⟩
  · have hrp : rp = false := by cases rp <;> simp_all
    have hm : r.method = "GET" := by
      by_cases hm : r.method = "GET"
      · exact hm
      · exact absurd (Or.inr hm) h1
    have hc : (rp || decide (r.method ≠ "GET")) = false := by simp [hrp, hm]
    subst hrp
    refine Or.inr ?_
    unfold dedupFetch dedupFetchEnv
    simp only [hc, Bool.false_eq_true, if_false]
    cases hl : lookup c r.res r.query with
    | none =>
      refine Or.inl ⟨trivial, hm, rfl, ?_⟩
      cases hfo : (fetchUpstream cfg tbl c now (upReq r range) false).out with
      | notCacheable => exact Or.inr ⟨by simp, rfl⟩
      | cached e st => exact Or.inl ⟨e, st, rfl, rfl⟩
      | direct a => exact Or.inr ⟨by simp, rfl⟩
    | some e =>
      refine Or.inr ?_
      by_cases hs : e.expires < now
      · refine Or.inr ⟨e, trivial, hm, rfl, hs, ?_⟩
        simp only [hs, not_true, if_false]
        exact afterFetch_cases tbl r range .revalidated (fetchUpstream cfg tbl c now (condReq r range e) false)
      · exact Or.inl ⟨e, trivial, hm, rfl, hs, by simp only [hs, not_false_eq_true, if_true]⟩

theorem upReq_unconditional (r : Req) (range : Option Str) (x : UpReq)
    (h : x.inm = (upReq r range).inm ∧ x.ims = (upReq r range).ims) : ¬ (x.inm ≠ "" ∨ x.ims ≠ none) := by
  intro hc
  rcases hc with hc | hc
  · exact hc h.1
  · exact hc h.2

/-- what the later lemmas need to know about one `dedupFetch`. -/
theorem df_facts (cfg : Cfg) (tbl : Nat → Option ORes) (c : Cache) (now : Int) (r : Req)
    (range : Option Str) (rp : Bool) :
    (dedupFetch cfg tbl c now r range rp).out ≠ .notCacheable ∧
    (∀ a, (dedupFetch cfg tbl c now r range rp).out = .direct a →
      ∃ x ∈ (dedupFetch cfg tbl c now r range rp).log, a = originAnswer tbl x) ∧
    (∀ e st, (dedupFetch cfg tbl c now r range rp).out = .cached e st →
      e ∈ (dedupFetch cfg tbl c now r range rp).cache ∧ e.res = r.res ∧ e.query = r.query) ∧
    (∀ x ∈ (dedupFetch cfg tbl c now r range rp).log, (x.inm ≠ "" ∨ x.ims ≠ none) →
      ∃ e, lookup c r.res r.query = some e ∧ e.expires < now ∧ x.inm = e.o.etag ∧ x.ims = lmOf e) := by
  rcases dedupFetch_branches cfg tbl c now r range rp with
    ⟨_, ⟨hno, heq⟩ | ⟨hno, heq⟩⟩ | ⟨_, _, _, ⟨e, st, hfo, heq⟩ | ⟨hno, heq⟩⟩ | ⟨e, _, _, hl, _, heq⟩ |
    ⟨e, _, _, hl, hs, ⟨e', st, hfo, heq⟩ | ⟨hno, heq⟩⟩
  · -- uncoalesced, cache refused
    obtain ⟨_, hlog, _, _, _⟩ := fu_facts cfg tbl c now (upReq r range) rp
    rw [heq]
    refine ⟨by simp [directFallback], ?_, ?_, ?_⟩
    · intro a ha
      simp only [directFallback, Fetched.direct.injEq] at ha
      exact ⟨_, by simp [directFallback], ha.symm⟩
    · intro e st ha
      simp [directFallback] at ha
    · intro x hx hc
      simp only [directFallback, List.mem_append, List.mem_singleton] at hx
      rcases hx with hx | rfl
      · exact absurd hc (upReq_unconditional r range x ⟨(hlog x hx).2.2.2.1, (hlog x hx).2.2.2.2⟩)
      · exact absurd hc (upReq_unconditional r _ _ ⟨rfl, rfl⟩)
  · -- uncoalesced, plain
    obtain ⟨_, hlog, hdir, _, hca⟩ := fu_facts cfg tbl c now (upReq r range) rp
    rw [heq]
    refine ⟨hno, ?_, ?_, ?_⟩
    · intro a ha
      exact (hdir a ha).2
    · intro e st ha
      obtain ⟨h1, h2, h3, _⟩ := hca e st ha
      exact ⟨h1, h2, h3⟩
    · intro x hx hc
      exact absurd hc (upReq_unconditional r range x ⟨(hlog x hx).2.2.2.1, (hlog x hx).2.2.2.2⟩)
  · -- no entry, stored
    obtain ⟨_, hlog, _, _, hca⟩ := fu_facts cfg tbl c now (upReq r range) false
    rw [heq]
    refine ⟨by simp, by simp, ?_, ?_⟩
    · intro e1 st1 ha
      simp only [Fetched.cached.injEq] at ha
      obtain ⟨rfl, rfl⟩ := ha
      obtain ⟨h1, h2, h3, _⟩ := hca _ _ hfo
      exact ⟨h1, h2, h3⟩
    · intro x hx hc
      exact absurd hc (upReq_unconditional r range x ⟨(hlog x hx).2.2.2.1, (hlog x hx).2.2.2.2⟩)
  · -- no entry, fallback
    obtain ⟨_, hlog, _, _, _⟩ := fu_facts cfg tbl c now (upReq r range) false
    rw [heq]
    refine ⟨by simp [directFallback], ?_, ?_, ?_⟩
    · intro a ha
      simp only [directFallback, Fetched.direct.injEq] at ha
      exact ⟨_, by simp [directFallback], ha.symm⟩
    · intro e st ha
      simp [directFallback] at ha
    · intro x hx hc
      simp only [directFallback, List.mem_append, List.mem_singleton] at hx
      rcases hx with hx | rfl
      · exact absurd hc (upReq_unconditional r range x ⟨(hlog x hx).2.2.2.1, (hlog x hx).2.2.2.2⟩)
      · exact absurd hc (upReq_unconditional r _ _ ⟨rfl, rfl⟩)
  · -- fresh
    rw [heq]
    refine ⟨by simp, by simp, ?_, by simp⟩
    intro e1 st1 ha
    simp only [Fetched.cached.injEq] at ha
    obtain ⟨rfl, rfl⟩ := ha
    exact lookup_some hl
  · -- stale, stored
    obtain ⟨_, hlog, _, _, hca⟩ := fu_facts cfg tbl c now (condReq r range e) false
    rw [heq]
    refine ⟨by simp, by simp, ?_, ?_⟩
    · intro e1 st1 ha
      simp only [Fetched.cached.injEq] at ha
      obtain ⟨rfl, rfl⟩ := ha
      obtain ⟨h1, h2, h3, _⟩ := hca _ _ hfo
      exact ⟨h1, h2, h3⟩
    · intro x hx _
      exact ⟨e, hl, hs, (hlog x hx).2.2.2.1, (hlog x hx).2.2.2.2⟩
  · -- stale, fallback
    obtain ⟨_, hlog, _, _, _⟩ := fu_facts cfg tbl c now (condReq r range e) false
    rw [heq]
    refine ⟨by simp [directFallback], ?_, ?_, ?_⟩
    · intro a ha
      simp only [directFallback, Fetched.direct.injEq] at ha
      exact ⟨_, by simp [directFallback], ha.symm⟩
    · intro e st ha
      simp [directFallback] at ha
    · intro x hx hc
      simp only [directFallback, List.mem_append, List.mem_singleton] at hx
      rcases hx with hx | rfl
      · exact ⟨e, hl, hs, (hlog x hx).2.2.2.1, (hlog x hx).2.2.2.2⟩
      · exact absurd hc (upReq_unconditional r _ _ ⟨rfl, rfl⟩)

/-- the uncoalesced fetch of a request whose Range parsed, when it ends with a
    stored entry and the Range is still live: that entry is the origin's answer
    to the first (unconditional) request, just stored. -/
theorem df_range_cached (cfg : Cfg) (tbl : Nat → Option ORes) (c : Cache) (now : Int) (r : Req)
    (range : Option Str) (e : CEntry) (st : Nat)
    (hd : (dedupFetch cfg tbl c now r range true).rangeDropped = false)
    (ho : (dedupFetch cfg tbl c now r range true).out = .cached e st) :
    originAnswer tbl (upReq r range) = .full e.o ∧ storable cfg e.o r.method now = true ∧
    e.expires = lifetimeEnd cfg e.o now ∧
    lookup (dedupFetch cfg tbl c now r range true).cache r.res r.query = some e := by
  rcases dedupFetch_branches cfg tbl c now r range true with
    ⟨_, ⟨hno, heq⟩ | ⟨hno, heq⟩⟩ | ⟨h, _⟩ | ⟨e, h, _⟩ | ⟨e, h, _⟩
  · rw [heq] at ho; simp [directFallback] at ho
  · rw [heq] at ho hd ⊢
    simp only at ho hd ⊢
    obtain ⟨h1, h2, h3⟩ := fu_cached_unconditional cfg tbl c now (upReq r range) e st rfl rfl hd ho
    obtain ⟨_, _, _, _, hca⟩ := fu_facts cfg tbl c now (upReq r range) true
    exact ⟨h1, h2, h3, (hca e st ho).2.2.2⟩
  · cases h
  · cases h
  · cases h

/-! ### `handle`: the case table -/

/-- the client's Range as `handleHTTP` sees it (only if it parses). -/
def parsedOf (r : Req) : Option (Int × Int) :=
  match r.range with
  | some x => (match Range.parseRangeHeader x with
      | .ok a b => some (a, b)
      | _ => none)
  | none => none

theorem parsedOf_some {r : Req} {a b : Int} (h : parsedOf r = some (a, b)) :
    ∃ x, r.range = some x ∧ Range.parseRangeHeader x = .ok a b := by
  unfold parsedOf at h
  cases hr : r.range with
  | none => simp [hr] at h
  | some x =>
    simp only [hr] at h
    cases hp : Range.parseRangeHeader x with
    | ok a' b' =>
      simp only [hp, Option.some.injEq, Prod.mk.injEq] at h
      obtain ⟨rfl, rfl⟩ := h
      exact ⟨x, rfl, hp⟩
    | panic => simp [hp] at h
    | err e => simp [hp] at h

theorem parsedOf_none_range {r : Req} (h : r.range = none) : parsedOf r = none := by
  simp [parsedOf, h]

def resp502 : Resp := { status := 502, label := .none, body := .proxyError }

def resp416 (e : CEntry) : Resp :=
  { status := 416, label := .none, body := .proxyError, unsatRange := some e.o.size }

def resp206 (r : Req) (e : CEntry) (st en : Int) : Resp :=
  { status := 206, label := .none,
    body := if r.method = "HEAD" then .empty else .stored e.o.ver st.toNat (en - st + 1).toNat,
    hdrFrom := some e.o, contentRange := some (st.toNat, en.toNat, e.o.size) }

def respRetry200 (r : Req) (e2 : CEntry) : Resp :=
  { status := 200, label := .none,
    body := if r.method = "HEAD" then .empty else .stored e2.o.ver 0 e2.o.size, hdrFrom := some e2.o }

def respRetryRelay (r : Req) (a2 : OAns) : Resp :=
  { relay a2 r.method .none with label := .none, fwdStatus := none }

/-- the first `dedupFetch` of `handle`. -/
def df1 (cfg : Cfg) (tbl : Nat → Option ORes) (c : Cache) (now : Int) (r : Req) : DF :=
  dedupFetch cfg tbl c now r r.range (parsedOf r).isSome

/-- the second one (retry without Range). -/
def df2 (cfg : Cfg) (tbl : Nat → Option ORes) (c : Cache) (now : Int) (r : Req) : DF :=
  dedupFetch cfg tbl (df1 cfg tbl c now r).cache now r none false

/-- `handle` with the parse result and the first fetch as parameters. -/
def handleAux (cfg : Cfg) (now : Int) (r : Req) (parsed : Option (Int × Int)) (df : DF) (df2 : DF) :
    Resp × Cache × List UpReq :=
  match df.out with
  | .direct a => (relay a r.method df.label, df.cache, df.log)
  | .notCacheable => (resp502, df.cache, df.log)
  | .cached e upStatus =>
    match (if parsed.isSome && !df.rangeDropped then parsed else none) with
    | none => (fullFromCache e df.label upStatus r.method now, df.cache, df.log)
    | some (a, b) =>
      match Range.sliceSize a b e.o.size with
      | none =>
        if !cfg.retryInvalidRange then (resp416 e, df.cache, df.log)
        else
          (match df2.out with
            | .cached e2 _ => (respRetry200 r e2, df2.cache, df.log ++ df2.log)
            | .direct a2 => (respRetryRelay r a2, df2.cache, df.log ++ df2.log)
            | .notCacheable => (resp502, df2.cache, df.log ++ df2.log))
      | some (st, en) =>
        if ifRangeMismatch r e then (fullFromCache e df.label upStatus r.method now, df.cache, df.log)
        else (resp206 r e st en, df.cache, df.log)

theorem handle_eq (cfg : Cfg) (tbl : Nat → Option ORes) (c : Cache) (now : Int) (r : Req) :
    handle cfg tbl c now r =
      handleAux cfg now r (parsedOf r) (df1 cfg tbl c now r) (df2 cfg tbl c now r) := rfl

/-- every way `handle` can end. -/
theorem handle_cases (cfg : Cfg) (tbl : Nat → Option ORes) (c : Cache) (now : Int) (r : Req) :
    (∃ a, (df1 cfg tbl c now r).out = .direct a ∧
      handle cfg tbl c now r =
        (relay a r.method (df1 cfg tbl c now r).label, (df1 cfg tbl c now r).cache, (df1 cfg tbl c now r).log)) ∨
    (∃ e st, (df1 cfg tbl c now r).out = .cached e st ∧
      (handle cfg tbl c now r =
          (fullFromCache e (df1 cfg tbl c now r).label st r.method now,
            (df1 cfg tbl c now r).cache, (df1 cfg tbl c now r).log) ∨
       (cfg.retryInvalidRange = false ∧
        handle cfg tbl c now r = (resp416 e, (df1 cfg tbl c now r).cache, (df1 cfg tbl c now r).log)) ∨
       (cfg.retryInvalidRange = true ∧ (parsedOf r).isSome = true ∧ (df1 cfg tbl c now r).rangeDropped = false ∧
        ((∃ e2 st2, (df2 cfg tbl c now r).out = .cached e2 st2 ∧
            handle cfg tbl c now r =
              (respRetry200 r e2, (df2 cfg tbl c now r).cache, (df1 cfg tbl c now r).log ++ (df2 cfg tbl c now r).log)) ∨
         (∃ a2, (df2 cfg tbl c now r).out = .direct a2 ∧
            handle cfg tbl c now r =
              (respRetryRelay r a2, (df2 cfg tbl c now r).cache, (df1 cfg tbl c now r).log ++ (df2 cfg tbl c now r).log)))) ∨
       (∃ x a b s en, r.range = some x ∧ Range.parseRangeHeader x = .ok a b ∧
          Range.sliceSize a b e.o.size = some (s, en) ∧ ifRangeMismatch r e = false ∧
          handle cfg tbl c now r = (resp206 r e s en, (df1 cfg tbl c now r).cache, (df1 cfg tbl c now r).log)))) := by
  rw [handle_eq]
  have hn1 : (df1 cfg tbl c now r).out ≠ .notCacheable := (df_facts cfg tbl c now r r.range _).1
  have hn2 : (df2 cfg tbl c now r).out ≠ .notCacheable :=
    (df_facts cfg tbl (df1 cfg tbl c now r).cache now r none false).1
  generalize df2 cfg tbl c now r = d2 at hn2 ⊢
  generalize df1 cfg tbl c now r = d at hn1 ⊢
  have hps := @parsedOf_some r
  generalize parsedOf r = p at hps ⊢
  rcases d with ⟨out, label, cache, log, rd⟩
  cases out with
  | notCacheable => exact absurd rfl hn1
  | direct a => exact Or.inl ⟨a, rfl, rfl⟩
  | cached e st =>
    refine Or.inr ⟨e, st, rfl, ?_⟩
    cases p with
    | none => exact Or.inl rfl
    | some ab =>
      obtain ⟨a, b⟩ := ab
      cases rd with
      | true => exact Or.inl rfl
      | false =>
        cases hss : Range.sliceSize a b e.o.size with
        | none =>
          cases hri : cfg.retryInvalidRange with
          | false => exact Or.inr (Or.inl ⟨rfl, by simp [handleAux, hss, hri]⟩)
          | true =>
            refine Or.inr (Or.inr (Or.inl ⟨rfl, rfl, rfl, ?_⟩))
            rcases d2 with ⟨out2, l2, c2, log2, rd2⟩
            cases out2 with
            | notCacheable => exact absurd rfl hn2
            | cached e2 st2 => exact Or.inl ⟨e2, st2, rfl, by simp [handleAux, hss, hri]⟩
            | direct a2 => exact Or.inr ⟨a2, rfl, by simp [handleAux, hss, hri]⟩
        | some se =>
          obtain ⟨s, en⟩ := se
          by_cases hm : ifRangeMismatch r e = true
          · exact Or.inl (by simp [handleAux, hss, hm])
          · obtain ⟨x, hx1, hx2⟩ := hps rfl
            exact Or.inr (Or.inr (Or.inr ⟨x, a, b, s, en, hx1, hx2, hss, by simpa using hm,
              by simp [handleAux, hss, hm]⟩))

/-! ### small facts about the responses -/

theorem relay_body_ne_stored (a : OAns) (m : String) (l : Label) (v st len : Nat) :
    (relay a m l).body ≠ .stored v st len := by
  unfold relay
  simp only
  split
  · simp
  · cases a with
    | full o => simp only; split <;> simp
    | notModified o => simp
    | partial_ o x y => simp
    | unsat o => simp
    | missing => simp

theorem originAnswer_status_bounds (tbl : Nat → Option ORes) (u : UpReq)
    (ho : ∀ k o, tbl k = some o → 100 ≤ o.status ∧ o.status ≤ 599) :
    100 ≤ ansStatus (originAnswer tbl u) ∧ ansStatus (originAnswer tbl u) ≤ 599 := by
  unfold originAnswer
  cases ht : tbl u.res with
  | none => simp [ansStatus]
  | some o =>
    have := ho _ _ ht
    simp only
    repeat' split
    all_goals simp only [ansStatus]
    all_goals omega

theorem gw_of_origin (tbl : Nat → Option ORes) (x : UpReq) (st : Nat)
    (h : st = ansStatus (originAnswer tbl x)) :
    st ≠ 502 ∧ st ≠ 500 ∨ ∃ u, (ansStatus (originAnswer tbl u) = 502 ∨ ansStatus (originAnswer tbl u) = 500) := by
  by_cases h1 : st = 502
  · exact Or.inr ⟨x, Or.inl (h ▸ h1)⟩
  · by_cases h2 : st = 500
    · exact Or.inr ⟨x, Or.inr (h ▸ h2)⟩
    · exact Or.inl ⟨h1, h2⟩

/-! ### C09 -/

theorem never_gateway_error (cfg : Cfg) (tbl : Nat → Option ORes) (c : Cache) (now : Int) (r : Req) :
    (handle cfg tbl c now r).1.status ≠ 502 ∧ (handle cfg tbl c now r).1.status ≠ 500
      ∨ ∃ u, (ansStatus (originAnswer tbl u) = 502 ∨ ansStatus (originAnswer tbl u) = 500) := by
  rcases handle_cases cfg tbl c now r with ⟨a, ho, heq⟩ | ⟨e, st, ho, heq | ⟨_, heq⟩ |
    ⟨_, _, _, ⟨e2, st2, ho2, heq⟩ | ⟨a2, ho2, heq⟩⟩ | ⟨x, a, b, s, en, _, _, _, _, heq⟩⟩
  · obtain ⟨x, _, hx⟩ := (df_facts cfg tbl c now r r.range _).2.1 a ho
    rw [heq]
    exact gw_of_origin tbl x _ (by rw [hx]; rfl)
  · rw [heq]; exact Or.inl ⟨by show (200 : Nat) ≠ 502; decide, by show (200 : Nat) ≠ 500; decide⟩
  · rw [heq]; exact Or.inl ⟨by simp [resp416], by simp [resp416]⟩
  · rw [heq]; exact Or.inl ⟨by simp [respRetry200], by simp [respRetry200]⟩
  · obtain ⟨x, _, hx⟩ := (df_facts cfg tbl (df1 cfg tbl c now r).cache now r none false).2.1 a2 ho2
    rw [heq]
    exact gw_of_origin tbl x _ (by rw [hx]; rfl)
  · rw [heq]; exact Or.inl ⟨by simp [resp206], by simp [resp206]⟩

theorem status_comes_from_origin (cfg : Cfg) (tbl : Nat → Option ORes) (c : Cache) (now : Int) (r : Req)
    (_hinv : ∀ e ∈ c, e.o.status = 200) :
    let st := (handle cfg tbl c now r).1.status
    (∃ u ∈ (handle cfg tbl c now r).2.2, st = ansStatus (originAnswer tbl u)) ∨ st = 200 ∨ st = 206 ∨
    (st = 416 ∧ cfg.retryInvalidRange = false ∧ ∃ e ∈ (handle cfg tbl c now r).2.1, (handle cfg tbl c now r).1.unsatRange = some e.o.size) := by
  intro st
  show (∃ u ∈ (handle cfg tbl c now r).2.2, (handle cfg tbl c now r).1.status = ansStatus (originAnswer tbl u)) ∨
    (handle cfg tbl c now r).1.status = 200 ∨ (handle cfg tbl c now r).1.status = 206 ∨
    ((handle cfg tbl c now r).1.status = 416 ∧ cfg.retryInvalidRange = false ∧
      ∃ e ∈ (handle cfg tbl c now r).2.1, (handle cfg tbl c now r).1.unsatRange = some e.o.size)
  rcases handle_cases cfg tbl c now r with ⟨a, ho, heq⟩ | ⟨e, st, ho, heq | ⟨hri, heq⟩ |
    ⟨_, _, _, ⟨e2, st2, ho2, heq⟩ | ⟨a2, ho2, heq⟩⟩ | ⟨x, a, b, s, en, _, _, _, _, heq⟩⟩
  · obtain ⟨x, hxm, hx⟩ := (df_facts cfg tbl c now r r.range _).2.1 a ho
    rw [heq]
    exact Or.inl ⟨x, hxm, by rw [hx]; rfl⟩
  · rw [heq]; exact Or.inr (Or.inl rfl)
  · rw [heq]
    exact Or.inr (Or.inr (Or.inr ⟨rfl, hri, e, ((df_facts cfg tbl c now r r.range _).2.2.1 e st ho).1, rfl⟩))
  · rw [heq]; exact Or.inr (Or.inl rfl)
  · obtain ⟨x, hxm, hx⟩ := (df_facts cfg tbl (df1 cfg tbl c now r).cache now r none false).2.1 a2 ho2
    rw [heq]
    exact Or.inl ⟨x, List.mem_append_right _ hxm, by rw [hx]; rfl⟩
  · rw [heq]; exact Or.inr (Or.inr (Or.inl rfl))

theorem status_valid (cfg : Cfg) (tbl : Nat → Option ORes) (c : Cache) (now : Int) (r : Req)
    (_hinv : ∀ e ∈ c, e.o.status = 200)
    (ho : ∀ k o, tbl k = some o → 100 ≤ o.status ∧ o.status ≤ 599) :
    100 ≤ (handle cfg tbl c now r).1.status ∧ (handle cfg tbl c now r).1.status ≤ 599 := by
  rcases handle_cases cfg tbl c now r with ⟨a, ho1, heq⟩ | ⟨e, st, ho1, heq | ⟨hri, heq⟩ |
    ⟨_, _, _, ⟨e2, st2, ho2, heq⟩ | ⟨a2, ho2, heq⟩⟩ | ⟨x, a, b, s, en, _, _, _, _, heq⟩⟩
  · obtain ⟨x, _, hx⟩ := (df_facts cfg tbl c now r r.range _).2.1 a ho1
    rw [heq, hx]
    exact originAnswer_status_bounds tbl x ho
  · rw [heq]; show 100 ≤ 200 ∧ 200 ≤ 599; decide
  · rw [heq]; simp [resp416]
  · rw [heq]; simp [respRetry200]
  · obtain ⟨x, _, hx⟩ := (df_facts cfg tbl (df1 cfg tbl c now r).cache now r none false).2.1 a2 ho2
    rw [heq, hx]
    exact originAnswer_status_bounds tbl x ho
  · rw [heq]; simp [resp206]

theorem resp206_body {r : Req} {e : CEntry} {s en : Int} {v st len : Nat}
    (hb : (resp206 r e s en).body = .stored v st len) :
    e.o.ver = v ∧ s.toNat = st ∧ (en - s + 1).toNat = len := by
  simp only [resp206] at hb
  split at hb
  · cases hb
  · simpa using hb

theorem full_body {m : String} {e : CEntry} {v st len : Nat}
    (hb : (if m = "HEAD" then Body.empty else Body.stored e.o.ver 0 e.o.size) = .stored v st len) :
    e.o.ver = v ∧ st = 0 ∧ len = e.o.size := by
  split at hb
  · cases hb
  · simp only [Body.stored.injEq] at hb
    exact ⟨hb.1, hb.2.1.symm, hb.2.2.symm⟩

theorem served_206_exact (cfg : Cfg) (tbl : Nat → Option ORes) (c : Cache) (now : Int) (r : Req) (v st len : Nat)
    (h : (handle cfg tbl c now r).1.status = 206) (hb : (handle cfg tbl c now r).1.body = .stored v st len) :
    ∃ e ∈ (handle cfg tbl c now r).2.1, e.o.ver = v ∧ 0 < len ∧ st + len ≤ e.o.size ∧
      (handle cfg tbl c now r).1.contentRange = some (st, st + len - 1, e.o.size) ∧
      (handle cfg tbl c now r).1.hdrFrom = some e.o ∧
      (∀ x sp, r.range = some x → Rv.Spec.Range.wellFormedSingle x = some sp →
        Rv.Spec.Range.resolve sp e.o.size = some (st, st + len - 1)) := by
  rcases handle_cases cfg tbl c now r with ⟨a, ho, heq⟩ | ⟨e, st', ho, heq | ⟨hri, heq⟩ |
    ⟨_, _, _, ⟨e2, st2, ho2, heq⟩ | ⟨a2, ho2, heq⟩⟩ | ⟨x, a, b, s, en, hx1, hx2, hss, _, heq⟩⟩
  · rw [heq] at hb
    exact absurd hb (relay_body_ne_stored _ _ _ _ _ _)
  · rw [heq] at h; exact absurd h (by show (200 : Nat) ≠ 206; decide)
  · rw [heq] at h; exact absurd h (by show (416 : Nat) ≠ 206; decide)
  · rw [heq] at h; exact absurd h (by show (200 : Nat) ≠ 206; decide)
  · rw [heq] at hb
    exact absurd hb (relay_body_ne_stored a2 r.method .none _ _ _)
  · rw [heq] at hb ⊢
    obtain ⟨hv, hs, hl⟩ := resp206_body hb
    obtain ⟨h0, h1, h2⟩ := Rv.Lemmas.Range.sliceSize_inside _ _ _ _ _ hss
    have hen : en.toNat = st + len - 1 := by omega
    refine ⟨e, ((df_facts cfg tbl c now r r.range _).2.2.1 e st' ho).1, hv, by omega, by omega, ?_, rfl, ?_⟩
    · show some (s.toNat, en.toNat, e.o.size) = _
      rw [hs, hen]
    · intro x' sp hx' hw
      rw [hx1] at hx'
      cases hx'
      have hout : Range.outcome x (e.o.size : Nat) = .slice s en := by
        simp only [Range.outcome, hx2, hss]
      have := (Rv.Lemmas.Range.slice_is_requested x sp e.o.size s en hw hout).1
      rw [hs, hen] at this
      exact this

theorem stored_body_paired (cfg : Cfg) (tbl : Nat → Option ORes) (c : Cache) (now : Int) (r : Req) (v st len : Nat)
    (hb : (handle cfg tbl c now r).1.body = .stored v st len) :
    ∃ o, (handle cfg tbl c now r).1.hdrFrom = some o ∧ o.ver = v ∧ st + len ≤ o.size ∧
      ((handle cfg tbl c now r).1.status = 200 → st = 0 ∧ len = o.size) := by
  rcases handle_cases cfg tbl c now r with ⟨a, ho, heq⟩ | ⟨e, st', ho, heq | ⟨hri, heq⟩ |
    ⟨_, _, _, ⟨e2, st2, ho2, heq⟩ | ⟨a2, ho2, heq⟩⟩ | ⟨x, a, b, s, en, hx1, hx2, hss, _, heq⟩⟩
  · rw [heq] at hb
    exact absurd hb (relay_body_ne_stored _ _ _ _ _ _)
  · rw [heq] at hb ⊢
    obtain ⟨hv, hs, hl⟩ := full_body (e := e) hb
    exact ⟨e.o, rfl, hv, by omega, fun _ => ⟨hs, hl⟩⟩
  · rw [heq] at hb; cases hb
  · rw [heq] at hb ⊢
    obtain ⟨hv, hs, hl⟩ := full_body (e := e2) hb
    exact ⟨e2.o, rfl, hv, by omega, fun _ => ⟨hs, hl⟩⟩
  · rw [heq] at hb
    exact absurd hb (relay_body_ne_stored a2 r.method .none _ _ _)
  · rw [heq] at hb ⊢
    obtain ⟨hv, hs, hl⟩ := resp206_body hb
    obtain ⟨h0, h1, h2⟩ := Rv.Lemmas.Range.sliceSize_inside _ _ _ _ _ hss
    refine ⟨e.o, rfl, hv, by omega, fun h => ?_⟩
    exact absurd h (by show (206 : Nat) ≠ 200; decide)

theorem if_range_mismatch_full (cfg : Cfg) (tbl : Nat → Option ORes) (c : Cache) (now : Int) (r : Req)
    (h : (handle cfg tbl c now r).1.status = 206)
    (hnr : ∀ u ∈ (handle cfg tbl c now r).2.2, ansStatus (originAnswer tbl u) ≠ 206) :
    ∃ e ∈ (handle cfg tbl c now r).2.1, e.res = r.res ∧ e.query = r.query ∧ ifRangeMismatch r e = false := by
  rcases handle_cases cfg tbl c now r with ⟨a, ho, heq⟩ | ⟨e, st', ho, heq | ⟨hri, heq⟩ |
    ⟨_, _, _, ⟨e2, st2, ho2, heq⟩ | ⟨a2, ho2, heq⟩⟩ | ⟨x, a, b, s, en, hx1, hx2, hss, hir, heq⟩⟩
  · obtain ⟨x, hxm, hx⟩ := (df_facts cfg tbl c now r r.range _).2.1 a ho
    rw [heq] at h hnr
    exact absurd (hx ▸ h) (hnr x hxm)
  · rw [heq] at h; exact absurd h (by show (200 : Nat) ≠ 206; decide)
  · rw [heq] at h; exact absurd h (by show (416 : Nat) ≠ 206; decide)
  · rw [heq] at h; exact absurd h (by show (200 : Nat) ≠ 206; decide)
  · obtain ⟨x, hxm, hx⟩ := (df_facts cfg tbl (df1 cfg tbl c now r).cache now r none false).2.1 a2 ho2
    rw [heq] at h hnr
    exact absurd (hx ▸ h) (hnr x (List.mem_append_right _ hxm))
  · rw [heq]
    obtain ⟨hm, h1, h2⟩ := (df_facts cfg tbl c now r r.range _).2.2.1 e st' ho
    exact ⟨e, hm, h1, h2, hir⟩

/-! ### C06 -/

theorem conditionals_come_from_the_store (cfg : Cfg) (tbl : Nat → Option ORes) (c : Cache) (now : Int) (r : Req) (u : UpReq)
    (hu : u ∈ (handle cfg tbl c now r).2.2) (hc : u.inm ≠ "" ∨ u.ims ≠ none) :
    ∃ e, (lookup c r.res r.query = some e ∨
          (cfg.retryInvalidRange = true ∧ originAnswer tbl (upReq r r.range) = .full e.o ∧
           storable cfg e.o r.method now = true ∧ e.expires = lifetimeEnd cfg e.o now)) ∧
      e.expires < now ∧ u.inm = e.o.etag ∧ u.ims = lmOf e := by
  have first : u ∈ (df1 cfg tbl c now r).log → ∃ e, (lookup c r.res r.query = some e ∨
          (cfg.retryInvalidRange = true ∧ originAnswer tbl (upReq r r.range) = .full e.o ∧
           storable cfg e.o r.method now = true ∧ e.expires = lifetimeEnd cfg e.o now)) ∧
      e.expires < now ∧ u.inm = e.o.etag ∧ u.ims = lmOf e := by
    intro hu
    obtain ⟨e, h1, h2, h3, h4⟩ := (df_facts cfg tbl c now r r.range _).2.2.2 u hu hc
    exact ⟨e, Or.inl h1, h2, h3, h4⟩
  have second : cfg.retryInvalidRange = true → (parsedOf r).isSome = true →
      (df1 cfg tbl c now r).rangeDropped = false → ∀ e st, (df1 cfg tbl c now r).out = .cached e st →
      u ∈ (df2 cfg tbl c now r).log → ∃ e, (lookup c r.res r.query = some e ∨
          (cfg.retryInvalidRange = true ∧ originAnswer tbl (upReq r r.range) = .full e.o ∧
           storable cfg e.o r.method now = true ∧ e.expires = lifetimeEnd cfg e.o now)) ∧
      e.expires < now ∧ u.inm = e.o.etag ∧ u.ims = lmOf e := by
    intro hri hp hd e st ho hu
    obtain ⟨e', h1, h2, h3, h4⟩ :=
      (df_facts cfg tbl (df1 cfg tbl c now r).cache now r none false).2.2.2 u hu hc
    unfold df1 at hd ho h1
    rw [hp] at hd ho h1
    obtain ⟨g1, g2, g3, g4⟩ := df_range_cached cfg tbl c now r r.range e st hd ho
    rw [g4] at h1
    cases h1
    exact ⟨e, Or.inr ⟨hri, g1, g2, g3⟩, h2, h3, h4⟩
  rcases handle_cases cfg tbl c now r with ⟨a, ho, heq⟩ | ⟨e, st', ho, heq | ⟨hri, heq⟩ |
    ⟨hri, hp, hd, ⟨e2, st2, ho2, heq⟩ | ⟨a2, ho2, heq⟩⟩ | ⟨x, a, b, s, en, hx1, hx2, hss, hir, heq⟩⟩
  · rw [heq] at hu; exact first hu
  · rw [heq] at hu; exact first hu
  · rw [heq] at hu; exact first hu
  · rw [heq] at hu
    rcases List.mem_append.1 hu with hu | hu
    · exact first hu
    · exact second hri hp hd e st' ho hu
  · rw [heq] at hu
    rcases List.mem_append.1 hu with hu | hu
    · exact first hu
    · exact second hri hp hd e st' ho hu
  · rw [heq] at hu; exact first hu

/-! ### a plain GET (no Range) for a stale entry / for no entry -/

theorem dedupFetch_stale (cfg : Cfg) (tbl : Nat → Option ORes) (c : Cache) (now : Int) (r : Req)
    (range : Option Str) (e : CEntry)
    (hm : r.method = "GET") (he : lookup c r.res r.query = some e) (hs : e.expires < now) :
    dedupFetch cfg tbl c now r range false =
      afterFetch tbl r range .revalidated (fetchUpstream cfg tbl c now (condReq r range e) false) := by
  unfold dedupFetch dedupFetchEnv
  simp only [hm, he, hs, ne_eq, not_true, decide_false, Bool.or_self, Bool.false_eq_true, if_false]
  rfl

theorem dedupFetch_noentry (cfg : Cfg) (tbl : Nat → Option ORes) (c : Cache) (now : Int) (r : Req)
    (range : Option Str)
    (hm : r.method = "GET") (hl : lookup c r.res r.query = none) :
    dedupFetch cfg tbl c now r range false =
      afterFetch tbl r range .miss (fetchUpstream cfg tbl c now (upReq r range) false) := by
  unfold dedupFetch dedupFetchEnv
  simp only [hm, hl, ne_eq, not_true, decide_false, Bool.or_self, Bool.false_eq_true, if_false]
  rfl

/-- `handle` for a request without Range header, after the coalesced fetch `fu`. -/
def plainStep (tbl : Nat → Option ORes) (now : Int) (r : Req) (label : Label) (fu : FU) :
    Resp × Cache × List UpReq :=
  match fu.out with
  | .cached e' st => (fullFromCache e' label st r.method now, fu.cache, fu.log)
  | _ => (relay (originAnswer tbl (upReq r none)) r.method .miss, fu.cache, fu.log ++ [upReq r none])

theorem handleAux_plain (cfg : Cfg) (tbl : Nat → Option ORes) (now : Int) (r : Req) (label : Label) (fu : FU) (d2 : DF) :
    handleAux cfg now r none (afterFetch tbl r none label fu) d2 = plainStep tbl now r label fu := by
  rcases fu with ⟨out, cache, log, rd⟩
  cases out <;> rfl

theorem handle_stale (cfg : Cfg) (tbl : Nat → Option ORes) (c : Cache) (now : Int) (r : Req) (e : CEntry)
    (hm : r.method = "GET") (hr : r.range = none) (he : lookup c r.res r.query = some e) (hs : e.expires < now) :
    handle cfg tbl c now r =
      plainStep tbl now r .revalidated (fetchUpstream cfg tbl c now (condReq r none e) false) := by
  have h1 : df1 cfg tbl c now r =
      afterFetch tbl r none .revalidated (fetchUpstream cfg tbl c now (condReq r none e) false) := by
    unfold df1
    rw [parsedOf_none_range hr, hr]
    exact dedupFetch_stale cfg tbl c now r none e hm he hs
  rw [handle_eq, parsedOf_none_range hr, h1, handleAux_plain]

theorem handle_noentry (cfg : Cfg) (tbl : Nat → Option ORes) (c : Cache) (now : Int) (r : Req)
    (hm : r.method = "GET") (hr : r.range = none) (hl : lookup c r.res r.query = none) :
    handle cfg tbl c now r =
      plainStep tbl now r .miss (fetchUpstream cfg tbl c now (upReq r none) false) := by
  have h1 : df1 cfg tbl c now r =
      afterFetch tbl r none .miss (fetchUpstream cfg tbl c now (upReq r none) false) := by
    unfold df1
    rw [parsedOf_none_range hr, hr]
    exact dedupFetch_noentry cfg tbl c now r none hm hl
  rw [handle_eq, parsedOf_none_range hr, h1, handleAux_plain]

theorem fetchUpstream_full (cfg : Cfg) (tbl : Nat → Option ORes) (c : Cache) (now : Int) (u : UpReq) (rp : Bool)
    (o : ORes) (ha : originAnswer tbl u = .full o) :
    fetchUpstream cfg tbl c now u rp =
      { out := (onAnswer cfg c now u (.full o)).1, cache := (onAnswer cfg c now u (.full o)).2,
        log := [u], rangeDropped := false } := by
  simp only [fetchUpstream, ha]

theorem fetchUpstream_notModified (cfg : Cfg) (tbl : Nat → Option ORes) (c : Cache) (now : Int) (u : UpReq) (rp : Bool)
    (o : ORes) (ha : originAnswer tbl u = .notModified o) :
    fetchUpstream cfg tbl c now u rp =
      { out := (onAnswer cfg c now u (.notModified o)).1, cache := (onAnswer cfg c now u (.notModified o)).2,
        log := [u], rangeDropped := false } := by
  simp only [fetchUpstream, ha]

theorem condReq_get (r : Req) (e : CEntry) (hm : r.method = "GET") :
    condReq r none e =
      { res := r.res, method := "GET", query := r.query, inm := e.o.etag, ims := lmOf e, range := none } := by
  simp only [condReq, hm]

theorem reval_uses_stored (cfg : Cfg) (tbl : Nat → Option ORes) (c : Cache) (now : Int) (r : Req) (e : CEntry)
    (hm : r.method = "GET") (hr : r.range = none) (he : lookup c r.res r.query = some e) (hs : e.expires < now) :
    ∃ rest, (handle cfg tbl c now r).2.2 =
      { res := r.res, method := "GET", query := r.query, inm := e.o.etag, ims := lmOf e, range := none } :: rest := by
  rw [handle_stale cfg tbl c now r e hm hr he hs, ← condReq_get r e hm]
  obtain ⟨rest, hlog⟩ := (fu_facts cfg tbl c now (condReq r none e) false).1
  unfold plainStep
  split
  · exact ⟨rest, hlog⟩
  · exact ⟨rest ++ [upReq r none], by simp only [hlog]; rfl⟩

theorem on_304 (cfg : Cfg) (tbl : Nat → Option ORes) (c : Cache) (now : Int) (r : Req) (e : CEntry) (o' : ORes)
    (hm : r.method = "GET") (hr : r.range = none) (he : lookup c r.res r.query = some e) (hs : e.expires < now)
    (ha : originAnswer tbl { res := r.res, method := "GET", query := r.query, inm := e.o.etag, ims := lmOf e, range := none } = .notModified o') :
    lookup (handle cfg tbl c now r).2.1 r.res r.query = some { e with expires := now + cfg.defaultMaxAge } ∧
    (handle cfg tbl c now r).1.label = .revalidated ∧ (handle cfg tbl c now r).1.body = .stored e.o.ver 0 e.o.size := by
  rw [← condReq_get r e hm] at ha
  have he' : lookup c (condReq r none e).res (condReq r none e).query = some e := he
  have hoa : onAnswer cfg c now (condReq r none e) (.notModified o') =
      (.cached (renewed cfg now e) 304, renewed cfg now e :: erase c r.res r.query) := by
    simp only [onAnswer, he']; rfl
  have hne : r.method ≠ "HEAD" := by rw [hm]; decide
  obtain ⟨_, h1, h2⟩ := lookup_some he
  rw [handle_stale cfg tbl c now r e hm hr he hs, fetchUpstream_notModified cfg tbl c now _ _ o' ha, hoa]
  refine ⟨?_, rfl, ?_⟩
  · show lookup (renewed cfg now e :: erase c r.res r.query) r.res r.query = some (renewed cfg now e)
    have := lookup_cons_self (renewed cfg now e) (erase c r.res r.query)
    simpa only [renewed, h1, h2] using this
  · show (if r.method = "HEAD" then Body.empty else Body.stored e.o.ver 0 e.o.size) = _
    rw [if_neg hne]

theorem on_200_replaced (cfg : Cfg) (tbl : Nat → Option ORes) (c : Cache) (now : Int) (r : Req) (e : CEntry) (o' : ORes)
    (hm : r.method = "GET") (hr : r.range = none) (he : lookup c r.res r.query = some e) (hs : e.expires < now)
    (ha : originAnswer tbl { res := r.res, method := "GET", query := r.query, inm := e.o.etag, ims := lmOf e, range := none } = .full o')
    (h2 : o'.status = 200) (hst : storable cfg o' "GET" now = true) (hf : storeFails cfg o' = false) :
    (∀ x ∈ (handle cfg tbl c now r).2.1, x.res = r.res → x.query = r.query → x.o = o') ∧
    (handle cfg tbl c now r).1.body = .stored o'.ver 0 o'.size ∧ (handle cfg tbl c now r).1.label = .revalidated := by
  rw [← condReq_get r e hm] at ha
  have hst' : storable cfg o' (condReq r none e).method now = true := by
    show storable cfg o' r.method now = true
    rw [hm]; exact hst
  have hoa : onAnswer cfg c now (condReq r none e) (.full o') =
      (.cached (newEntry cfg now (condReq r none e) o') 200,
        newEntry cfg now (condReq r none e) o' :: erase c r.res r.query) := by
    simp only [onAnswer, h2, hst', hf, if_true]; rfl
  have hne : r.method ≠ "HEAD" := by rw [hm]; decide
  rw [handle_stale cfg tbl c now r e hm hr he hs, fetchUpstream_full cfg tbl c now _ _ o' ha, hoa]
  refine ⟨?_, ?_, rfl⟩
  · intro x hx h1 h2
    have hx' : x ∈ newEntry cfg now (condReq r none e) o' :: erase c r.res r.query := hx
    rcases List.mem_cons.1 hx' with rfl | hx'
    · rfl
    · exact absurd ⟨h1, h2⟩ (mem_erase hx').2
  · show (if r.method = "HEAD" then Body.empty else Body.stored o'.ver 0 o'.size) = _
    rw [if_neg hne]

theorem other_answer_relayed_not_stored (cfg : Cfg) (tbl : Nat → Option ORes) (c : Cache) (now : Int) (r : Req) (e : CEntry) (o' : ORes)
    (hm : r.method = "GET") (hr : r.range = none) (he : lookup c r.res r.query = some e) (hs : e.expires < now)
    (ha : originAnswer tbl { res := r.res, method := "GET", query := r.query, inm := e.o.etag, ims := lmOf e, range := none } = .full o')
    (hn : o'.status ≠ 200 ∨ storable cfg o' "GET" now = false) :
    (handle cfg tbl c now r).2.1 = c ∧
    (handle cfg tbl c now r).1.status = ansStatus (originAnswer tbl (upReq r none)) := by
  rw [← condReq_get r e hm] at ha
  have hoa : onAnswer cfg c now (condReq r none e) (.full o') = (.direct (.full o'), c) := by
    rcases hn with hn | hn
    · simp only [onAnswer, hn, if_false]
    · have hst' : storable cfg o' (condReq r none e).method now = false := by
        show storable cfg o' r.method now = false
        rw [hm]; exact hn
      by_cases h2 : o'.status = 200
      · simp only [onAnswer, h2, hst', if_true, Bool.false_eq_true, if_false]
      · simp only [onAnswer, h2, if_false]
  rw [handle_stale cfg tbl c now r e hm hr he hs, fetchUpstream_full cfg tbl c now _ _ o' ha, hoa]
  exact ⟨rfl, rfl⟩

theorem empty_body_still_served (cfg : Cfg) (tbl : Nat → Option ORes) (c : Cache) (now : Int) (r : Req) (o : ORes)
    (hm : r.method = "GET") (hr : r.range = none) (hl : lookup c r.res r.query = none)
    (ho : originAnswer tbl (upReq r none) = .full o) (h2 : o.status = 200) (hf : storeFails cfg o = true) :
    (handle cfg tbl c now r).1.status = 200 ∧ (handle cfg tbl c now r).1.body = .origin o.ver 0 o.size ∧
    (handle cfg tbl c now r).2.1 = c := by
  have hne : r.method ≠ "HEAD" := by rw [hm]; decide
  have hrel : (relay (.full o) r.method .miss).status = 200 ∧
      (relay (.full o) r.method .miss).body = .origin o.ver 0 o.size := by
    refine ⟨h2, ?_⟩
    simp only [relay, hne, if_false, h2]
    rfl
  have hoa : onAnswer cfg c now (upReq r none) (.full o) = (.notCacheable, c) ∨
      onAnswer cfg c now (upReq r none) (.full o) = (.direct (.full o), c) := by
    by_cases hs : storable cfg o (upReq r none).method now = true
    · exact Or.inl (by simp only [onAnswer, h2, hs, hf, if_true])
    · exact Or.inr (by simp only [onAnswer, h2, hs, if_true, Bool.false_eq_true, if_false])
  rw [handle_noentry cfg tbl c now r hm hr hl, fetchUpstream_full cfg tbl c now _ _ o ho]
  rcases hoa with hoa | hoa <;> rw [hoa] <;> simp only [plainStep, ho] <;> exact ⟨hrel.1, hrel.2, trivial⟩

end Rv.Lemmas.FetchB
