import Rv.Model.SrcStr
import Rv.Lemmas.Range
/-
  Rv.Lemmas.SrcParse — helper lemmas for Props/SrcRangeParse and
  Props/SrcByteSizeParse: character comparisons as facts about `toNat` (so that
  `omega` decides them), Go's truncated division on non-negative operands, and
  the string primitives of Rv.Model.SrcStr in terms of the list operations the
  hand-written models use.
-/
namespace Rv.Lemmas.SrcParse
open Rv Rv.SrcStr

/-! ### characters: everything becomes arithmetic on `toNat` -/

theorem char_lt (a b : Char) : a < b ↔ a.toNat < b.toNat := by
  rw [Char.lt_def, UInt32.lt_iff_toNat_lt]; rfl

theorem char_le (a b : Char) : a ≤ b ↔ a.toNat ≤ b.toNat := by
  rw [Char.le_def, UInt32.le_iff_toNat_le]; rfl

theorem char_eq (a b : Char) : a = b ↔ a.toNat = b.toNat := Char.toNat_inj.symm

theorem char_beq (a b : Char) : (a == b) = decide (a.toNat = b.toNat) := by
  by_cases h : a = b
  · subst h; simp
  · have : a.toNat ≠ b.toNat := fun e => h (Char.toNat_inj.mp e)
    simp [h, this]

theorem char_bne (a b : Char) : (a != b) = decide (a.toNat ≠ b.toNat) := by
  simp [bne, char_beq]

theorem isDigit_iff (c : Char) : isDigit c = true ↔ 48 ≤ c.toNat ∧ c.toNat ≤ 57 := by
  simp [isDigit, char_le]

theorem isDigit_false_iff (c : Char) : isDigit c = false ↔ c.toNat < 48 ∨ 57 < c.toNat := by
  have h1 := isDigit_iff c
  cases h : isDigit c
  · rw [h] at h1
    have h2 : ¬ (48 ≤ c.toNat ∧ c.toNat ≤ 57) := fun hh => by have := h1.mpr hh; contradiction
    simp only [true_iff]; omega
  · have := h1.mp h; simp only [Bool.true_eq_false, false_iff]; omega

/-! ### Go's `/` on int64 truncates; on non-negative operands it is `Int`'s `/` -/

theorem tdiv_nonneg (a b : Int) (h : 0 ≤ a) : Int.tdiv a b = a / b :=
  Int.tdiv_eq_ediv_of_nonneg h

/-! ### the primitives of Rv.Model.SrcStr -/

theorem byteAt_nat (x : Str) (k : Nat) : byteAt x (k : Int) = x[k]? := by
  unfold byteAt; simp; omega

theorem byteAt_zero_cons (c : Char) (cs : Str) : byteAt (c :: cs) 0 = some c := by
  simp [byteAt]

theorem byteAt_lt (x : Str) (i : Int) (h0 : 0 ≤ i) (h : i < x.length) : byteAt x i = some (x[i.toNat]'(by omega)) := by
  unfold byteAt
  have : ¬ i < 0 := by omega
  rw [if_neg this]
  exact List.getElem?_eq_getElem (by omega)

theorem sliceFrom_nat (x : Str) (k : Nat) (h : k ≤ x.length) : sliceFrom x (k : Int) = some (x.drop k) := by
  unfold sliceFrom
  have : ¬ ((k : Int) < 0 ∨ (k : Int) > x.length) := by omega
  rw [if_neg this]; simp

/-- `s[k:]` with the bound check as a test on naturals -/
theorem sliceFrom_cast (x : Str) (k : Nat) : sliceFrom x (k : Int) = if k ≤ x.length then some (x.drop k) else none := by
  unfold sliceFrom
  by_cases h : k ≤ x.length
  · have : ¬ ((k : Int) < 0 ∨ (k : Int) > x.length) := by omega
    rw [if_neg this, if_pos h]; simp
  · have : ((k : Int) < 0 ∨ (k : Int) > x.length) := by omega
    rw [if_pos this, if_neg h]

theorem pair_len (a b : Str) : (([a, b] : List Str).length : Int) = 2 := rfl
theorem single_len (a : Str) : (([a] : List Str).length : Int) = 1 := rfl
theorem strAt_pair0 (a b : Str) : strAt [a, b] 0 = some a := by simp [strAt]
theorem strAt_pair1 (a b : Str) : strAt [a, b] 1 = some b := by simp [strAt]

theorem one_cast : (1 : Int) = ((1 : Nat) : Int) := rfl
theorem zero_cast : (0 : Int) = ((0 : Nat) : Int) := rfl

/-- every Int expression built from casts of naturals, `+` and the literals 0 and 1 is folded into ONE cast; the
    string primitives and the comparisons on casts then become their `Nat`/list counterparts. -/
macro "fold_casts" : tactic => `(tactic|
  simp only [one_cast, zero_cast, ← Int.natCast_add, byteAt_nat, sliceFrom_cast, Int.ofNat_lt, Int.ofNat_le,
    ge_iff_le, gt_iff_lt])

theorem splitN2_none (c : Char) (x : Str) (h : cutAt c x = none) : splitN2 c x = [x] := by
  simp [splitN2, h]

theorem splitN2_some (c : Char) (x a b : Str) (h : cutAt c x = some (a, b)) : splitN2 c x = [a, b] := by
  simp [splitN2, h]

end Rv.Lemmas.SrcParse
