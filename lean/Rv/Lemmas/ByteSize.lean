import Rv.Model.ByteSize
import Rv.Lemmas.Dec
/-
  Rv.Lemmas.ByteSize — helper lemmas and proofs for Props/C17a.
-/
namespace Rv.Lemmas.ByteSize
open Rv Rv.ByteSize Rv.Lemmas.Dec

/-! ### units -/

/-- a unit rune is one of the five letters, never a digit, and its size is positive. -/
theorem unitOf_some {c : Char} {m : Nat} (h : unitOf c = some m) :
    isDigit c = false ∧ 0 < m ∧ m ≤ 1024 * 1024 * 1024 * 1024 := by
  unfold unitOf at h
  repeat' split at h
  all_goals try (cases h; done)
  all_goals
    rename_i hc
    subst hc
    simp only [Option.some.injEq] at h
    subst h
    decide

theorem mem_units_unitOf : ∀ u ∈ units, unitOf u.1 = some u.2 := by decide

theorem units_size_inj : ∀ u ∈ units, ∀ v ∈ units, u.2 = v.2 → u = v := by decide

/-! ### the parse loop -/

/-- the overflow test on one more digit is exact. -/
theorem digit_overflow_iff (num d : Nat) (hd : d ≤ 9) :
    num > (maxI64 - d) / 10 ↔ maxI64 < num * 10 + d := by
  simp only [maxI64]; omega

/-- the final overflow test is exact. -/
theorem mult_overflow_iff (num m : Nat) (hm : 0 < m) :
    num > maxI64 / m ↔ maxI64 < num * m := by
  show maxI64 / m < num ↔ _
  exact Nat.div_lt_iff_lt_mul hm

theorem parseLoop_nil (num mult : Nat) (fu fd : Bool) :
    parseLoop [] num mult fu fd =
      if !fd || !fu then .err .invalidFormat
      else if num > maxI64 / mult then .err .invalidFormat
      else .ok (num * mult) := by
  simp only [parseLoop]

theorem parseLoop_digit (c : Char) (cs : Str) (num mult : Nat) (fd : Bool)
    (hc : isDigit c = true) :
    parseLoop (c :: cs) num mult false fd =
      if maxI64 < num * 10 + digitVal c then .err .invalidFormat
      else parseLoop cs (num * 10 + digitVal c) mult false true := by
  have h := digit_overflow_iff num (digitVal c) (digitVal_le hc)
  simp only [parseLoop, hc, if_true, Bool.false_eq_true, if_false]
  by_cases hlt : maxI64 < num * 10 + digitVal c
  · rw [if_pos (h.mpr hlt), if_pos hlt]
  · rw [if_neg (fun g => hlt (h.mp g)), if_neg hlt]

theorem parseLoop_unit (c : Char) (cs : Str) (num mult m : Nat) (fd : Bool)
    (hu : unitOf c = some m) :
    parseLoop (c :: cs) num mult false fd = parseLoop cs num m true fd := by
  have hc := (unitOf_some hu).1
  simp only [parseLoop, hc, Bool.false_eq_true, if_false, hu]

/-- running the loop over a block of digits. -/
theorem parseLoop_digits (rest : Str) (mult : Nat) :
    ∀ (ds : Str) (num : Nat) (fd : Bool), allDigits ds = true → num ≤ maxI64 →
      parseLoop (ds ++ rest) num mult false fd =
        if val num ds ≤ maxI64 then parseLoop rest (val num ds) mult false (fd || !ds.isEmpty)
        else .err .invalidFormat
  | [], num, fd, _, hn => by
      simp only [List.nil_append, val_nil, List.isEmpty_nil, Bool.not_true, Bool.or_false]
      rw [if_pos hn]
  | c :: cs, num, fd, hd, hn => by
      rw [allDigits_cons] at hd
      obtain ⟨hc, hcs⟩ := hd
      rw [List.cons_append, parseLoop_digit c _ num mult fd hc, val_cons]
      split
      · rename_i hgt
        have := val_ge cs (num * 10 + digitVal c)
        rw [if_neg (by omega)]
      · rw [parseLoop_digits rest mult cs _ true hcs (by omega)]
        simp

/-- the loop on a single trailing unit rune. -/
theorem parseLoop_last (u : Char) (num mult m : Nat) (hu : unitOf u = some m) :
    parseLoop [u] num mult false true =
      if num * m ≤ maxI64 then .ok (num * m) else .err .invalidFormat := by
  have hm := (unitOf_some hu).2.1
  have h := mult_overflow_iff num m hm
  rw [parseLoop_unit u [] num mult m true hu, parseLoop_nil]
  simp only [Bool.not_true, Bool.or_self, Bool.false_eq_true, if_false]
  by_cases hle : num * m ≤ maxI64
  · rw [if_neg (fun g => by have := h.mp g; omega), if_pos hle]
  · rw [if_pos (h.mpr (by omega)), if_neg hle]

theorem accepts (ds : Str) (u : Char) (m : Nat) (hd : ds ≠ []) (ha : allDigits ds = true)
    (hu : unitOf u = some m) (hv : decVal ds * m ≤ maxI64) :
    parse (ds ++ [u]) = .ok (decVal ds * m) := by
  have hm := (unitOf_some hu).2.1
  have hle : decVal ds ≤ maxI64 := by
    have : decVal ds * 1 ≤ decVal ds * m := Nat.mul_le_mul_left _ hm
    omega
  have hne : ds.isEmpty = false := by
    cases ds with
    | nil => exact absurd rfl hd
    | cons c cs => rfl
  unfold parse
  rw [if_neg (by simp), parseLoop_digits [u] 1 ds 0 false ha (by simp [maxI64]), ← decVal_eq,
    if_pos hle, hne]
  simp only [Bool.not_false, Bool.or_true]
  rw [parseLoop_last u _ 1 m hu, if_pos hv]

/-! ### what the loop accepts -/

/-- after the unit rune nothing may follow. -/
theorem parseLoop_afterUnit : ∀ (x : Str) (num mult : Nat) (fd : Bool) (v : Nat),
    parseLoop x num mult true fd = .ok v →
      x = [] ∧ fd = true ∧ v = num * mult ∧ ¬ (num > maxI64 / mult)
  | [], num, mult, fd, v, h => by
      rw [parseLoop_nil] at h
      cases fd with
      | false => simp at h
      | true =>
        simp only [Bool.not_true, Bool.or_self, Bool.false_eq_true, if_false] at h
        split at h
        · cases h
        · rename_i hn
          cases h
          exact ⟨rfl, rfl, rfl, hn⟩
  | c :: cs, num, mult, fd, v, h => by
      simp only [parseLoop, if_true] at h
      split at h <;> cases h

theorem parseLoop_shape : ∀ (x : Str) (num mult : Nat) (fd : Bool) (v : Nat),
    parseLoop x num mult false fd = .ok v →
      ∃ ds u m, x = ds ++ [u] ∧ (fd = true ∨ ds ≠ []) ∧ allDigits ds = true ∧
        unitOf u = some m ∧ v = val num ds * m ∧ v ≤ maxI64
  | [], num, mult, fd, v, h => by
      rw [parseLoop_nil] at h
      simp at h
  | c :: cs, num, mult, fd, v, h => by
      by_cases hc : isDigit c = true
      · rw [parseLoop_digit c cs num mult fd hc] at h
        split at h
        · cases h
        · obtain ⟨ds, u, m, hx, _, had, hu, hv, hle⟩ := parseLoop_shape cs _ mult true v h
          refine ⟨c :: ds, u, m, by rw [hx]; rfl, Or.inr (by simp), ?_, hu, ?_, hle⟩
          · rw [allDigits_cons]; exact ⟨hc, had⟩
          · rw [val_cons]; exact hv
      · cases hu : unitOf c with
        | none =>
          simp only [parseLoop, hc, Bool.false_eq_true, if_false, hu] at h
          cases h
        | some m =>
          rw [parseLoop_unit c cs num mult m fd hu] at h
          obtain ⟨hcs, hfd, hv, hno⟩ := parseLoop_afterUnit cs num m fd v h
          have hm := (unitOf_some hu).2.1
          have := mult_overflow_iff num m hm
          refine ⟨[], c, m, by rw [hcs]; rfl, Or.inl hfd, allDigits_nil, hu, ?_, ?_⟩
          · rw [val_nil]; exact hv
          · rw [hv]
            have : ¬ maxI64 < num * m := fun g => hno (this.mpr g)
            omega

theorem strict (x : Str) (v : Nat) (h : parse x = .ok v) :
    ∃ ds u m, x = ds ++ [u] ∧ ds ≠ [] ∧ allDigits ds = true ∧ unitOf u = some m ∧
      v = decVal ds * m ∧ v ≤ maxI64 := by
  unfold parse at h
  split at h
  · cases h
  · obtain ⟨ds, u, m, hx, hne, had, hu, hv, hle⟩ := parseLoop_shape x 0 1 false v h
    refine ⟨ds, u, m, hx, ?_, had, hu, ?_, hle⟩
    · rcases hne with hf | hne
      · cases hf
      · exact hne
    · rw [decVal_eq]; exact hv

/-! ### the largest fitting unit -/

theorem foldl_invariant {α β : Type} (P : β → Prop) (f : β → α → β) :
    ∀ (l : List α) (init : β), P init → (∀ acc, P acc → ∀ u ∈ l, P (f acc u)) →
      P (l.foldl f init)
  | [], init, h0, _ => by simpa using h0
  | u :: us, init, h0, hstep => by
      rw [List.foldl_cons]
      refine foldl_invariant P f us _ (hstep init h0 u (by simp)) ?_
      intro acc ha w hw
      exact hstep acc ha w (by simp [hw])

/-- what the printer relies on: the chosen unit is a real unit and divides `b`. -/
def Fits (b : Nat) (acc : Char × Nat) : Prop :=
  unitOf acc.1 = some acc.2 ∧ b % acc.2 = 0

theorem fitStep_fits (b : Nat) (acc u : Char × Nat) (ha : Fits b acc)
    (hu : unitOf u.1 = some u.2) : Fits b (fitStep b acc u) := by
  unfold fitStep
  split
  · exact ha
  · split
    · exact ha
    · rename_i hmod
      split
      · exact ha
      · exact ⟨hu, by simpa using hmod⟩

theorem largest_fits (order : List (Char × Nat)) (b : Nat)
    (ho : ∀ u ∈ order, unitOf u.1 = some u.2) : Fits b (largestFittingUnit order b) := by
  unfold largestFittingUnit
  refine foldl_invariant (Fits b) (fitStep b) order _ ⟨by decide, Nat.mod_one b⟩ ?_
  intro acc ha u hu
  exact fitStep_fits b acc u ha (ho u hu)

theorem roundtrip (b : Nat) (h : b ≤ maxI64) : parse (toStr b) = .ok b := by
  obtain ⟨hu, hmod⟩ := largest_fits units b mem_units_unitOf
  have hb : b / (largestFittingUnit units b).2 * (largestFittingUnit units b).2 = b :=
    Nat.div_mul_cancel (Nat.dvd_of_mod_eq_zero hmod)
  have := accepts (toDec (b / (largestFittingUnit units b).2)) (largestFittingUnit units b).1
    (largestFittingUnit units b).2 (toDec_ne_nil _) (allDigits_toDec _) hu
    (by rw [decVal_toDec, hb]; exact h)
  rw [decVal_toDec, hb] at this
  exact this

/-- two loop iterations commute unless they are different units of equal size. -/
theorem fitStep_comm (b : Nat) (z x y : Char × Nat) (hxy : x.2 = y.2 → x = y) :
    fitStep b (fitStep b z x) y = fitStep b (fitStep b z y) x := by
  unfold fitStep
  grind

theorem largest_perm (order : List (Char × Nat)) (b : Nat) (hp : order.Perm units) :
    largestFittingUnit order b = largestFittingUnit units b := by
  unfold largestFittingUnit
  refine hp.foldl_eq' ?_ _
  intro x hx y hy z
  exact fitStep_comm b z x y (units_size_inj x (hp.subset hx) y (hp.subset hy))

end Rv.Lemmas.ByteSize
