import Rv.Model.History
import Rv.Lemmas.FetchB
import Rv.Lemmas.FetchEnv
/-
  Rv.Lemmas.History — helper lemmas for Props/History: invariants of the
  request machine `Rv.Fetch.handleEnv` that hold for EVERY lookup-time cache
  `c` and mid-flight cache `cMid`, and their lift to whole histories
  (`Rv.History.run` from any world satisfying the invariant, in particular
  from `Rv.History.init`).  Core Lean only.

  Plan: (1) the origin answers from its table; (2) the store as a keyed list
  (`Uniq`); (3) what one `fetchUpstream` does to the store (`fu_cache`);
  (4) `dedupFetchEnv` in one structural lemma (`dfEnv_struct`) and its
  consequences; (5) a case table for `FetchB.handleAux` that is generic in the
  two fetches, then the `handleEnv` lemmas; (6) worlds, `step`, `run`.
-/
namespace Rv.Lemmas.History
open Rv Rv.Fetch Rv.History
open Rv.Lemmas.FetchB Rv.Lemmas.FetchEnv

/-! ### (1) the scripted origin answers from its table -/

/-- the record an origin answer was made from. -/
def ansRec : OAns → Option ORes
  | .full o | .notModified o | .partial_ o _ _ | .unsat o => some o
  | .missing => none

theorem originAnswer_rec (tbl : Nat → Option ORes) (u : UpReq) (o : ORes)
    (h : ansRec (originAnswer tbl u) = some o) : tbl u.res = some o := by
  unfold originAnswer at h
  cases ht : tbl u.res with
  | none => simp [ht, ansRec] at h
  | some o' =>
    simp only [ht] at h
    repeat' split at h
    all_goals simp only [ansRec, Option.some.injEq] at h
    all_goals rw [h]

/-! ### (2) the store as a keyed list -/

/-- at most one entry per `(res, query)`. -/
def Uniq (c : Cache) : Prop := c.Pairwise (fun a b => ¬ (a.res = b.res ∧ a.query = b.query))

theorem uniq_nil : Uniq [] := List.Pairwise.nil

theorem uniq_erase {c : Cache} (h : Uniq c) (res : Nat) (q : String) : Uniq (erase c res q) :=
  List.Pairwise.filter _ h

theorem uniq_cons_erase {c : Cache} (h : Uniq c) (e : CEntry) {res : Nat} {q : String}
    (h1 : e.res = res) (h2 : e.query = q) : Uniq (e :: erase c res q) := by
  refine List.Pairwise.cons ?_ (uniq_erase h res q)
  intro x hx hk
  exact (mem_erase hx).2 ⟨hk.1.symm.trans h1, hk.2.symm.trans h2⟩

theorem uniq_eq {c : Cache} (h : Uniq c) {e1 e2 : CEntry} (h1 : e1 ∈ c) (h2 : e2 ∈ c)
    (hr : e1.res = e2.res) (hq : e1.query = e2.query) : e1 = e2 := by
  induction c with
  | nil => cases h1
  | cons x t ih =>
    have hx : ∀ {y}, y ∈ t → ¬ (x.res = y.res ∧ x.query = y.query) := fun hy => List.rel_of_pairwise_cons h hy
    have ht := List.Pairwise.of_cons h
    rcases List.mem_cons.1 h1 with rfl | h1' <;> rcases List.mem_cons.1 h2 with rfl | h2'
    · rfl
    · exact absurd ⟨hr, hq⟩ (hx h2')
    · exact absurd ⟨hr.symm, hq.symm⟩ (hx h1')
    · exact ih ht h1' h2'

theorem lookup_of_mem {c : Cache} (h : Uniq c) {e : CEntry} (he : e ∈ c) :
    lookup c e.res e.query = some e := by
  cases hl : lookup c e.res e.query with
  | none =>
    unfold lookup at hl
    have := List.find?_eq_none.1 hl e he
    simp at this
  | some e' =>
    obtain ⟨hm, h1, h2⟩ := lookup_some hl
    rw [uniq_eq h hm he h1 h2]

theorem lookup_erase_self (c : Cache) (res : Nat) (q : String) : lookup (erase c res q) res q = none := by
  cases hl : lookup (erase c res q) res q with
  | none => rfl
  | some e =>
    obtain ⟨hm, h1, h2⟩ := lookup_some hl
    exact absurd ⟨h1, h2⟩ (mem_erase hm).2

/-! ### (3) one upstream exchange and the store -/

/-- what one `fetchUpstream` leaves in the store: nothing new, or ONE entry
    under the request's key in place of whatever was there — the origin's
    current 200 record of that resource, or the entry that was there, renewed. -/
theorem fu_cache (cfg : Cfg) (tbl : Nat → Option ORes) (cm : Cache) (now : Int) (u : UpReq) (rp : Bool) :
    (fetchUpstream cfg tbl cm now u rp).cache = cm ∨
    ∃ e, e.res = u.res ∧ e.query = u.query ∧
      (fetchUpstream cfg tbl cm now u rp).cache = e :: erase cm u.res u.query ∧
      ((tbl u.res = some e.o ∧ e.o.status = 200) ∨
        ∃ e0 ∈ cm, e0.res = u.res ∧ e0.query = u.query ∧ e0.o = e.o) := by
  obtain ⟨ul, hlog, _, hcache⟩ := fetchUpstream_spec cfg tbl cm now u rp
  have hul : ul.res = u.res ∧ ul.query = u.query := by
    rcases hlog with ⟨_, rfl, _⟩ | ⟨_, _, h3⟩
    · exact ⟨rfl, rfl⟩
    · cases rp <;> simp [h3]
  obtain ⟨hres, hq⟩ := hul
  rw [hcache]
  rcases onAnswer_cases cfg cm now ul (originAnswer tbl ul) with h | h | ⟨o, ha, h200, _, _, h⟩ | ⟨o, e0, _, hl, h⟩
  · exact Or.inl (by rw [h])
  · exact Or.inl (by rw [h])
  · refine Or.inr ⟨newEntry cfg now ul o, hres, hq, by rw [h, hres, hq], Or.inl ⟨?_, h200⟩⟩
    have := originAnswer_rec tbl ul o (by rw [ha]; rfl)
    rw [hres] at this
    exact this
  · obtain ⟨hm, h1, h2⟩ := lookup_some hl
    refine Or.inr ⟨renewed cfg now e0, h1.trans hres, h2.trans hq, by rw [h, hres, hq],
      Or.inr ⟨e0, hm, h1.trans hres, h2.trans hq, rfl⟩⟩

/-! ### (4) `dedupFetchEnv` -/

/-- `dedupFetchEnv` in one statement: either the fresh-entry branch (no
    upstream exchange, the store untouched), or ONE `fetchUpstream` on the
    mid-flight cache `cMid` for a request under the client's key — unconditional,
    or carrying the validators of the stale entry found in `c` — possibly
    followed by the unconditional fallback request. -/
theorem dfEnv_struct (cfg : Cfg) (tbl : Nat → Option ORes) (c cMid : Cache) (now : Int) (r : Req)
    (range : Option Str) (rp : Bool) :
    (∃ e, lookup c r.res r.query = some e ∧ ¬ e.expires < now ∧
      dedupFetchEnv cfg tbl c cMid now r range rp =
        { out := .cached e 0, label := .hit, cache := c, log := [], rangeDropped := false }) ∨
    (∃ u rp', u.res = r.res ∧ u.query = r.query ∧
      ((u.inm = "" ∧ u.ims = none) ∨
        ∃ e, lookup c r.res r.query = some e ∧ e.expires < now ∧ u.inm = e.o.etag ∧ u.ims = lmOf e) ∧
      (dedupFetchEnv cfg tbl c cMid now r range rp).cache = (fetchUpstream cfg tbl cMid now u rp').cache ∧
      ((dedupFetchEnv cfg tbl c cMid now r range rp).log = (fetchUpstream cfg tbl cMid now u rp').log ∨
        ∃ rg, (dedupFetchEnv cfg tbl c cMid now r range rp).log =
          (fetchUpstream cfg tbl cMid now u rp').log ++ [upReq r rg])) := by
  have after : ∀ (label : Label) (u : UpReq),
      (afterFetch tbl r range label (fetchUpstream cfg tbl cMid now u false)).cache =
        (fetchUpstream cfg tbl cMid now u false).cache ∧
      ((afterFetch tbl r range label (fetchUpstream cfg tbl cMid now u false)).log =
          (fetchUpstream cfg tbl cMid now u false).log ∨
        ∃ rg, (afterFetch tbl r range label (fetchUpstream cfg tbl cMid now u false)).log =
          (fetchUpstream cfg tbl cMid now u false).log ++ [upReq r rg]) := by
    intro label u
    rcases afterFetch_cases tbl r range label (fetchUpstream cfg tbl cMid now u false) with
      ⟨e, st, _, heq⟩ | ⟨_, heq⟩
    · rw [heq]; exact ⟨rfl, Or.inl rfl⟩
    · rw [heq]; exact ⟨rfl, Or.inr ⟨range, rfl⟩⟩
  rcases dedupFetchEnv_shape cfg tbl c cMid now r range rp with
    ⟨hun, heq⟩ | ⟨_, _, _, heq⟩ | ⟨e, _, _, hl, hf, heq⟩ | ⟨e, _, _, hl, hs, heq⟩
  · -- uncoalesced
    refine Or.inr ⟨upReq r range, rp, rfl, rfl, Or.inl ⟨rfl, rfl⟩, ?_⟩
    rw [heq]
    have hne : ¬ (rp = false ∧ r.method = "GET") := by
      rintro ⟨h1, h2⟩
      rcases hun with h | h
      · rw [h1] at h; cases h
      · exact h h2
    rcases dedupFetch_branches cfg tbl cMid now r range rp with
      ⟨_, ⟨_, heq2⟩ | ⟨_, heq2⟩⟩ | ⟨h1, h2, _⟩ | ⟨e, h1, h2, _⟩ | ⟨e, h1, h2, _⟩
    · rw [heq2]; exact ⟨rfl, Or.inr ⟨_, rfl⟩⟩
    · rw [heq2]; exact ⟨rfl, Or.inl rfl⟩
    · exact absurd ⟨h1, h2⟩ hne
    · exact absurd ⟨h1, h2⟩ hne
    · exact absurd ⟨h1, h2⟩ hne
  · refine Or.inr ⟨upReq r range, false, rfl, rfl, Or.inl ⟨rfl, rfl⟩, ?_⟩
    rw [heq]; exact after .miss _
  · exact Or.inl ⟨e, hl, hf, heq⟩
  · refine Or.inr ⟨condReq r range e, false, rfl, rfl, Or.inr ⟨e, hl, hs, rfl, rfl⟩, ?_⟩
    rw [heq]; exact after .revalidated _

/-- every upstream request of a fetch is for the client's resource and query. -/
theorem dfEnv_log_key (cfg : Cfg) (tbl : Nat → Option ORes) (c cMid : Cache) (now : Int) (r : Req)
    (range : Option Str) (rp : Bool) (x : UpReq) (hx : x ∈ (dedupFetchEnv cfg tbl c cMid now r range rp).log) :
    x.res = r.res ∧ x.query = r.query := by
  rcases dfEnv_struct cfg tbl c cMid now r range rp with ⟨e, _, _, heq⟩ | ⟨u, rp', hr, hq, _, _, hlog⟩
  · rw [heq] at hx; cases hx
  · have key := (fu_facts cfg tbl cMid now u rp').2.1
    rcases hlog with hlog | ⟨rg, hlog⟩
    · rw [hlog] at hx
      exact ⟨(key x hx).1.trans hr, (key x hx).2.2.1.trans hq⟩
    · rw [hlog] at hx
      rcases List.mem_append.1 hx with hx | hx
      · exact ⟨(key x hx).1.trans hr, (key x hx).2.2.1.trans hq⟩
      · rw [List.mem_singleton.1 hx]; exact ⟨rfl, rfl⟩

/-- a conditional upstream request carries the validators of the stale entry
    the lookup found in `c` — for every mid-flight cache. -/
theorem dfEnv_cond (cfg : Cfg) (tbl : Nat → Option ORes) (c cMid : Cache) (now : Int) (r : Req)
    (range : Option Str) (rp : Bool) (x : UpReq) (hx : x ∈ (dedupFetchEnv cfg tbl c cMid now r range rp).log)
    (hc : x.inm ≠ "" ∨ x.ims ≠ none) :
    ∃ e, lookup c r.res r.query = some e ∧ e.expires < now ∧ x.inm = e.o.etag ∧ x.ims = lmOf e := by
  rcases dfEnv_struct cfg tbl c cMid now r range rp with ⟨e, _, _, heq⟩ | ⟨u, rp', _, _, hval, _, hlog⟩
  · rw [heq] at hx; cases hx
  · have key := (fu_facts cfg tbl cMid now u rp').2.1
    have main : x ∈ (fetchUpstream cfg tbl cMid now u rp').log →
        ∃ e, lookup c r.res r.query = some e ∧ e.expires < now ∧ x.inm = e.o.etag ∧ x.ims = lmOf e := by
      intro hx
      obtain ⟨_, _, _, h4, h5⟩ := key x hx
      rcases hval with ⟨h1, h2⟩ | ⟨e, h1, h2, h3, h6⟩
      · rcases hc with hc | hc
        · exact absurd (h4.trans h1) hc
        · exact absurd (h5.trans h2) hc
      · exact ⟨e, h1, h2, h4.trans h3, h5.trans h6⟩
    rcases hlog with hlog | ⟨rg, hlog⟩
    · rw [hlog] at hx; exact main hx
    · rw [hlog] at hx
      rcases List.mem_append.1 hx with hx | hx
      · exact main hx
      · rw [List.mem_singleton.1 hx] at hc
        rcases hc with hc | hc <;> exact absurd rfl hc

/-- a property of `(res, query, record)` triples that holds for every entry of
    `c` and of `cMid` and for the origin's current 200 record of the requested
    resource under the request's key holds for every entry of the store the
    fetch leaves. -/
theorem dfEnv_good (G : Nat → String → ORes → Prop) (cfg : Cfg) (tbl : Nat → Option ORes) (c cMid : Cache) (now : Int)
    (r : Req) (range : Option Str) (rp : Bool)
    (hc : ∀ e ∈ c, G e.res e.query e.o) (hm : ∀ e ∈ cMid, G e.res e.query e.o)
    (ho : ∀ o, tbl r.res = some o → o.status = 200 → G r.res r.query o) :
    ∀ e ∈ (dedupFetchEnv cfg tbl c cMid now r range rp).cache, G e.res e.query e.o := by
  rcases dfEnv_struct cfg tbl c cMid now r range rp with ⟨e, _, _, heq⟩ | ⟨u, rp', hr, hq, _, hcache, _⟩
  · rw [heq]; exact hc
  · rw [hcache]
    rcases fu_cache cfg tbl cMid now u rp' with h | ⟨e, h1, h2, h, hsrc⟩
    · rw [h]; exact hm
    · rw [h]
      intro x hx
      rcases List.mem_cons.1 hx with rfl | hx
      · rcases hsrc with ⟨ht, h200⟩ | ⟨e0, he0, h3, h4, h5⟩
        · rw [h1, h2, hr, hq]
          rw [hr] at ht
          exact ho _ ht h200
        · rw [h1, h2, ← h3, ← h4, ← h5]; exact hm e0 he0
      · exact hm x (mem_erase hx).1

theorem dfEnv_uniq (cfg : Cfg) (tbl : Nat → Option ORes) (c cMid : Cache) (now : Int)
    (r : Req) (range : Option Str) (rp : Bool) (hc : Uniq c) (hm : Uniq cMid) :
    Uniq (dedupFetchEnv cfg tbl c cMid now r range rp).cache := by
  rcases dfEnv_struct cfg tbl c cMid now r range rp with ⟨e, _, _, heq⟩ | ⟨u, rp', _, _, _, hcache, _⟩
  · rw [heq]; exact hc
  · rw [hcache]
    rcases fu_cache cfg tbl cMid now u rp' with h | ⟨e, h1, h2, h, _⟩
    · rw [h]; exact hm
    · rw [h]; exact uniq_cons_erase hm e h1 h2

/-- a relayed answer is the origin's answer to a request for the client's resource. -/
theorem dfEnv_direct (cfg : Cfg) (tbl : Nat → Option ORes) (c cMid : Cache) (now : Int) (r : Req)
    (range : Option Str) (rp : Bool) (a : OAns) (h : (dedupFetchEnv cfg tbl c cMid now r range rp).out = .direct a) :
    ∃ x, x.res = r.res ∧ a = originAnswer tbl x := by
  obtain ⟨x, hx, ha⟩ := (dfEnv_facts cfg tbl c cMid now r range rp).2.1 a h
  exact ⟨x, (dfEnv_log_key cfg tbl c cMid now r range rp x hx).1, ha⟩

/-! ### (5) `handleEnv` -/

/-- every way `FetchB.handleAux` can end, for ANY two fetches that did not end
    in `.notCacheable` (`FetchB.handle_cases` is this table for the fetches of
    `handle`). -/
theorem handleAux_cases (cfg : Cfg) (now : Int) (r : Req) (p : Option (Int × Int)) (d d2 : DF)
    (hn1 : d.out ≠ .notCacheable) (hn2 : d2.out ≠ .notCacheable) :
    (∃ a, d.out = .direct a ∧ handleAux cfg now r p d d2 = (relay a r.method d.label, d.cache, d.log)) ∨
    (∃ e st, d.out = .cached e st ∧
      (handleAux cfg now r p d d2 = (fullFromCache e d.label st r.method now, d.cache, d.log) ∨
       handleAux cfg now r p d d2 = (resp416 e, d.cache, d.log) ∨
       (∃ s en, handleAux cfg now r p d d2 = (resp206 r e s en, d.cache, d.log)) ∨
       (cfg.retryInvalidRange = true ∧ p.isSome = true ∧ d.rangeDropped = false ∧
        ((∃ e2 st2, d2.out = .cached e2 st2 ∧
            handleAux cfg now r p d d2 = (respRetry200 r e2, d2.cache, d.log ++ d2.log)) ∨
         (∃ a2, d2.out = .direct a2 ∧
            handleAux cfg now r p d d2 = (respRetryRelay r a2, d2.cache, d.log ++ d2.log)))))) := by
  rcases d with ⟨out, label, cache, log, rd⟩
  cases out with
  | notCacheable => exact absurd rfl hn1
  | direct a => exact Or.inl ⟨a, rfl, rfl⟩
  | cached e st =>
    refine Or.inr ⟨e, st, rfl, ?_⟩
    cases p with
    | none => exact Or.inl rfl
    | some ab =>
      obtain ⟨a, b⟩ := ab
      cases rd with
      | true => exact Or.inl rfl
      | false =>
        cases hss : Range.sliceSize a b e.o.size with
        | none =>
          cases hri : cfg.retryInvalidRange with
          | false => exact Or.inr (Or.inl (by simp [handleAux, hss, hri]))
          | true =>
            refine Or.inr (Or.inr (Or.inr ⟨rfl, rfl, rfl, ?_⟩))
            rcases d2 with ⟨out2, l2, c2, log2, rd2⟩
            cases out2 with
            | notCacheable => exact absurd rfl hn2
            | cached e2 st2 => exact Or.inl ⟨e2, st2, rfl, by simp [handleAux, hss, hri]⟩
            | direct a2 => exact Or.inr ⟨a2, rfl, by simp [handleAux, hss, hri]⟩
        | some se =>
          obtain ⟨s, en⟩ := se
          by_cases hm : ifRangeMismatch r e = true
          · exact Or.inl (by simp [handleAux, hss, hm])
          · exact Or.inr (Or.inr (Or.inl ⟨s, en, by simp [handleAux, hss, hm]⟩))

theorem df1Env_ne (cfg : Cfg) (tbl : Nat → Option ORes) (c cMid : Cache) (now : Int) (r : Req) :
    (df1Env cfg tbl c cMid now r).out ≠ .notCacheable :=
  (dfEnv_facts cfg tbl c cMid now r r.range (parsedOf r).isSome).1

theorem df2Env_ne (cfg : Cfg) (tbl : Nat → Option ORes) (c cMid : Cache) (now : Int) (r : Req) :
    (df2Env cfg tbl c cMid now r).out ≠ .notCacheable :=
  (df_facts cfg tbl (df1Env cfg tbl c cMid now r).cache now r none false).1

/-- the store and the log `handleEnv` returns are those of the first fetch, or
    (retry without Range) of the second, which ran on the store the first left. -/
theorem handleEnv_cache_log (cfg : Cfg) (tbl : Nat → Option ORes) (c cMid : Cache) (now : Int) (r : Req) :
    ((handleEnv cfg tbl c cMid now r).2.1 = (df1Env cfg tbl c cMid now r).cache ∧
      (handleEnv cfg tbl c cMid now r).2.2 = (df1Env cfg tbl c cMid now r).log) ∨
    ((handleEnv cfg tbl c cMid now r).2.1 = (df2Env cfg tbl c cMid now r).cache ∧
      (handleEnv cfg tbl c cMid now r).2.2 =
        (df1Env cfg tbl c cMid now r).log ++ (df2Env cfg tbl c cMid now r).log ∧
      cfg.retryInvalidRange = true ∧ (parsedOf r).isSome = true ∧
      (df1Env cfg tbl c cMid now r).rangeDropped = false ∧
      ∃ e st, (df1Env cfg tbl c cMid now r).out = .cached e st) := by
  rw [handleEnv_eq]
  rcases handleAux_cases cfg now r (parsedOf r) _ _ (df1Env_ne cfg tbl c cMid now r) (df2Env_ne cfg tbl c cMid now r) with
    ⟨a, _, heq⟩ | ⟨e, st, ho, heq | heq | ⟨s, en, heq⟩ | ⟨h1, h2, h3, ⟨e2, st2, _, heq⟩ | ⟨a2, _, heq⟩⟩⟩
  · rw [heq]; exact Or.inl ⟨rfl, rfl⟩
  · rw [heq]; exact Or.inl ⟨rfl, rfl⟩
  · rw [heq]; exact Or.inl ⟨rfl, rfl⟩
  · rw [heq]; exact Or.inl ⟨rfl, rfl⟩
  · rw [heq]; exact Or.inr ⟨rfl, rfl, h1, h2, h3, e, st, ho⟩
  · rw [heq]; exact Or.inr ⟨rfl, rfl, h1, h2, h3, e, st, ho⟩

theorem df1Env_good (G : Nat → String → ORes → Prop) (cfg : Cfg) (tbl : Nat → Option ORes) (c cMid : Cache) (now : Int)
    (r : Req) (hc : ∀ e ∈ c, G e.res e.query e.o) (hm : ∀ e ∈ cMid, G e.res e.query e.o)
    (ho : ∀ o, tbl r.res = some o → o.status = 200 → G r.res r.query o) :
    ∀ e ∈ (df1Env cfg tbl c cMid now r).cache, G e.res e.query e.o :=
  dfEnv_good G cfg tbl c cMid now r r.range (parsedOf r).isSome hc hm ho

theorem df2Env_good (G : Nat → String → ORes → Prop) (cfg : Cfg) (tbl : Nat → Option ORes) (c cMid : Cache) (now : Int)
    (r : Req) (hc : ∀ e ∈ c, G e.res e.query e.o) (hm : ∀ e ∈ cMid, G e.res e.query e.o)
    (ho : ∀ o, tbl r.res = some o → o.status = 200 → G r.res r.query o) :
    ∀ e ∈ (df2Env cfg tbl c cMid now r).cache, G e.res e.query e.o :=
  dfEnv_good G cfg tbl _ _ now r none false
    (df1Env_good G cfg tbl c cMid now r hc hm ho) (df1Env_good G cfg tbl c cMid now r hc hm ho) ho

/-- a property of `(res, query, record)` triples that holds for every entry of
    the lookup-time and of the mid-flight cache and for the origin's current 200
    record of the requested resource under the request's key holds for every
    entry of the store after the request. -/
theorem handleEnv_good (G : Nat → String → ORes → Prop) (cfg : Cfg) (tbl : Nat → Option ORes) (c cMid : Cache) (now : Int)
    (r : Req) (hc : ∀ e ∈ c, G e.res e.query e.o) (hm : ∀ e ∈ cMid, G e.res e.query e.o)
    (ho : ∀ o, tbl r.res = some o → o.status = 200 → G r.res r.query o) :
    ∀ e ∈ (handleEnv cfg tbl c cMid now r).2.1, G e.res e.query e.o := by
  rcases handleEnv_cache_log cfg tbl c cMid now r with ⟨h, _⟩ | ⟨h, _⟩
  · rw [h]; exact df1Env_good G cfg tbl c cMid now r hc hm ho
  · rw [h]; exact df2Env_good G cfg tbl c cMid now r hc hm ho

theorem df1Env_uniq (cfg : Cfg) (tbl : Nat → Option ORes) (c cMid : Cache) (now : Int) (r : Req)
    (hc : Uniq c) (hm : Uniq cMid) : Uniq (df1Env cfg tbl c cMid now r).cache :=
  dfEnv_uniq cfg tbl c cMid now r r.range (parsedOf r).isSome hc hm

/-- one entry per key before (in both caches) ⇒ one entry per key after. -/
theorem handleEnv_uniq (cfg : Cfg) (tbl : Nat → Option ORes) (c cMid : Cache) (now : Int) (r : Req)
    (hc : Uniq c) (hm : Uniq cMid) : Uniq (handleEnv cfg tbl c cMid now r).2.1 := by
  rcases handleEnv_cache_log cfg tbl c cMid now r with ⟨h, _⟩ | ⟨h, _⟩
  · rw [h]; exact df1Env_uniq cfg tbl c cMid now r hc hm
  · rw [h]
    exact dfEnv_uniq cfg tbl _ _ now r none false
      (df1Env_uniq cfg tbl c cMid now r hc hm) (df1Env_uniq cfg tbl c cMid now r hc hm)

/-- every upstream request of one client request is for that request's
    resource and query (no cross-resource traffic). -/
theorem handleEnv_log_key (cfg : Cfg) (tbl : Nat → Option ORes) (c cMid : Cache) (now : Int) (r : Req)
    (u : UpReq) (hu : u ∈ (handleEnv cfg tbl c cMid now r).2.2) : u.res = r.res ∧ u.query = r.query := by
  have k1 : u ∈ (df1Env cfg tbl c cMid now r).log → u.res = r.res ∧ u.query = r.query :=
    dfEnv_log_key cfg tbl c cMid now r r.range (parsedOf r).isSome u
  have k2 : u ∈ (df2Env cfg tbl c cMid now r).log → u.res = r.res ∧ u.query = r.query :=
    dfEnv_log_key cfg tbl _ _ now r none false u
  rcases handleEnv_cache_log cfg tbl c cMid now r with ⟨_, h⟩ | ⟨_, h, _⟩
  · rw [h] at hu; exact k1 hu
  · rw [h] at hu
    rcases List.mem_append.1 hu with hu | hu
    · exact k1 hu
    · exact k2 hu

theorem dfEnv_true (cfg : Cfg) (tbl : Nat → Option ORes) (c cMid : Cache) (now : Int) (r : Req)
    (range : Option Str) :
    dedupFetchEnv cfg tbl c cMid now r range true = dedupFetch cfg tbl cMid now r range true := by
  rcases dedupFetchEnv_shape cfg tbl c cMid now r range true with
    ⟨_, h⟩ | ⟨h, _⟩ | ⟨e, h, _⟩ | ⟨e, h, _⟩
  · exact h
  · cases h
  · cases h
  · cases h

/-- C06 (`FetchB.conditionals_come_from_the_store`) for every mid-flight
    cache: a conditional upstream request carries the validators of the stale
    entry found at lookup time, or (retry without Range) of the entry this very
    request stored a moment ago from the origin's current record. -/
theorem handleEnv_cond (cfg : Cfg) (tbl : Nat → Option ORes) (c cMid : Cache) (now : Int) (r : Req) (u : UpReq)
    (hu : u ∈ (handleEnv cfg tbl c cMid now r).2.2) (hc : u.inm ≠ "" ∨ u.ims ≠ none) :
    ∃ e, (lookup c r.res r.query = some e ∨
          (cfg.retryInvalidRange = true ∧ originAnswer tbl (upReq r r.range) = .full e.o ∧
           storable cfg e.o r.method now = true ∧ e.expires = lifetimeEnd cfg e.o now)) ∧
      e.res = r.res ∧ e.query = r.query ∧
      e.expires < now ∧ u.inm = e.o.etag ∧ u.ims = lmOf e := by
  have k1 : u ∈ (df1Env cfg tbl c cMid now r).log → ∃ e, (lookup c r.res r.query = some e ∨
          (cfg.retryInvalidRange = true ∧ originAnswer tbl (upReq r r.range) = .full e.o ∧
           storable cfg e.o r.method now = true ∧ e.expires = lifetimeEnd cfg e.o now)) ∧
      e.res = r.res ∧ e.query = r.query ∧
      e.expires < now ∧ u.inm = e.o.etag ∧ u.ims = lmOf e := by
    intro hu
    obtain ⟨e, h1, h2, h3, h4⟩ := dfEnv_cond cfg tbl c cMid now r r.range (parsedOf r).isSome u hu hc
    exact ⟨e, Or.inl h1, (lookup_some h1).2.1, (lookup_some h1).2.2, h2, h3, h4⟩
  rcases handleEnv_cache_log cfg tbl c cMid now r with ⟨_, h⟩ | ⟨_, h, hri, hp, hd, e, st, ho⟩
  · rw [h] at hu; exact k1 hu
  · rw [h] at hu
    rcases List.mem_append.1 hu with hu | hu
    · exact k1 hu
    · obtain ⟨e', h1, h2, h3, h4⟩ := dfEnv_cond cfg tbl _ _ now r none false u hu hc
      unfold df1Env at hd ho h1
      rw [hp, dfEnv_true] at hd ho h1
      obtain ⟨g1, g2, g3, g4⟩ := df_range_cached cfg tbl cMid now r r.range e st hd ho
      rw [g4] at h1
      cases h1
      exact ⟨e, Or.inr ⟨hri, g1, g2, g3⟩, (lookup_some g4).2.1, (lookup_some g4).2.2, h2, h3, h4⟩

/-! #### what a response body can be -/

theorem relay_bodyVersion (a : OAns) (m : String) (l : Label) (v : Nat)
    (h : bodyVersion (relay a m l).body = some v) : ∃ o, ansRec a = some o ∧ o.ver = v := by
  unfold relay at h
  simp only at h
  split at h
  · cases h
  · cases a with
    | full o =>
      simp only at h
      split at h
      · cases h
      · exact ⟨o, rfl, by simpa [bodyVersion] using h⟩
    | partial_ o x y => exact ⟨o, rfl, by simpa [bodyVersion] using h⟩
    | notModified o => cases h
    | unsat o => cases h
    | missing => cases h

theorem bv_if {m : String} {ver a b v : Nat}
    (h : bodyVersion (if m = "HEAD" then Body.empty else Body.stored ver a b) = some v) : ver = v := by
  split at h
  · cases h
  · simpa [bodyVersion] using h

/-- the bytes of a response are those of the origin's CURRENT record of the
    requested resource (relayed), or of an entry stored under the request's key
    in the store the request leaves. -/
theorem handleEnv_bodyVersion (cfg : Cfg) (tbl : Nat → Option ORes) (c cMid : Cache) (now : Int) (r : Req) (v : Nat)
    (hb : bodyVersion (handleEnv cfg tbl c cMid now r).1.body = some v) :
    (∃ o, tbl r.res = some o ∧ o.ver = v) ∨
    (∃ e ∈ (handleEnv cfg tbl c cMid now r).2.1, e.res = r.res ∧ e.query = r.query ∧ e.o.ver = v) := by
  have f1 := (dfEnv_facts cfg tbl c cMid now r r.range (parsedOf r).isSome).2.2
  have f2 := (dfEnv_facts cfg tbl (df1Env cfg tbl c cMid now r).cache (df1Env cfg tbl c cMid now r).cache
    now r none false).2.2
  have relayed : ∀ a m l, (∃ x, x.res = r.res ∧ a = originAnswer tbl x) →
      bodyVersion (relay a m l).body = some v → ∃ o, tbl r.res = some o ∧ o.ver = v := by
    intro a m l ⟨x, hx, ha⟩ hb
    obtain ⟨o, h1, h2⟩ := relay_bodyVersion a m l v hb
    rw [ha] at h1
    have := originAnswer_rec tbl x o h1
    rw [hx] at this
    exact ⟨o, this, h2⟩
  rw [handleEnv_eq] at hb ⊢
  rcases handleAux_cases cfg now r (parsedOf r) _ _ (df1Env_ne cfg tbl c cMid now r) (df2Env_ne cfg tbl c cMid now r) with
    ⟨a, ho, heq⟩ | ⟨e, st, ho, heq | heq | ⟨s, en, heq⟩ | ⟨_, _, _, ⟨e2, st2, ho2, heq⟩ | ⟨a2, ho2, heq⟩⟩⟩
  · rw [heq] at hb
    exact Or.inl (relayed _ _ _ (dfEnv_direct cfg tbl c cMid now r r.range _ a ho) hb)
  · rw [heq] at hb ⊢
    obtain ⟨g1, g2, g3⟩ := f1 e st ho
    exact Or.inr ⟨e, g1, g2, g3, bv_if hb⟩
  · rw [heq] at hb; cases hb
  · rw [heq] at hb ⊢
    obtain ⟨g1, g2, g3⟩ := f1 e st ho
    exact Or.inr ⟨e, g1, g2, g3, bv_if hb⟩
  · rw [heq] at hb ⊢
    obtain ⟨g1, g2, g3⟩ := f2 e2 st2 ho2
    exact Or.inr ⟨e2, g1, g2, g3, bv_if hb⟩
  · rw [heq] at hb
    exact Or.inl (relayed a2 r.method .none (dfEnv_direct cfg tbl _ _ now r none false a2 ho2) hb)

/-- a body served from the store is the body of an entry that IS in the store
    the request leaves, under the request's key, and is delivered with that
    entry's headers. -/
theorem handleEnv_stored (cfg : Cfg) (tbl : Nat → Option ORes) (c cMid : Cache) (now : Int) (r : Req) (v st len : Nat)
    (hb : (handleEnv cfg tbl c cMid now r).1.body = .stored v st len) :
    ∃ e ∈ (handleEnv cfg tbl c cMid now r).2.1, e.res = r.res ∧ e.query = r.query ∧ e.o.ver = v ∧
      (handleEnv cfg tbl c cMid now r).1.hdrFrom = some e.o := by
  have f1 := (dfEnv_facts cfg tbl c cMid now r r.range (parsedOf r).isSome).2.2
  have f2 := (dfEnv_facts cfg tbl (df1Env cfg tbl c cMid now r).cache (df1Env cfg tbl c cMid now r).cache
    now r none false).2.2
  rw [handleEnv_eq] at hb ⊢
  rcases handleAux_cases cfg now r (parsedOf r) _ _ (df1Env_ne cfg tbl c cMid now r) (df2Env_ne cfg tbl c cMid now r) with
    ⟨a, ho, heq⟩ | ⟨e, st', ho, heq | heq | ⟨s, en, heq⟩ | ⟨_, _, _, ⟨e2, st2, ho2, heq⟩ | ⟨a2, ho2, heq⟩⟩⟩
  · rw [heq] at hb
    exact absurd hb (relay_body_ne_stored _ _ _ _ _ _)
  · rw [heq] at hb ⊢
    obtain ⟨g1, g2, g3⟩ := f1 e st' ho
    exact ⟨e, g1, g2, g3, (full_body (e := e) hb).1, rfl⟩
  · rw [heq] at hb; cases hb
  · rw [heq] at hb ⊢
    obtain ⟨g1, g2, g3⟩ := f1 e st' ho
    exact ⟨e, g1, g2, g3, (resp206_body hb).1, rfl⟩
  · rw [heq] at hb ⊢
    obtain ⟨g1, g2, g3⟩ := f2 e2 st2 ho2
    exact ⟨e2, g1, g2, g3, (full_body (e := e2) hb).1, rfl⟩
  · rw [heq] at hb
    exact absurd hb (relay_body_ne_stored a2 r.method .none _ _ _)

/-! ### (6) worlds, `step`, `run` -/

theorem tblFn_some {t : List (Nat × ORes)} {res : Nat} {o : ORes} (h : tblFn t res = some o) : (res, o) ∈ t := by
  unfold tblFn at h
  cases hf : t.find? (fun p => decide (p.1 = res)) with
  | none => simp [hf] at h
  | some p =>
    simp only [hf, Option.map_some, Option.some.injEq] at h
    have h1 := List.mem_of_find?_eq_some hf
    have h2 := List.find?_some hf
    simp only [decide_eq_true_eq] at h2
    obtain ⟨a, b⟩ := p
    simp only at h h2
    subst h h2
    exact h1

/-- the mid-flight cache of a request in a history. -/
def midOf (w : World) (r : Req) (d : Bool) : Cache := if d then erase w.cache r.res r.query else w.cache

/-- what the request machine returns for request `r` in world `w`. -/
def outOf (cfg : Cfg) (w : World) (r : Req) (d : Bool) : Resp × Cache × List UpReq :=
  handleEnv cfg (tblFn w.tbl) w.cache (midOf w r d) w.now r

theorem step_request (cfg : Cfg) (w : World) (r : Req) (d : Bool) :
    step cfg w (.request r d) =
      ({ w with cache := (outOf cfg w r d).2.1 }, some (r, (outOf cfg w r d).1, (outOf cfg w r d).2.2)) := rfl

theorem mid_sub (w : World) (r : Req) (d : Bool) : ∀ e ∈ midOf w r d, e ∈ w.cache := by
  intro e he
  unfold midOf at he
  cases d
  · exact he
  · exact (mem_erase he).1

theorem mid_uniq (w : World) (r : Req) (d : Bool) (h : Uniq w.cache) : Uniq (midOf w r d) := by
  unfold midOf
  cases d
  · exact h
  · exact uniq_erase h _ _

/-- the invariant of every reachable world. -/
structure Inv (w : World) : Prop where
  /-- the origin's current records are among those it ever had -/
  tbl_produced : ∀ p ∈ w.tbl, p ∈ w.produced
  /-- what is stored is a 200 record the origin had for that resource -/
  cache_produced : ∀ e ∈ w.cache, (e.res, e.o) ∈ w.produced ∧ e.o.status = 200
  /-- one entry per key -/
  uniq : Uniq w.cache

theorem inv_init : Inv init :=
  ⟨fun _ h => (by cases h), fun _ h => (by cases h), uniq_nil⟩

theorem step_inv (cfg : Cfg) (w : World) (op : HOp) (h : Inv w) : Inv (step cfg w op).1 := by
  cases op with
  | request r d =>
    rw [step_request]
    refine ⟨h.tbl_produced, ?_, ?_⟩
    · exact handleEnv_good (fun res _ o => (res, o) ∈ w.produced ∧ o.status = 200) cfg (tblFn w.tbl) w.cache
        (midOf w r d) w.now r h.cache_produced (fun e he => h.cache_produced e (mid_sub w r d e he))
        (fun o ho h200 => ⟨h.tbl_produced _ (tblFn_some ho), h200⟩)
    · exact handleEnv_uniq cfg (tblFn w.tbl) w.cache (midOf w r d) w.now r h.uniq (mid_uniq w r d h.uniq)
  | elapse ms => exact ⟨h.tbl_produced, h.cache_produced, h.uniq⟩
  | setOrigin res o =>
    refine ⟨?_, ?_, h.uniq⟩
    · intro p hp
      rcases List.mem_cons.1 hp with rfl | hp
      · exact List.mem_cons_self
      · exact List.mem_cons_of_mem _ (h.tbl_produced p (List.mem_filter.1 hp).1)
    · intro e he
      exact ⟨List.mem_cons_of_mem _ (h.cache_produced e he).1, (h.cache_produced e he).2⟩
  | removeOrigin res =>
    exact ⟨fun p hp => h.tbl_produced p (List.mem_filter.1 hp).1, h.cache_produced, h.uniq⟩
  | dropEntry res q =>
    exact ⟨h.tbl_produced, fun e he => h.cache_produced e (mem_erase he).1, uniq_erase h.uniq res q⟩

/-- the origin's records only accumulate. -/
theorem step_produced (cfg : Cfg) (w : World) (op : HOp) : ∀ p ∈ w.produced, p ∈ (step cfg w op).1.produced := by
  intro p hp
  cases op with
  | setOrigin res o => exact List.mem_cons_of_mem _ hp
  | request r d => exact hp
  | elapse ms => exact hp
  | removeOrigin res => exact hp
  | dropEntry res q => exact hp

theorem run_nil (cfg : Cfg) (w : World) : run cfg [] w = (w, []) := rfl

theorem run_cons_fst (cfg : Cfg) (op : HOp) (rest : List HOp) (w : World) :
    (run cfg (op :: rest) w).1 = (run cfg rest (step cfg w op).1).1 := rfl

theorem run_cons_snd (cfg : Cfg) (op : HOp) (rest : List HOp) (w : World) :
    (run cfg (op :: rest) w).2 =
      (match (step cfg w op).2 with
        | some e => e :: (run cfg rest (step cfg w op).1).2
        | none => (run cfg rest (step cfg w op).1).2) := rfl

theorem run_append_fst (cfg : Cfg) (a b : List HOp) (w : World) :
    (run cfg (a ++ b) w).1 = (run cfg b (run cfg a w).1).1 := by
  induction a generalizing w with
  | nil => rfl
  | cons op rest ih => rw [List.cons_append, run_cons_fst, run_cons_fst, ih]

theorem run_append_snd (cfg : Cfg) (a b : List HOp) (w : World) :
    (run cfg (a ++ b) w).2 = (run cfg a w).2 ++ (run cfg b (run cfg a w).1).2 := by
  induction a generalizing w with
  | nil => rfl
  | cons op rest ih =>
    rw [List.cons_append, run_cons_snd, run_cons_snd, run_cons_fst, ih]
    cases (step cfg w op).2 <;> rfl

theorem run_inv (cfg : Cfg) (ops : List HOp) (w : World) (h : Inv w) : Inv (run cfg ops w).1 := by
  induction ops generalizing w with
  | nil => exact h
  | cons op rest ih => rw [run_cons_fst]; exact ih _ (step_inv cfg w op h)

theorem run_produced (cfg : Cfg) (ops : List HOp) (w : World) :
    ∀ p ∈ w.produced, p ∈ (run cfg ops w).1.produced := by
  induction ops generalizing w with
  | nil => exact fun _ h => h
  | cons op rest ih =>
    intro p hp
    rw [run_cons_fst]
    exact ih _ p (step_produced cfg w op p hp)

/-- every exchange of a history is the exchange of one of its requests, made
    in the world the history before it leads to. -/
theorem mem_run (cfg : Cfg) (ops : List HOp) (w : World) (x : Req × Resp × List UpReq)
    (hx : x ∈ (run cfg ops w).2) :
    ∃ pre r d post, ops = pre ++ .request r d :: post ∧
      (step cfg (run cfg pre w).1 (.request r d)).2 = some x := by
  induction ops generalizing w with
  | nil => cases hx
  | cons op rest ih =>
    rw [run_cons_snd] at hx
    have tail : x ∈ (run cfg rest (step cfg w op).1).2 → ∃ pre r d post, op :: rest = pre ++ .request r d :: post ∧
        (step cfg (run cfg pre w).1 (.request r d)).2 = some x := by
      intro hx
      obtain ⟨pre, r, d, post, h1, h2⟩ := ih _ hx
      exact ⟨op :: pre, r, d, post, by rw [h1]; rfl, h2⟩
    cases op with
    | request r d =>
      rcases List.mem_cons.1 hx with rfl | hx
      · exact ⟨[], r, d, rest, rfl, rfl⟩
      · exact tail hx
    | elapse ms => exact tail hx
    | setOrigin res o => exact tail hx
    | removeOrigin res => exact tail hx
    | dropEntry res q => exact tail hx

/-- conversely, the exchange of every request of a history is in its list of exchanges. -/
theorem run_mem (cfg : Cfg) (pre post : List HOp) (r : Req) (d : Bool) (w : World) :
    ∃ x, (step cfg (run cfg pre w).1 (.request r d)).2 = some x ∧
      x ∈ (run cfg (pre ++ .request r d :: post) w).2 := by
  refine ⟨_, rfl, ?_⟩
  rw [run_append_snd, run_cons_snd]
  exact List.mem_append_right _ List.mem_cons_self

/-! #### one request in a world satisfying the invariant -/

theorem request_bodyVersion (cfg : Cfg) (w : World) (h : Inv w) (r : Req) (d : Bool) (v : Nat)
    (hb : bodyVersion (outOf cfg w r d).1.body = some v) :
    ∃ o, (r.res, o) ∈ w.produced ∧ o.ver = v := by
  rcases handleEnv_bodyVersion cfg (tblFn w.tbl) w.cache (midOf w r d) w.now r v hb with
    ⟨o, ho, hv⟩ | ⟨e, he, h1, _, hv⟩
  · exact ⟨o, h.tbl_produced _ (tblFn_some ho), hv⟩
  · have h' := (step_inv cfg w (.request r d) h).cache_produced e he
    rw [h1] at h'
    exact ⟨e.o, h'.1, hv⟩

theorem request_stored (cfg : Cfg) (w : World) (h : Inv w) (r : Req) (d : Bool) (v st len : Nat)
    (hb : (outOf cfg w r d).1.body = .stored v st len) :
    ∃ e, lookup (outOf cfg w r d).2.1 r.res r.query = some e ∧ e.o.ver = v ∧
      (outOf cfg w r d).1.hdrFrom = some e.o := by
  obtain ⟨e, he, h1, h2, hv, hh⟩ := handleEnv_stored cfg (tblFn w.tbl) w.cache (midOf w r d) w.now r v st len hb
  have hu : Uniq (outOf cfg w r d).2.1 := (step_inv cfg w (.request r d) h).uniq
  have := lookup_of_mem hu he
  rw [h1, h2] at this
  exact ⟨e, this, hv, hh⟩

theorem request_cond (cfg : Cfg) (w : World) (h : Inv w) (r : Req) (d : Bool) (u : UpReq)
    (hu : u ∈ (outOf cfg w r d).2.2) (hc : u.inm ≠ "" ∨ u.ims ≠ none) :
    u.res = r.res ∧ u.query = r.query ∧
    ∃ e, e.res = u.res ∧ e.query = u.query ∧ e.expires < w.now ∧ u.inm = e.o.etag ∧ u.ims = lmOf e ∧
      (e.res, e.o) ∈ w.produced ∧
      (lookup w.cache u.res u.query = some e ∨
        (cfg.retryInvalidRange = true ∧ tblFn w.tbl r.res = some e.o ∧
          storable cfg e.o r.method w.now = true ∧ e.expires = lifetimeEnd cfg e.o w.now)) := by
  obtain ⟨k1, k2⟩ := handleEnv_log_key cfg (tblFn w.tbl) w.cache (midOf w r d) w.now r u hu
  obtain ⟨e, hsrc, h1, h2, h3, h4, h5⟩ := handleEnv_cond cfg (tblFn w.tbl) w.cache (midOf w r d) w.now r u hu hc
  refine ⟨k1, k2, e, h1.trans k1.symm, h2.trans k2.symm, h3, h4, h5, ?_, ?_⟩
  · rcases hsrc with hl | ⟨_, ha, _, _⟩
    · exact (h.cache_produced e (lookup_some hl).1).1
    · have := originAnswer_rec (tblFn w.tbl) (upReq r r.range) e.o (by rw [ha]; rfl)
      rw [h1]
      exact h.tbl_produced _ (tblFn_some this)
  · rcases hsrc with hl | ⟨hri, ha, hs, hx⟩
    · rw [k1, k2]; exact Or.inl hl
    · exact Or.inr ⟨hri, originAnswer_rec (tblFn w.tbl) (upReq r r.range) e.o (by rw [ha]; rfl), hs, hx⟩

/-! #### a version that is neither stored under a key nor current at the origin stays unserved -/

/-- no entry under `(res, q)` and no current origin record of `res` has version `v`. -/
structure Gone (res : Nat) (q : String) (v : Nat) (w : World) : Prop where
  cache : ∀ e ∈ w.cache, e.res = res → e.query = q → e.o.ver ≠ v
  tbl : ∀ o, (res, o) ∈ w.tbl → o.ver ≠ v

theorem step_gone (cfg : Cfg) (res : Nat) (q : String) (v : Nat) (w : World) (op : HOp) (h : Gone res q v w)
    (hop : ∀ o, op = .setOrigin res o → o.ver ≠ v) : Gone res q v (step cfg w op).1 := by
  cases op with
  | request r d =>
    rw [step_request]
    refine ⟨?_, h.tbl⟩
    exact handleEnv_good (fun res' q' o => res' = res → q' = q → o.ver ≠ v) cfg (tblFn w.tbl) w.cache
      (midOf w r d) w.now r h.cache (fun e he => h.cache e (mid_sub w r d e he))
      (fun o ho _ hr _ => h.tbl o (by rw [← hr]; exact tblFn_some ho))
  | elapse ms => exact ⟨h.cache, h.tbl⟩
  | setOrigin res' o' =>
    refine ⟨h.cache, ?_⟩
    intro o ho
    rcases List.mem_cons.1 ho with heq | ho
    · simp only [Prod.mk.injEq] at heq
      obtain ⟨rfl, rfl⟩ := heq
      exact hop _ rfl
    · exact h.tbl o (List.mem_filter.1 ho).1
  | removeOrigin res' => exact ⟨h.cache, fun o ho => h.tbl o (List.mem_filter.1 ho).1⟩
  | dropEntry res' q' => exact ⟨fun e he => h.cache e (mem_erase he).1, h.tbl⟩

theorem request_gone (cfg : Cfg) (res : Nat) (q : String) (v : Nat) (w : World) (h : Gone res q v w)
    (r : Req) (d : Bool) (hr : r.res = res) (hq : r.query = q) :
    bodyVersion (outOf cfg w r d).1.body ≠ some v := by
  intro hb
  rcases handleEnv_bodyVersion cfg (tblFn w.tbl) w.cache (midOf w r d) w.now r v hb with
    ⟨o, ho, hv⟩ | ⟨e, he, h1, h2, hv⟩
  · exact h.tbl o (by rw [← hr]; exact tblFn_some ho) hv
  · exact (step_gone cfg res q v w (.request r d) h (fun _ hh => by cases hh)).cache e he
      (h1.trans hr) (h2.trans hq) hv

theorem run_gone (cfg : Cfg) (res : Nat) (q : String) (v : Nat) (ops : List HOp) (w : World) (h : Gone res q v w)
    (hops : ∀ o, HOp.setOrigin res o ∈ ops → o.ver ≠ v)
    (x : Req × Resp × List UpReq) (hx : x ∈ (run cfg ops w).2) (hr : x.1.res = res) (hq : x.1.query = q) :
    bodyVersion x.2.1.body ≠ some v := by
  induction ops generalizing w with
  | nil => cases hx
  | cons op rest ih =>
    have hstep := step_gone cfg res q v w op h (fun o ho => hops o (by rw [ho]; exact List.mem_cons_self))
    have tail : x ∈ (run cfg rest (step cfg w op).1).2 → bodyVersion x.2.1.body ≠ some v :=
      fun hx => ih _ hstep (fun o ho => hops o (List.mem_cons_of_mem _ ho)) hx
    rw [run_cons_snd] at hx
    cases op with
    | request r d =>
      rcases List.mem_cons.1 hx with rfl | hx
      · exact request_gone cfg res q v w h r d hr hq
      · exact tail hx
    | elapse ms => exact tail hx
    | setOrigin res' o => exact tail hx
    | removeOrigin res' => exact tail hx
    | dropEntry res' q' => exact tail hx

end Rv.Lemmas.History
