import Rv.Oracle

partial def loop (h : IO.FS.Stream) (out : IO.FS.Stream) : IO Unit := do
  let line ← h.getLine
  if line.isEmpty then return ()
  let l := if line.back == '\n' then (line.dropEnd 1).toString else line
  out.putStrLn (Rv.Oracle.step l)
  loop h out

def main : IO Unit := do
  let out ← IO.getStdout
  loop (← IO.getStdin) out
  out.flush
