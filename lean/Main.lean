import Rv.Oracle

partial def loop (h : IO.FS.Stream) (out : IO.FS.Stream) (st : Rv.Oracle.OState) : IO Unit := do
  let line ← h.getLine
  if line.isEmpty then return ()
  let l := if line.back == '\n' then (line.dropEnd 1).toString else line
  let (st', o) := Rv.Oracle.step st l
  out.putStrLn o
  loop h out st'

def main : IO Unit := do
  let out ← IO.getStdout
  loop (← IO.getStdin) out {}
  out.flush
