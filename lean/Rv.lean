-- This module serves as the root of the `Rv` library.
-- Import modules here that should be built as part of the library.
import Rv.Basic
