import Rv.Basic
import Rv.Model.Range
import Rv.Spec.Range
import Rv.Lemmas.Range
import Rv.Props.C07
import Rv.Oracle
