import Rv.Generated.LockFacts
import Rv.Model.Access
/-
  C15 static family: from the regenerated lock programs, print every access
  context of the curated shared locations (`ac site`) and every conflicting pair
  of contexts (`ac pair`) as op lines for the oracle. Run with
  `lake env lean --run GenAccessPairs.lean` (interpreted; nothing here is trusted
  beyond what the oracle re-judges).
-/
open Rv.Locks Rv.Access Rv.Generated

def heldStr (h : List Held) : String :=
  if h.isEmpty then "-" else ",".intercalate (h.map (fun x => x.cls ++ (if x.shared then ":r" else ":w")))

def main : IO Unit := do
  let rs := roots lockFacts
  let accs := collect lockFacts 20000 rs [] []
  let accs := accs.foldl (fun (l : List Acc) a => if l.contains a then l else l ++ [a]) []
  IO.println "ac\treset\t=>\tok"
  for a in accs do
    IO.println s!"ac\tsite\t{a.loc}\t{a.kind}\t{a.fn}\t{a.src}\t{heldStr a.held}\t=>\tsite"
  let mut seen : List String := []
  for a in accs do
    for b in accs do
      if conflicting a b && (a.src < b.src || (a.src = b.src && (heldStr a.held ≤ heldStr b.held))) then
        let key := s!"{a.loc}|{a.src}|{heldStr a.held}|{b.src}|{heldStr b.held}"
        if !seen.contains key then
          seen := key :: seen
          IO.println s!"ac\tpair\t{a.loc}\t{a.kind}\t{a.fn}\t{a.src}\t{heldStr a.held}\t{b.kind}\t{b.fn}\t{b.src}\t{heldStr b.held}\t=>\textracted"
  IO.eprintln s!"roots={rs.length} sites={accs.length} pairs={seen.length}"
