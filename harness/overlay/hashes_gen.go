package csp

// Stand-in for the generated CSP constant (go generate ./webserver/dashboard/csp needs the
// frontend build, which this checkout does not have). Supplied through `go build -overlay`
// by the verification harness only; nothing is written into /repo.
const Header = "default-src 'self'"
