package main

// durlevel — C17: durations and log levels are saved in a form that reads back to the identical value.
// The real code: utils/duration.Duration's MarshalJSON / UnmarshalJSON (time.Duration.String, time.ParseDuration) and
// slog.Level's MarshalJSON / UnmarshalJSON, i.e. exactly what encoding/json calls for the configuration file.
//   dur <int64>   => hex(saved text) | ok:<value read back> / err
//   pdur <hex>    => ok:<ns> / err              (what a hand-edited file value means)
//   lvl <int>     => hex(saved text) | ok:<value read back> / err
//   plvl <hex>    => ok:<level> / err

import (
	"encoding/json"
	"fmt"
	"log/slog"
	"math"
	"strconv"
	"strings"

	"reservoir/utils/duration"
)

func jsonText(v any) (string, bool) {
	b, err := json.Marshal(v)
	if err != nil {
		return "", false
	}
	var s string
	if json.Unmarshal(b, &s) != nil {
		return "", false
	}
	return s, true
}

func init() {
	families["durlevel"] = Family{
		NewExec: func(c runCfg, o *Out) func([]string) string {
			return func(f []string) (obs string) {
				defer func() {
					if r := recover(); r != nil {
						obs = "panic"
					}
				}()
				switch f[0] {
				case "dur":
					n, _ := strconv.ParseInt(f[1], 10, 64)
					o.Count("dur")
					txt, ok := jsonText(duration.Duration(n))
					if !ok {
						return "-|err"
					}
					q, _ := json.Marshal(txt)
					var back duration.Duration
					if err := json.Unmarshal(q, &back); err != nil {
						return hx(txt) + "|err"
					}
					return hx(txt) + "|ok:" + strconv.FormatInt(int64(back), 10)
				case "pdur":
					o.Count("pdur")
					q, _ := json.Marshal(unhx(f[1]))
					var back duration.Duration
					if err := json.Unmarshal(q, &back); err != nil {
						o.Count("pdur:err")
						return "err"
					}
					o.Count("pdur:ok")
					return "ok:" + strconv.FormatInt(int64(back), 10)
				case "lvl":
					n, _ := strconv.ParseInt(f[1], 10, 64)
					o.Count("lvl")
					txt, ok := jsonText(slog.Level(n))
					if !ok {
						return "-|err"
					}
					q, _ := json.Marshal(txt)
					var back slog.Level
					if err := json.Unmarshal(q, &back); err != nil {
						return hx(txt) + "|err"
					}
					return hx(txt) + "|ok:" + strconv.FormatInt(int64(back), 10)
				case "plvl":
					o.Count("plvl")
					q, _ := json.Marshal(unhx(f[1]))
					var back slog.Level
					if err := json.Unmarshal(q, &back); err != nil {
						o.Count("plvl:err")
						return "err"
					}
					o.Count("plvl:ok")
					return "ok:" + strconv.FormatInt(int64(back), 10)
				}
				die("durlevel: bad line %v", f)
				return ""
			}
		},
		Gen: func(c runCfg, o *Out, emit func(...string)) {
			r := NewRng(c.seed)
			n := 1500
			if c.tier == "thorough" {
				n = 40000
			}
			if c.n > 0 {
				n = c.n
			}
			i64 := func(v int64) string { return strconv.FormatInt(v, 10) }
			bounds := []int64{0, 1, -1, 999, 1000, 1001, 999999, 1000000, 999999999, 1000000000, 1000000001, 59999999999, 60000000000, 3599999999999, 3600000000000,
				5400000000000, 86400000000000, math.MaxInt64, math.MinInt64, math.MaxInt64 - 1, math.MinInt64 + 1, 1 << 53, 1<<53 + 1, -(1 << 53) - 1, 1500, 1500000, 1500000000}
			for _, b := range bounds {
				emit("dur", i64(b))
				emit("dur", i64(-b))
			}
			p10 := int64(1)
			for k := 0; k < 19; k++ {
				emit("dur", i64(p10))
				emit("dur", i64(p10-1))
				emit("dur", i64(p10+1))
				emit("dur", i64(-p10))
				p10 *= 10
			}
			for i := 0; i < n; i++ {
				var v int64
				switch r.Intn(5) {
				case 0:
					v = int64(r.U64())
				case 1:
					v = int64(r.U64() % uint64(1e12))
				case 2:
					v = int64(r.U64()%100000) * int64([]int64{1, 1000, 1000000, 1000000000, 60000000000, 3600000000000}[r.Intn(6)])
				case 3:
					v = -int64(r.U64() % uint64(1e15))
				default:
					v = int64(r.U64() % 5000)
				}
				emit("dur", i64(v))
			}
			for l := -40; l <= 40; l++ {
				emit("lvl", i64(int64(l)))
			}
			for _, l := range []int64{math.MaxInt32, math.MinInt32, math.MaxInt64, math.MinInt64, math.MaxInt64 - 3, math.MinInt64 + 8, 1 << 40, -(1 << 40)} {
				emit("lvl", i64(l))
			}
			for i := 0; i < n/4; i++ {
				emit("lvl", i64(int64(r.U64())>>uint(r.Intn(60))))
			}
			// hand-edited values
			odd := []string{"", "0", "-0", "+0", "1", "1s", " 1s", "1s ", "1.5h", ".5s", "5.s", "1h1h", "1e3s", "1µs", "1μs", "1us", "µs", "1.5ns", "0.000000001s", "0.0000000001s",
				"9223372036854775807ns", "9223372036854775808ns", "-9223372036854775808ns", "-9223372036854775809ns", "2562047h47m16.854775807s", "2562047h47m16.854775808s", "2562048h",
				"1h30m", "90m", "1.5m", "1d", "1w", "1H", "1S", "--1s", "+-1s", "1s1", "1..5s", "1.5.5s", "0.3333333333333333333333h", "9223372036854775808ns9223372036854775808ns",
				"00000000000000000000001s", "1.00000000000000000000001s", "1m\x00", "\xc2\xb5s", "1\xc2s"}
			for _, s := range odd {
				emit("pdur", hx(s))
			}
			units := []string{"ns", "us", "µs", "ms", "s", "m", "h", "x", ""}
			for i := 0; i < n/3; i++ {
				var sb strings.Builder
				if r.Chance(20) {
					sb.WriteString(r.Pick([]string{"-", "+"}))
				}
				for k := 0; k < 1+r.Intn(3); k++ {
					sb.WriteString(strconv.FormatUint(r.U64()%uint64([]uint64{10, 1000, 100000, 1 << 40, 1 << 63}[r.Intn(5)]), 10))
					if r.Chance(40) {
						sb.WriteString("." + strconv.FormatUint(r.U64()%uint64([]uint64{10, 1000, 1000000000, 1 << 62}[r.Intn(4)]), 10))
					}
					sb.WriteString(r.Pick(units))
				}
				emit("pdur", hx(sb.String()))
			}
			lodd := []string{"", "INFO", "info", "Info", "DEBUG", "WARN", "ERROR", "WARNING", "INFO+2", "INFO-2", "INFO+", "INFO+-3", "INFO++3", "INFO+1_000", "ERROR+9223372036854775807",
				"DEBUG-9223372036854775808", "TRACE", "INFO+0", "INFO-0", "ERROR+4", " INFO", "INFO ", "ınfo", "INFO+2147483648", "info+007", "0", "4", "-4"}
			for _, s := range lodd {
				emit("plvl", hx(s))
			}
			names := []string{"DEBUG", "INFO", "WARN", "ERROR", "debug", "Warn", "FATAL", ""}
			for i := 0; i < n/5; i++ {
				s := r.Pick(names)
				if r.Chance(70) {
					s += r.Pick([]string{"+", "-", "+-", ""}) + fmt.Sprint(int64(r.U64())>>uint(20+r.Intn(43)))
				}
				emit("plvl", hx(s))
			}
		},
	}
}
