package main

import (
	"sync/atomic"
	"bufio"
	"bytes"
	"context"
	"crypto/tls"
	"fmt"
	"log/slog"
	"net/http"
	"net/url"
	"path"
	"strconv"
	"strings"
	"sync"
	"time"

	"reservoir/cache"
	"reservoir/proxy/headers"
	"reservoir/utils/bytesize"
	"reservoir/utils/phc"
)

// ---------------------------------------------------------------- bytesize

func bsParse(s string) (obs string) {
	defer func() {
		if r := recover(); r != nil {
			obs = "panic"
		}
	}()
	v, err := bytesize.Parse(s)
	if err != nil {
		return "err"
	}
	return "ok:" + strconv.FormatInt(int64(v), 10)
}

func bsRound(n int64) (obs string) {
	defer func() {
		if r := recover(); r != nil {
			obs = "panic"
		}
	}()
	str := bytesize.ByteSize(n).String()
	return hx(str) + "|" + bsParse(str)
}

func init() {
	families["bytesize"] = Family{
		NewExec: func(c runCfg, o *Out) func([]string) string {
			return func(f []string) string {
				switch f[0] {
				case "bsparse":
					obs := bsParse(unhx(f[1]))
					o.Count("parse:" + strings.SplitN(obs, ":", 2)[0])
					return obs
				case "bsround":
					n, _ := strconv.ParseInt(f[1], 10, 64)
					o.Count("round")
					return bsRound(n)
				}
				die("bytesize: bad line %v", f)
				return ""
			}
		},
		Gen: func(c runCfg, o *Out, emit func(...string)) {
			r := NewRng(c.seed)
			alpha := []byte("0159BKMGTkb- +x")
			maxLen := 4
			if c.tier == "thorough" {
				maxLen = 5
			}
			var rec func(p []byte, d int)
			rec = func(p []byte, d int) {
				o.Count("gen:exhaustive")
				emit("bsparse", hx(string(p)))
				if d == maxLen {
					return
				}
				for _, ch := range alpha {
					rec(append(p[:len(p):len(p)], ch), d+1)
				}
			}
			rec(nil, 0)
			units := "BKMGT"
			nums := []string{"0", "1", "7", "1023", "1024", "1536", "8388607", "8796093022207", "8796093022208", "9007199254740993", "9223372036854775807", "9223372036854775808", "18446744073709551616", "99999999999999999999", "0000000000000000000000012"}
			for _, n := range nums {
				for _, u := range units {
					o.Count("gen:boundary")
					emit("bsparse", hx(n+string(u)))
					emit("bsparse", hx(n+string(u)+"5"))
					emit("bsparse", hx(n+string(u)+string(u)))
				}
				emit("bsparse", hx(n))
			}
			for _, s := range []string{"", "K", "5K5", "5Kxyz", "5", "5 K", " 5K", "5K ", "５K", "5\xffK", "5é", "-5K", "+5K", "5k", "5KB", "5.5K"} {
				o.Count("gen:shape")
				emit("bsparse", hx(s))
			}
			n := 20000
			if c.tier == "thorough" {
				n = 300000
			}
			if c.n > 0 {
				n = c.n
			}
			for i := 0; i < n; i++ {
				var v int64
				switch r.Intn(6) {
				case 0:
					v = int64(r.Intn(5000))
				case 1:
					v = int64(r.Intn(1<<20)) * (1 << uint(10*r.Intn(5)))
				case 2:
					v = int64(r.U64() >> 1)
				case 3:
					v = (int64(1) << uint(r.Intn(63))) + int64(r.Intn(3)) - 1
				case 4:
					v = int64(r.Intn(8191)+1) * (1 << uint(10*r.Intn(5)))
				default:
					v = int64(r.U64()>>1) >> uint(r.Intn(63))
				}
				if v < 0 {
					v = 0
				}
				o.Count("gen:roundtrip")
				emit("bsround", strconv.FormatInt(v, 10))
			}
		},
	}
}

// -------------------------------------------------------------- directives

const dirBadExpires = "0|-1|garbage|Sunday, 06-Nov-94 08:49:37 GMT|Sun Nov  6 08:49:37 1994|Mon, 02 Jan 2006 15:04:05 MST|2006-01-02T15:04:05Z"

func decodeList(f string) []string {
	if f == "[]" {
		return nil
	}
	parts := strings.Split(f, ";")
	out := make([]string, len(parts))
	for i, p := range parts {
		out[i] = unhx(p)
	}
	return out
}

func encodeList(xs []string) string {
	if len(xs) == 0 {
		return "[]"
	}
	parts := make([]string, len(xs))
	for i, x := range xs {
		parts[i] = hx(x)
	}
	return strings.Join(parts, ";")
}

// dirExec: fields dir, lines, ekind(absent|bad:<i>|at), offsetSec, ignore, force, dfltSec
func dirExec(f []string) (obs string) {
	defer func() {
		if r := recover(); r != nil {
			obs = "panic"
		}
	}()
	lines := decodeList(f[1])
	off, _ := strconv.ParseInt(f[3], 10, 64)
	ignore, force := f[4] == "1", f[5] == "1"
	dflt, _ := strconv.ParseInt(f[6], 10, 64)
	for attempt := 0; attempt < 5; attempt++ {
		h := http.Header{}
		if len(lines) > 0 {
			h["Cache-Control"] = lines
		}
		t0 := time.Now()
		base := t0.Truncate(time.Second)
		switch {
		case f[2] == "absent":
		case strings.HasPrefix(f[2], "bad:"):
			i, _ := strconv.Atoi(f[2][4:])
			bad := strings.Split(dirBadExpires, "|")
			h["Expires"] = []string{bad[i%len(bad)]}
		case f[2] == "at":
			h["Expires"] = []string{base.Add(time.Duration(off) * time.Second).UTC().Format(http.TimeFormat)}
		}
		hd := headers.ParseHeaderDirective(h)
		store := hd.ShouldCache(ignore)
		exp := hd.GetExpiresOrDefault(force, time.Duration(dflt)*time.Second)
		t1 := time.Now()
		if t1.Sub(t0) > 200*time.Millisecond || base != t1.Truncate(time.Second) && f[2] == "at" {
			continue // clock bracket too wide or second boundary crossed: repeat, do not judge
		}
		var e string
		switch {
		case exp.IsZero():
			e = "zero"
		case exp.Nanosecond() == 0 && f[2] == "at" && exp.Equal(base.Add(time.Duration(off)*time.Second)):
			e = "rel:" + strconv.FormatInt(off, 10)
		default:
			d := exp.Sub(t0)
			e = "rel:" + strconv.FormatInt(int64((d+500*time.Millisecond)/time.Second), 10)
		}
		s := "0"
		if store {
			s = "1"
		}
		return "store=" + s + ";exp=" + e
	}
	return "unstable-clock"
}

func init() {
	families["directives"] = Family{
		NewExec: func(c runCfg, o *Out) func([]string) string {
			return func(f []string) string {
				if f[0] != "dir" || len(f) != 7 {
					die("directives: bad line %v", f)
				}
				obs := dirExec(f)
				o.Count("obs:" + strings.SplitN(obs, ";", 2)[0])
				return obs
			}
		},
		Gen: func(c runCfg, o *Out, emit func(...string)) {
			r := NewRng(c.seed)
			tok := []string{"no-cache", "no-store", "private", "public", "must-revalidate", "max-age=60", "max-age=0", "max-age=1", "max-age=-5", "max-age=+7", "max-age=abc", "max-age=", "max-age=9223372036", "max-age=9223372037", "max-age=9223372036854775807", "max-age=9223372036854775808", "max-age=3600", "s-maxage=10", "max-age=\"60\"", "max-age=\"", "max-age=\"\"", "max-age=\"60", "max-age=60\"", "max-age='", "max-age==", "max-age=\" ", "MAX-AGE=\"", "max-age =60", "no-cache=\"set-cookie\"", "", "immutable", "max-age=2"}
			flip := func(s string) string {
				b := []byte(s)
				for i := range b {
					if r.Chance(50) && b[i] >= 'a' && b[i] <= 'z' {
						b[i] -= 32
					}
				}
				return string(b)
			}
			mkLine := func() string {
				n := 1 + r.Intn(3)
				if r.Chance(10) {
					n = 0
				}
				parts := []string{}
				for i := 0; i < n; i++ {
					t := r.Pick(tok)
					if r.Chance(30) {
						t = flip(t)
					}
					if r.Chance(50) {
						t = " " + t
					}
					if r.Chance(15) {
						t = t + "\t "
					}
					parts = append(parts, t)
				}
				return strings.Join(parts, ",")
			}
			offsets := []int64{-86400, -3600, -7, 7, 61, 3601, 86401}
			n := 6000
			if c.tier == "thorough" {
				n = 60000
			}
			if c.n > 0 {
				n = c.n
			}
			one := func(lines []string, ek string, off int64, ig, fo bool, dflt int64) {
				b := func(x bool) string {
					if x {
						return "1"
					}
					return "0"
				}
				o.Count("gen:lines" + strconv.Itoa(len(lines)))
				o.Count("gen:e:" + strings.SplitN(ek, ":", 2)[0])
				emit("dir", encodeList(lines), ek, strconv.FormatInt(off, 10), b(ig), b(fo), strconv.FormatInt(dflt, 10))
			}
			// every single token, every Expires form, every flag combination
			for _, t := range tok {
				for _, ek := range []string{"absent", "bad:0", "at"} {
					for fl := 0; fl < 4; fl++ {
						for _, off := range []int64{-7, 61} {
							one([]string{t}, ek, off, fl&1 == 1, fl&2 == 2, 120)
							one([]string{flip(t)}, ek, off, fl&1 == 1, fl&2 == 2, 120)
						}
					}
				}
			}
			for i := 0; i < 7; i++ {
				for fl := 0; fl < 4; fl++ {
					one(nil, "bad:"+strconv.Itoa(i), 0, fl&1 == 1, fl&2 == 2, 300)
				}
			}
			for i := 0; i < n; i++ {
				nl := r.Intn(3)
				if r.Chance(20) {
					nl = 0
				}
				lines := []string{}
				for j := 0; j < nl; j++ {
					lines = append(lines, mkLine())
				}
				ek := "absent"
				switch r.Intn(4) {
				case 0:
					ek = "bad:" + strconv.Itoa(r.Intn(7))
				case 1, 2:
					ek = "at"
				}
				one(lines, ek, offsets[r.Intn(len(offsets))], r.Chance(25), r.Chance(25), []int64{2, 60, 120, 3600, 86400}[r.Intn(5)])
			}
		},
	}
}

// --------------------------------------------------------------------- key

// captureKey installs a slog handler that records the "key" attribute of the
// "Creating cache key" debug record: the pre-hash key string, observed without
// touching MakeFromRequest.
type keyCapture struct {
	mu   sync.Mutex
	last string
}

func (k *keyCapture) Enabled(context.Context, slog.Level) bool { return true }
func (k *keyCapture) Handle(_ context.Context, r slog.Record) error {
	if r.Message == "Creating cache key" {
		r.Attrs(func(a slog.Attr) bool {
			if a.Key == "key" {
				k.mu.Lock()
				k.last = a.Value.String()
				k.mu.Unlock()
			}
			return true
		})
	}
	return nil
}
func (k *keyCapture) WithAttrs([]slog.Attr) slog.Handler { return k }
func (k *keyCapture) WithGroup(string) slog.Handler      { return k }

// mkReq: `p` is the path AS WRITTEN on the request line (the escaped form, url.URL.EscapedPath): the form the origin
// is asked for and, since fix 248331e, the form the cache key is built from.
func mkReq(tlsOn bool, method, host, p, q string) *http.Request {
	u := &url.URL{Path: p, RawQuery: q}
	// exactly what net/http hands the handler for this request line: Path decoded, RawPath set only when the spelling
	// differs from the default encoding of Path (url.setPath)
	if pu, err := url.ParseRequestURI(p); err == nil && strings.HasPrefix(p, "/") && !strings.ContainsAny(p, "?#") {
		u.Path, u.RawPath = pu.Path, pu.RawPath
	} else if dec, err := url.PathUnescape(p); err == nil {
		u.Path, u.RawPath = dec, p
	}
	r := &http.Request{Method: method, Host: host, URL: u, Header: http.Header{}}
	if tlsOn {
		r.TLS = &tls.ConnectionState{}
	}
	return r
}

func init() {
	families["key"] = Family{
		NewExec: func(c runCfg, o *Out) func([]string) string {
			kc := &keyCapture{}
			prev := slog.Default()
			_ = prev
			slog.SetDefault(slog.New(kc))
			return func(f []string) (obs string) {
				defer func() {
					if r := recover(); r != nil {
						obs = "panic"
					}
				}()
				switch f[0] {
				case "key":
					kc.last = "<no-log-record>"
					cache.MakeFromRequest(mkReq(f[1] == "1", unhx(f[2]), unhx(f[3]), unhx(f[4]), unhx(f[5])))
					o.Count("key")
					return hx(kc.last)
				case "keypair":
					a := cache.MakeFromRequest(mkReq(f[1] == "1", unhx(f[2]), unhx(f[3]), unhx(f[4]), unhx(f[5])))
					b := cache.MakeFromRequest(mkReq(f[1] == "1", unhx(f[6]), unhx(f[7]), unhx(f[8]), unhx(f[9])))
					if a.Hex == b.Hex {
						o.Count("pair:same")
						return "same"
					}
					o.Count("pair:diff")
					return "diff"
				case "keycrowd": // goroutines perGoroutine : many requests keyed AT THE SAME MOMENT: the key of a request depends on that request alone
					g, _ := strconv.Atoi(f[1])
					per, _ := strconv.Atoi(f[2])
					reqs := make([]*http.Request, 64)
					ref := make([]string, 64)
					for i := range reqs {
						reqs[i] = mkReq(false, "GET", "crowd.example", fmt.Sprintf("/items/%04d", i), fmt.Sprintf("rev=%04d", 9999-i))
						ref[i] = cache.MakeFromRequest(reqs[i]).Hex
					}
					var wrong int64
					var wg sync.WaitGroup
					for w := 0; w < g; w++ {
						wg.Add(1)
						go func(w int) {
							defer wg.Done()
							for j := 0; j < per; j++ {
								i := (w*31 + j*7) % 64
								if cache.MakeFromRequest(reqs[i]).Hex != ref[i] {
									atomic.AddInt64(&wrong, 1)
								}
							}
						}(w)
					}
					wg.Wait()
					o.Count("keycrowd")
					if wrong == 0 {
						return "all-keys-their-own"
					}
					return fmt.Sprintf("%d of %d concurrently computed keys differ from the key of the same request computed alone", wrong, g*per)
				case "clean":
					o.Count("clean")
					return hx(path.Clean(unhx(f[1])))
				}
				die("key: bad line %v", f)
				return ""
			}
		},
		Gen: func(c runCfg, o *Out, emit func(...string)) {
			r := NewRng(c.seed)
			// 1. path.Clean cross-check, bounded-exhaustive
			maxLen := 8
			if c.tier == "thorough" {
				maxLen = 11
			}
			var rec func(p []byte, d int)
			rec = func(p []byte, d int) {
				emit("clean", hx(string(p)))
				if d == maxLen {
					return
				}
				for _, ch := range []byte("a/.") {
					rec(append(p[:len(p):len(p)], ch), d+1)
				}
			}
			rec(nil, 0)
			emit("keycrowd", "16", "40000")
			// 2. requests parsed from wire bytes by net/http
			wire := func(method, target, host string) (m, h, p, q string, ok bool) {
				raw := method + " " + target + " HTTP/1.1\r\nHost: " + host + "\r\n\r\n"
				req, err := http.ReadRequest(bufio.NewReader(bytes.NewReader([]byte(raw))))
				if err != nil {
					return "", "", "", "", false
				}
				return req.Method, req.Host, req.URL.EscapedPath(), req.URL.RawQuery, true
			}
			methods := []string{"GET", "HEAD", "POST", "G|T", "GET|5:x", "get"}
			hosts := []string{"h", "H", "example.com", "EXAMPLE.com", "example.com:80", "h|3:GET", "1:h", "[::1]:8080"}
			segs := []string{"a", "b", ".", "..", "", "a|b", "%7C", "a%2Fb", "5:x", "a.", "..a", "%2e", "%2E%2e", "a%252Fb", "%2541", "%25", "a%2fb", "%41"}
			mkPath := func() string {
				n := r.Intn(5)
				p := ""
				for i := 0; i < n; i++ {
					p += "/" + r.Pick(segs)
				}
				if r.Chance(35) || p == "" {
					p += "/"
				}
				return p
			}
			queries := []string{"", "c", "b|c", "x=1", "x=1&y=2", "|", "3:abc", "a%7Cb", "?"}
			mkTarget := func(p, q string) string {
				t := p
				if q != "" || r.Chance(5) {
					t += "?" + q
				}
				return t
			}
			n := 5000
			if c.tier == "thorough" {
				n = 80000
			}
			if c.n > 0 {
				n = c.n
			}
			for i := 0; i < n; i++ {
				m1, h1, p1, q1 := r.Pick(methods), r.Pick(hosts), mkPath(), r.Pick(queries)
				am, ah, ap, aq, ok := wire(m1, mkTarget(p1, q1), h1)
				if !ok {
					o.Count("gen:wire-rejected")
					continue
				}
				tlsOn := "0"
				if r.Chance(20) {
					tlsOn = "1"
				}
				emit("key", tlsOn, hx(am), hx(ah), hx(ap), hx(aq))
				// related second request: mutate one component
				m2, h2, p2, q2 := m1, h1, p1, q1
				mut := r.Intn(10)
				switch mut {
				case 0:
					h2 = strings.ToUpper(h1)
				case 1:
					p2 = strings.TrimSuffix(p1, "/")
					if p2 == p1 {
						p2 = p1 + "/"
					}
				case 2:
					p2 = strings.Replace(p1, "/", "//", 1)
				case 3:
					p2 = strings.Replace(p1, "/", "/./", 1)
				case 4:
					p2 = "/x/.." + p1
				case 5: // move a separator across the path/query boundary
					p2, q2 = p1+"%7C"+strings.SplitN(q1+"|", "|", 2)[0], strings.TrimPrefix(strings.SplitN(q1+"|", "|", 2)[1], "|")
				case 6:
					m2 = r.Pick(methods)
				case 7:
					q2 = r.Pick(queries)
				case 8:
					p2 = mkPath()
				default:
					h2 = r.Pick(hosts)
				}
				o.Count(fmt.Sprintf("gen:mut%d", mut))
				bm, bh, bp, bq, ok := wire(m2, mkTarget(p2, q2), h2)
				if !ok {
					o.Count("gen:wire-rejected")
					continue
				}
				emit("keypair", tlsOn, hx(am), hx(ah), hx(ap), hx(aq), hx(bm), hx(bh), hx(bp), hx(bq))
			}
			// length-prefix arithmetic: components whose lengths differ by a power of two, with the separator and the
			// tail of one component moved into the next (collide iff a length prefix is truncated or wraps)
			for _, k := range []int{256, 512, 4096, 65536} {
				fill := strings.Repeat("x", k-3) // "/dl%7C"+fill is k bytes longer than "/dl"
				am, ah, ap, aq, ok1 := wire("GET", "/dl?"+fill+"|sig=1", "h")
				bm, bh, bp, bq, ok2 := wire("GET", "/dl%7C"+fill+"?sig=1", "h")
				if ok1 && ok2 {
					emit("keypair", "0", hx(am), hx(ah), hx(ap), hx(aq), hx(bm), hx(bh), hx(bp), hx(bq))
				}
			}
			// the two literal collisions of the unfixed tree
			for _, pr := range [][2]string{{"/a%7Cb?c", "/a?b|c"}, {"/dir/", "/dir"}, {"/a/.", "/a/"}, {"/a/b/..", "/a/"}, {"/a/.", "/a"},
				{"/a%252Fb", "/a%2Fb"}, {"/v/%2541", "/v/%41"}, {"/v/%41", "/v/A"}, {"/q/x%253Dy?k=1", "/q/x%3Dy?k=1"}, {"/a%25", "/a%2525"},
				{"/a%2Fb", "/a/b"}, {"/a%2fb", "/a/b"}, {"/a%2Fb/", "/a/b/"}, {"/x/a%2F..", "/x/"}, {"/a%3Fb", "/a?b"}, {"/a%2F%2Fb", "/a/b"}} {
				am, ah, ap, aq, _ := wire("GET", pr[0], "h")
				bm, bh, bp, bq, _ := wire("GET", pr[1], "h")
				emit("keypair", "0", hx(am), hx(ah), hx(ap), hx(aq), hx(bm), hx(bh), hx(bp), hx(bq))
			}
		},
	}
}

// --------------------------------------------------------------------- phc

func init() {
	families["phc"] = Family{
		NewExec: func(c runCfg, o *Out) func([]string) string {
			return func(f []string) (obs string) {
				defer func() {
					if r := recover(); r != nil {
						obs = "panic"
					}
				}()
				if f[0] != "phc" {
					die("phc: bad line %v", f)
				}
				p, err := phc.ParsePHC(unhx(f[1]))
				if err != nil {
					o.Count("obs:err")
					return "err"
				}
				o.Count("obs:ok")
				return "ok:" + hx(p.String())
			}
		},
		Gen: genPHC,
	}
}

func genPHC(c runCfg, o *Out, emit func(...string)) {
	r := NewRng(c.seed)
	const b64 = "ABCDEFGHIJKLMNOPQRSTUVWXYZabcdefghijklmnopqrstuvwxyz0123456789+/"
	randB64 := func(n int) string {
		b := make([]byte, n)
		for i := range b {
			b[i] = b64[r.Intn(64)]
		}
		return string(b)
	}
	ids := []string{"argon2id", "argon2id", "argon2id", "argon2i", "", "ARGON2ID"}
	vers := []string{"v=19", "v=19", "v=16", "v=", "v=x", "19", "v=-5", "v=+7", "v=99999999999999999999", "V=19"}
	params := []string{"m=65536,t=1,p=2,l=32", "m=65536,t=1,p=2", "m=1,t=1,p=1,l=4", "m=0,t=1,p=1", "m=65536,t=1", "", "m=65536,,t=1,p=2", "m=4294967295,t=4294967295,p=255", "m=4294967296,t=1,p=1", "m=1,t=1,p=256", "m=1,t=1,p=1,x=9", "m=1,t=1,p=1,x", "m=-1,t=1,p=1", "m=+1,t=1,p=1", "m=1,t=1,p=1,l=0", "m==1,t=1,p=1", "p=2,t=1,m=8,l=32", "m=1,t=1,p=1,m=0"}
	n := 4000
	if c.tier == "thorough" {
		n = 60000
	}
	if c.n > 0 {
		n = c.n
	}
	one := func(class, s string) {
		o.Count("gen:" + class)
		emit("phc", hx(s))
	}
	// salt of every base64 length 0..60 (decoded 0..45 bytes) with a fixed valid rest
	for l := 0; l <= 60; l++ {
		one("saltlen", "$argon2id$v=19$m=65536,t=1,p=2,l=32$"+randB64(l)+"$"+randB64(43))
		one("saltlen", "$argon2id$v=19$m=65536,t=1,p=2$"+randB64(l)+"$"+randB64(22))
	}
	for l := 0; l <= 50; l++ {
		one("hashlen", "$argon2id$v=19$m=65536,t=1,p=2,l=32$"+randB64(22)+"$"+randB64(l))
		one("hashlen", "$argon2id$v=19$m=65536,t=1,p=2$"+randB64(22)+"$"+randB64(l))
	}
	for _, s := range []string{"", " ", "$", "$$$$$", "$$$$", "argon2id$v=19$m=1,t=1,p=1$" + "AAAAAAAAAAAAAAAAAAAAAA" + "$AAAA", "$$argon2id$v=19$m=1,t=1,p=1$AAAAAAAAAAAAAAAAAAAAAA$AAAA", "  $argon2id$v=19$m=1,t=1,p=1$AAAAAAAAAAAAAAAAAAAAAA$AAAA\n", "$argon2id$v=19$m=1,t=1,p=1$AAAAAAAAAAAAAAAAAAAAAA==$AAAA", "$argon2id$v=19$m=1,t=1,p=1$AAAAAAAAAAA\nAAAAAAAAAAA$AAAA", "$argon2id$v=19$m=1,t=1,p=1$AAAAAAAAAAAAAAAAAAAAA*$AAAA", "$argon2id$v=19$m=1,t=1,p=1$AAAAAAAAAAAAAAAAAAAAAB$AAAB"} {
		one("shape", s)
	}
	for i := 0; i < n; i++ {
		saltLen := 22
		if r.Chance(30) {
			saltLen = r.Intn(60)
		}
		hashLen := 43
		if r.Chance(30) {
			hashLen = r.Intn(60)
		}
		parts := []string{r.Pick(ids), r.Pick(vers), r.Pick(params), randB64(saltLen), randB64(hashLen)}
		if r.Chance(10) {
			parts = parts[:r.Intn(5)]
		}
		if r.Chance(5) {
			parts = append(parts, "extra")
		}
		s := strings.Join(parts, "$")
		if r.Chance(85) {
			s = "$" + s
		}
		if r.Chance(10) {
			s = " " + s + "\n"
		}
		if r.Chance(10) && len(s) > 0 {
			b := []byte(s)
			b[r.Intn(len(b))] = "$=,+-\n Az09"[r.Intn(11)]
			s = string(b)
		}
		one("random", s)
	}
}
