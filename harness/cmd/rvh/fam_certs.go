package main

// certs — the real certs.PrivateCA over a throw-away CA: GetCertForHost for
// generated CONNECT targets, with every returned certificate verified by the
// real crypto/x509 (chain to the CA, host name / IP, validity now) and its key
// pair checked; reuse by pointer identity; expiry through the VerifSetNotAfter
// hook; k goroutines released together for concurrent first requests.

import (
	"crypto/ecdsa"
	"crypto/tls"
	"crypto/x509"
	"fmt"
	"net"
	"os"
	"strconv"
	"sync"
	"time"

	"reservoir/proxy/certs"
)

type ceState struct {
	ca   *certs.PrivateCA
	pool *x509.CertPool
	ids  map[*tls.Certificate]int
	last map[string]*tls.Certificate // host -> certificate most recently returned for it
	dir  string
}

func (s *ceState) idOf(c *tls.Certificate) int {
	if id, ok := s.ids[c]; ok {
		return id
	}
	id := len(s.ids)
	s.ids[c] = id
	return id
}

func (s *ceState) describe(c *tls.Certificate, host string) string {
	leaf := c.Leaf
	san := "none"
	switch {
	case len(leaf.IPAddresses) == 1 && len(leaf.DNSNames) == 0:
		san = "ip:" + hx(leaf.IPAddresses[0].String())
		if ip := net.ParseIP(host); ip != nil && ip.Equal(leaf.IPAddresses[0]) {
			san = "ip:" + hx(host)
		}
	case len(leaf.DNSNames) == 1 && len(leaf.IPAddresses) == 0:
		san = "dns:" + hx(leaf.DNSNames[0])
	default:
		san = fmt.Sprintf("odd(%d,%d)", len(leaf.DNSNames), len(leaf.IPAddresses))
	}
	opts := x509.VerifyOptions{Roots: s.pool, CurrentTime: time.Now(), KeyUsages: []x509.ExtKeyUsage{x509.ExtKeyUsageServerAuth}}
	verify := "ok"
	if _, err := leaf.Verify(opts); err != nil {
		verify = "chainfail"
	} else if host != "" {
		if err := leaf.VerifyHostname(host); err != nil {
			if ip := net.ParseIP(host); ip == nil || leaf.VerifyHostname("["+host+"]") != nil {
				verify = "hostfail"
			}
		}
	}
	key := "keyfail"
	if pk, ok := c.PrivateKey.(*ecdsa.PrivateKey); ok {
		if pub, ok := leaf.PublicKey.(*ecdsa.PublicKey); ok && pk.PublicKey.Equal(pub) {
			key = "ok"
		}
	}
	now := time.Now()
	valid := "1"
	if now.Before(leaf.NotBefore.Add(-time.Second)) || now.After(leaf.NotAfter) {
		valid = "0"
	}
	hours := int(leaf.NotAfter.Sub(leaf.NotBefore).Round(time.Hour) / time.Hour)
	return fmt.Sprintf("san=%s verify=%s key=%s validnow=%s hours=%d", san, verify, key, valid, hours)
}

func init() {
	families["certs"] = Family{
		NewExec: func(c runCfg, o *Out) func([]string) string {
			quietLogs()
			s := &ceState{}
			s.dir, _ = os.MkdirTemp(c.out, "ce-")
			return func(f []string) (obs string) {
				defer func() {
					if r := recover(); r != nil {
						obs = fmt.Sprintf("panic(%v)", r)
					}
				}()
				if f[0] != "ce" {
					die("certs: bad line %v", f)
				}
				o.Count("op:" + f[1])
				switch f[1] {
				case "reset":
					ca, pool := pxMakeCA(s.dir)
					s.ca = ca.(*certs.PrivateCA)
					s.pool = pool
					s.ids = map[*tls.Certificate]int{}
					s.last = map[string]*tls.Certificate{}
					return "ok"
				case "get": // target(hex) isip
					target := unhx(f[2])
					cert, err := s.ca.GetCertForHost(target)
					if err != nil {
						o.Count("get:err")
						return "err"
					}
					host, _, _ := net.SplitHostPort(target)
					o.Count("get:ok")
					reuse := boolInt(s.last[host] == cert)
					s.last[host] = cert
					o.Count(fmt.Sprintf("get:reuse%d", reuse))
					return fmt.Sprintf("ok reuse=%d %s", reuse, s.describe(cert, host))
				case "split":
					h, p, err := net.SplitHostPort(unhx(f[2]))
					if err != nil {
						return "err"
					}
					ip := "0"
					if net.ParseIP(h) != nil {
						ip = "1"
					}
					return fmt.Sprintf("ok host=%s port=%s isip=%s", hx(h), hx(p), ip)
				case "expire": // host(hex): the cached certificate's expiry is moved into the past
					if s.ca.VerifSetNotAfter(unhx(f[2]), time.Now().Add(-time.Minute)) {
						return "expired"
					}
					return "nocert"
				case "burst": // kind(dns|ip) k seq : k DIFFERENT new hosts, one tunnel each, all at the same moment
					k, _ := strconv.Atoi(f[3])
					targets := make([]string, k)
					for i := range targets {
						if f[2] == "ip" {
							targets[i] = fmt.Sprintf("10.%s.%d.%d:443", f[4], i/200, 1+i%200)
						} else {
							targets[i] = fmt.Sprintf("burst-%s-%d.example:443", f[4], i)
						}
					}
					res := make([]*tls.Certificate, k)
					errs := make([]error, k)
					var wg sync.WaitGroup
					start := make(chan struct{})
					for i := 0; i < k; i++ {
						wg.Add(1)
						go func(i int) {
							defer wg.Done()
							<-start
							res[i], errs[i] = s.ca.GetCertForHost(targets[i])
						}(i)
					}
					close(start)
					wg.Wait()
					bad := []string{}
					for i := 0; i < k; i++ {
						host, _, _ := net.SplitHostPort(targets[i])
						if errs[i] != nil || res[i] == nil {
							bad = append(bad, host+":error")
							continue
						}
						d := s.describe(res[i], host)
						if !(contains(d, "verify=ok") && contains(d, "key=ok") && contains(d, "validnow=1")) {
							bad = append(bad, host+":"+d)
						}
					}
					if len(bad) > 0 {
						return fmt.Sprintf("allvalid=0 n=%d first=%s", k, bad[0])
					}
					return fmt.Sprintf("allvalid=1 n=%d", k)
				case "concurrent": // target(hex) k
					k, _ := strconv.Atoi(f[3])
					target := unhx(f[2])
					host, _, _ := net.SplitHostPort(target)
					res := make([]*tls.Certificate, k)
					errs := make([]error, k)
					var wg sync.WaitGroup
					start := make(chan struct{})
					for i := 0; i < k; i++ {
						wg.Add(1)
						go func(i int) {
							defer wg.Done()
							<-start
							res[i], errs[i] = s.ca.GetCertForHost(target)
						}(i)
					}
					close(start)
					wg.Wait()
					bad := 0
					distinct := map[*tls.Certificate]bool{}
					for i := 0; i < k; i++ {
						if errs[i] != nil || res[i] == nil {
							bad++
							continue
						}
						d := s.describe(res[i], host)
						if !(contains(d, "verify=ok") && contains(d, "key=ok") && contains(d, "validnow=1")) {
							bad++
						}
						distinct[res[i]] = true
					}
					after, err := s.ca.GetCertForHost(target)
					settled := "0"
					if err == nil && distinct[after] {
						settled = "1"
					}
					for c := range distinct {
						s.idOf(c)
					}
					if err == nil {
						s.idOf(after)
						s.last[host] = after
					}
					cached := 0
					for _, h := range s.ca.VerifCachedHosts() {
						if h == host {
							cached++
						}
					}
					o.Count(fmt.Sprintf("concurrent:distinct%d", minInt(len(distinct), 3)))
					return fmt.Sprintf("allvalid=%d settled=%s cachedforhost=%d distinct<=k=%v", boolInt(bad == 0), settled, cached, len(distinct) <= k)
				}
				die("certs: unknown op %v", f)
				return ""
			}
		},
		Gen: func(c runCfg, o *Out, emit func(...string)) {
			r := NewRng(c.seed)
			n := 25
			if c.tier == "thorough" {
				n = 400
			}
			if c.n > 0 {
				n = c.n
			}
			hosts := []string{"example.com", "EXAMPLE.com", "a.b.c.example", "localhost", "127.0.0.1", "10.0.0.1", "::1", "2001:db8::1", "fe80::1%eth0", "xn--bcher-kva.example", "1.2.3", "256.1.1.1", "host_with_underscore", "a"}
			ports := []string{"443", "8443", "0", "65535", "http", ""}
			mkTarget := func() string {
				h := hosts[r.Intn(len(hosts))]
				p := ports[r.Intn(len(ports))]
				switch r.Intn(10) {
				case 0:
					return h // missing port
				case 1:
					return h + ":" + p + ":" + p
				case 2:
					return "[" + h + ":" + p
				case 3:
					return "[" + h + "]" + p
				case 4:
					return ""
				}
				if contains(h, ":") {
					return "[" + h + "]:" + p
				}
				return h + ":" + p
			}
			// SplitHostPort cross-check, bounded-exhaustive over a small alphabet
			maxLen := 6
			if c.tier == "thorough" {
				maxLen = 8
			}
			var rec func(p []byte, d int)
			rec = func(p []byte, d int) {
				emit("ce", "split", hx(string(p)))
				if d == maxLen {
					return
				}
				for _, ch := range []byte("a:[]1") {
					rec(append(p[:len(p):len(p)], ch), d+1)
				}
			}
			rec(nil, 0)
			for t := 0; t < n; t++ {
				emit("ce", "reset")
				if r.Chance(50) {
					// a burst of first-time tunnels to different hosts of the same kind
					emit("ce", "burst", []string{"dns", "ip"}[r.Intn(2)], strconv.Itoa(4+r.Intn(12)), strconv.Itoa(t%250))
				}
				if r.Chance(35) {
					// renewal of an IP-literal target: issue, let it expire, ask again - the replacement must name the IP again
					ipt := []string{"10.9.8.7:443", "[2001:db8::77]:8443", "127.0.0.1:8443", "192.0.2.200:443"}[r.Intn(4)]
					iph, _, _ := net.SplitHostPort(ipt)
					emit("ce", "get", hx(ipt), "1")
					emit("ce", "expire", hx(iph))
					emit("ce", "get", hx(ipt), "1")
					emit("ce", "get", hx(ipt), "1")
				}
				used := []string{}
				for i := 0; i < 4+r.Intn(8); i++ {
					switch x := r.Intn(100); {
					case x < 60:
						tg := mkTarget()
						if len(used) > 0 && r.Chance(45) {
							tg = used[r.Intn(len(used))]
						}
						used = append(used, tg)
						isip := "0"
						if h, _, err := net.SplitHostPort(tg); err == nil && net.ParseIP(h) != nil {
							isip = "1"
						}
						emit("ce", "get", hx(tg), isip)
					case x < 80 && len(used) > 0:
						h, _, err := net.SplitHostPort(used[r.Intn(len(used))])
						if err == nil {
							emit("ce", "expire", hx(h))
						}
					default:
						tg := mkTarget()
						isip := "0"
						if h, _, err := net.SplitHostPort(tg); err == nil && net.ParseIP(h) != nil {
							isip = "1"
						}
						kk := 2 + r.Intn(7)
						if r.Chance(35) {
							kk = []int{12, 24, 32, 48}[r.Intn(4)] // a page load: many tunnels to ONE new host at the same moment
						}
						emit("ce", "concurrent", hx(tg), strconv.Itoa(kk), isip)
						used = append(used, tg)
					}
				}
			}
		},
	}
}

func contains(s, sub string) bool {
	return len(sub) == 0 || (len(s) >= len(sub) && (func() bool {
		for i := 0; i+len(sub) <= len(s); i++ {
			if s[i:i+len(sub)] == sub {
				return true
			}
		}
		return false
	})())
}

func boolInt(b bool) int {
	if b {
		return 1
	}
	return 0
}

func minInt(a, b int) int {
	if a < b {
		return a
	}
	return b
}
