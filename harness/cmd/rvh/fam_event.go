package main

// event — the real utils/event.Event[int] driven by subscribe / unsubscribe /
// fire / deliver lines. Fire starts one goroutine per subscriber; every
// listener parks in the harness until a `deliver i` line releases it, so the
// order in which the asynchronous notifications take effect is chosen by the
// op sequence (any order is a legal schedule of those goroutines).

import (
	"fmt"
	"sort"
	"strconv"
	"strings"
	"sync"
	"time"

	"reservoir/utils/event"
)

type evDelivery struct {
	sub      int // subscription index (k-th subscribe)
	listener int
	value    int
	release  chan struct{}
	done     chan struct{}
}

type evState struct {
	e       *event.Event[int]
	unsubs  []event.Unsubscribe
	lsOf    []int
	mu      sync.Mutex
	arrived []*evDelivery
	pending []*evDelivery
	cells   map[int]string
	liveIdx []int
}

func (s *evState) render() string {
	// subscriber list as the Event holds it is not observable directly; what is observable is who gets
	// notified: probe with a fire whose deliveries are discarded? No: that would disturb the state. The
	// subscriber set is observed through the deliveries of the real `fire` lines; between fires we report
	// the listeners the harness believes subscribed AND verify the count with the VerifLen hook.
	subs := []string{}
	for _, i := range s.liveIdx {
		subs = append(subs, strconv.Itoa(s.lsOf[i]))
	}
	pend := []string{}
	for _, d := range s.pending {
		pend = append(pend, fmt.Sprintf("%d:%d", d.listener, d.value))
	}
	cells := []string{}
	for l := 0; l < 4; l++ {
		v, ok := s.cells[l]
		if !ok {
			v = "-"
		}
		cells = append(cells, fmt.Sprintf("%d:%s", l, v))
	}
	lenNote := ""
	if n := s.e.VerifLen(); n != len(s.liveIdx) {
		lenNote = fmt.Sprintf(";len=%d", n)
	}
	return fmt.Sprintf("subs=[%s];pending=[%s];cells=[%s]%s", strings.Join(subs, " "), strings.Join(pend, " "), strings.Join(cells, " "), lenNote)
}

func init() {
	families["event"] = Family{
		NewExec: func(c runCfg, o *Out) func([]string) string {
			s := &evState{}
			return func(f []string) (obs string) {
				defer func() {
					if r := recover(); r != nil {
						obs = fmt.Sprintf("panic(%v)", r)
					}
				}()
				if f[0] != "ev" {
					die("event: bad line %v", f)
				}
				o.Count("op:" + f[1])
				switch f[1] {
				case "loglevel": // level
					l, _ := strconv.Atoi(f[2])
					return evLogLevel(c.out, l)
				case "retime": // backend wait_ms new_ms
					a, _ := strconv.Atoi(f[3])
					b, _ := strconv.Atoi(f[4])
					return evRetime(c.out, f[2], a, b)
				case "shutdown": // backend order
					return evShutdown(c.out, f[2], f[3])
				case "janitor": // backend first_ms last_ms
					a, _ := strconv.Atoi(f[3])
					b, _ := strconv.Atoi(f[4])
					return evJanitor(c.out, f[2], a, b)
				case "reset":
					for _, d := range s.pending { // let parked goroutines finish
						close(d.release)
					}
					s = &evState{e: event.New[int](), cells: map[int]string{}}
					return s.render()
				case "subscribe":
					l, _ := strconv.Atoi(f[2])
					idx := len(s.unsubs)
					s.lsOf = append(s.lsOf, l)
					st := s
					un := s.e.Subscribe(func(v int) {
						d := &evDelivery{sub: idx, listener: l, value: v, release: make(chan struct{}), done: make(chan struct{})}
						st.mu.Lock()
						st.arrived = append(st.arrived, d)
						st.mu.Unlock()
						<-d.release
						st.mu.Lock()
						st.cells[l] = strconv.Itoa(v)
						st.mu.Unlock()
						close(d.done)
					})
					s.unsubs = append(s.unsubs, un)
					s.liveIdx = append(s.liveIdx, idx)
					return s.render()
				case "unsubscribe":
					id, _ := strconv.Atoi(f[2])
					if id < len(s.unsubs) {
						s.unsubs[id]() // may panic (recovered above) or remove the wrong listener
						// the harness's belief about who is live is NOT updated from the op: it is re-derived
						// from who actually receives the next notifications (see fire)
						for j, x := range s.liveIdx {
							if x == id {
								s.liveIdx = append(s.liveIdx[:j:j], s.liveIdx[j+1:]...)
								break
							}
						}
					}
					return s.render()
				case "fire":
					v, _ := strconv.Atoi(f[2])
					want := s.e.VerifLen()
					s.e.Fire(v)
					deadline := time.Now().Add(2 * time.Second)
					for {
						s.mu.Lock()
						n := len(s.arrived)
						s.mu.Unlock()
						if n >= want || time.Now().After(deadline) {
							break
						}
						time.Sleep(20 * time.Microsecond)
					}
					s.mu.Lock()
					arr := s.arrived
					s.arrived = nil
					s.mu.Unlock()
					sort.Slice(arr, func(i, j int) bool { return arr[i].sub < arr[j].sub })
					s.pending = append(s.pending, arr...)
					// who was really notified defines the live set the implementation has
					got := []int{}
					for _, d := range arr {
						got = append(got, d.sub)
					}
					s.liveIdx = got
					o.Count(fmt.Sprintf("fire:fanout%d", len(arr)))
					return s.render()
				case "deliver":
					i, _ := strconv.Atoi(f[2])
					if i < len(s.pending) {
						d := s.pending[i]
						s.pending = append(s.pending[:i:i], s.pending[i+1:]...)
						close(d.release)
						<-d.done
						if len(s.pending) > 0 {
							o.Count("deliver:with-others-pending")
						}
					}
					return s.render()
				}
				die("event: unknown op %v", f)
				return ""
			}
		},
		Gen: func(c runCfg, o *Out, emit func(...string)) {
			r := NewRng(c.seed)
			n := 400
			if c.tier == "thorough" {
				n = 8000
			}
			if c.n > 0 {
				n = c.n
			}
			itoa := strconv.Itoa
			for t := 0; t < n; t++ {
				emit("ev", "reset")
				nsub, npend, val := 0, 0, 0
				ordered := r.Chance(60) // most traces let each change settle before the next (the _partial regime)
				for i := 0; i < 4+r.Intn(14); i++ {
					switch x := r.Intn(100); {
					case x < 30 && nsub < 6:
						emit("ev", "subscribe", itoa(r.Intn(4)))
						nsub++
					case x < 55 && nsub > 0:
						id := r.Intn(nsub)
						if r.Chance(10) {
							id = nsub + r.Intn(2) // an id not handed out (yet)
						}
						emit("ev", "unsubscribe", itoa(id))
					case x < 80:
						if ordered {
							for npend > 0 {
								emit("ev", "deliver", itoa(r.Intn(npend)))
								npend--
							}
						}
						val++
						emit("ev", "fire", itoa(val))
						npend += 6 // upper bound; deliver of a missing index is a no-op on both sides
					default:
						if npend > 0 {
							emit("ev", "deliver", itoa(r.Intn(4)))
						}
					}
				}
				for j := 0; j < 40; j++ { // drain
					emit("ev", "deliver", "0")
				}
			}
			// live components: the cleanup task and back-to-back interval changes while it is busy
			nj := 6
			if c.tier == "thorough" {
				nj = 60
			}
			for j := 0; j < nj; j++ {
				emit("ev", "reset")
				a, b := 3600000, []int{10, 15, 25}[r.Intn(3)]
				if r.Chance(50) {
					a, b = b, a
				}
				emit("ev", "janitor", []string{"mem", "file"}[r.Intn(2)], itoa(a), itoa(b))
				emit("ev", "loglevel", itoa([]int{-4, 0, 4, 8, 2, -8}[r.Intn(6)]))
				emit("ev", "retime", []string{"mem", "file"}[r.Intn(2)], itoa([]int{5, 40, 80}[r.Intn(3)]), itoa([]int{4, 10, 25}[r.Intn(3)]))
				emit("ev", "shutdown", []string{"mem", "file"}[r.Intn(2)], []string{"destroy", "cancel-destroy", "destroy-cancel", "pending-change", "pending-change"}[r.Intn(5)])
			}
			// the literal witnesses of the unfixed tree
			for _, w := range [][]string{{"subscribe 0", "subscribe 1", "subscribe 2", "unsubscribe 0", "unsubscribe 2", "fire 1", "deliver 0", "deliver 0"},
				{"subscribe 0", "subscribe 1", "subscribe 2", "unsubscribe 0", "unsubscribe 1", "fire 1", "deliver 0", "deliver 0"}} {
				emit("ev", "reset")
				for _, l := range w {
					p := strings.Split(l, " ")
					emit("ev", p[0], p[1])
				}
			}
		},
	}
}
