package main

// flight — forced coalescing schedules on the real proxy: a gated origin holds
// the leader's upstream request until all N clients are inside the proxy; then
// chosen clients hang up, optionally the entry is deleted in the hand-over
// window (flight.afterDo yield point), the gate opens, and every client's
// status and verified body plus the origin's request count are recorded.

import (
	"bufio"
	"context"
	"crypto/tls"
	"fmt"
	"io"
	"net"
	"net/http"
	"net/http/httptest"
	"net/url"
	"os"
	"strconv"
	"strings"
	"sync"
	"sync/atomic"
	"time"

	"reservoir/cache"
	"reservoir/config"
	"reservoir/metrics"
	"reservoir/proxy"
	"reservoir/utils/bytesize"
	"reservoir/utils/duration"
)

type flClient struct {
	conn   net.Conn
	result string
	done   chan struct{}
}

// one GET of /r0 through the proxy on its own connection
func flDo(proxyAddr, originHost string, transport string, pool *tls.Config, cl *flClient) {
	defer close(cl.done)
	c, err := net.DialTimeout("tcp", proxyAddr, 5*time.Second)
	if err != nil {
		cl.result = "dialerr"
		return
	}
	cl.conn = c
	var rw io.ReadWriter = c
	var rd *bufio.Reader
	reqLine := fmt.Sprintf("GET http://%s/r0 HTTP/1.1\r\nHost: %s\r\n\r\n", originHost, originHost)
	if transport == "tunnel" {
		fmt.Fprintf(c, "CONNECT %s HTTP/1.1\r\nHost: %s\r\n\r\n", originHost, originHost)
		br := bufio.NewReader(c)
		resp, err := http.ReadResponse(br, nil)
		if err != nil || resp.StatusCode != 200 {
			cl.result = "connecterr"
			return
		}
		tc := tls.Client(c, pool)
		if err := tc.Handshake(); err != nil {
			cl.result = "tlserr"
			return
		}
		rw = tc
		reqLine = fmt.Sprintf("GET /r0 HTTP/1.1\r\nHost: %s\r\n\r\n", originHost)
	}
	rd = bufio.NewReader(rw)
	c.SetDeadline(time.Now().Add(20 * time.Second))
	if _, err := io.WriteString(rw, reqLine); err != nil {
		cl.result = "gone"
		return
	}
	resp, err := http.ReadResponse(rd, &http.Request{Method: "GET"})
	if err != nil {
		cl.result = "gone"
		return
	}
	b, err := io.ReadAll(resp.Body)
	resp.Body.Close()
	if err != nil {
		cl.result = fmt.Sprintf("%d:truncated", resp.StatusCode)
		return
	}
	ver, _ := strconv.Atoi(resp.Header.Get("X-Origin-Ver"))
	ok := "ok"
	if resp.Header.Get("X-Origin-Ver") == "" {
		ok = "proxy-page"
	} else {
		for i := range b {
			if b[i] != pxBodyByte(0, ver, i) {
				ok = "CORRUPT"
				break
			}
		}
		if cl := resp.Header.Get("Content-Length"); cl != "" && cl != strconv.Itoa(len(b)) {
			ok = "BADLEN"
		}
	}
	cl.result = fmt.Sprintf("%d:v%d:%d:%s", resp.StatusCode, ver, len(b), ok)
}

func flRun(base string, ca interface{}, pool interface{}, f []string, o *Out, px *pxState) string {
	backend, transport := f[2], f[3]
	n, _ := strconv.Atoi(f[4])
	pre, kind, disc, evict := f[5], f[6], f[7], f[8] == "1"
	expireAtHandover := f[8] == "2" // the stored entry's lifetime runs out between the shared call returning and the callers re-opening it
	late := 0 // clients that arrive after the hang-ups, while the shared fetch is still in flight
	if len(f) > 9 {
		late, _ = strconv.Atoi(f[9])
	}
	if !raceEnabled {
		metrics.Global = metrics.NewMetrics()
	}
	cfg := config.NewDefault()
	cfg.Proxy.UpstreamDefaultHttps.Overwrite(false)
	cfg.Proxy.CachePolicy.IgnoreCacheControl.Overwrite(false)
	cfg.Proxy.CachePolicy.ForceDefaultMaxAge.Overwrite(false)
	cfg.Proxy.CachePolicy.DefaultMaxAge.Overwrite(duration.Duration(120 * time.Second))
	cfg.Cache.MaxCacheSize.Overwrite(bytesize.ByteSize(1 << 20))
	cfg.Cache.CleanupInterval.Overwrite(duration.Duration(time.Hour))
	cfg.Cache.LockShards.Overwrite(8)
	dir, _ := os.MkdirTemp(base, "fl-")
	cfg.Cache.File.Dir.Overwrite(dir)
	if backend == "file" {
		cfg.Cache.Type.Overwrite(config.CacheTypeFile)
	} else {
		cfg.Cache.Type.Overwrite(config.CacheTypeMemory)
	}
	ctx, cancel := context.WithCancel(context.Background())
	defer cancel()
	p, err := proxy.NewProxy(cfg, px.ca, ctx)
	if err != nil {
		return "setup-failed"
	}
	defer p.Destroy()
	var originCount atomic.Int64
	var parked atomic.Int64
	gate := make(chan struct{})
	var gated atomic.Bool
	ver := 1
	size := 300
	cc := "max-age=60"
	switch kind {
	case "uncacheable":
		cc = "no-store"
	case "emptyfile":
		size = 0 // the file backend refuses an empty body: a cache-side store failure
	}
	var verNow atomic.Int64
	verNow.Store(int64(ver))
	origin := httptest.NewServer(http.HandlerFunc(func(w http.ResponseWriter, r *http.Request) {
		originCount.Add(1)
		if gated.Load() {
			parked.Add(1)
			<-gate
		}
		v := int(verNow.Load())
		w.Header().Set("Cache-Control", cc)
		w.Header().Set("ETag", fmt.Sprintf("\"e%d\"", v))
		w.Header().Set("X-Origin-Ver", strconv.Itoa(v))
		w.Header().Set("Content-Type", "application/x-rv")
		if inm := r.Header.Get("If-None-Match"); inm == fmt.Sprintf("\"e%d\"", v) {
			w.WriteHeader(304)
			return
		}
		body := pxBody(0, v, size)
		w.Header().Set("Content-Length", strconv.Itoa(len(body)))
		w.Write(body)
	}))
	defer origin.Close()
	proxySrv := httptest.NewServer(p)
	defer proxySrv.Close()
	ou, _ := url.Parse(origin.URL)
	proxyAddr := strings.TrimPrefix(proxySrv.URL, "http://")
	host, _, _ := net.SplitHostPort(ou.Host)
	tlsCfg := &tls.Config{RootCAs: px.caPool, ServerName: host}
	one := func() *flClient {
		cl := &flClient{done: make(chan struct{})}
		go flDo(proxyAddr, ou.Host, transport, tlsCfg, cl)
		return cl
	}
	// pre-state
	if pre == "fresh" || pre == "stale" {
		cl := one()
		<-cl.done
		if pre == "stale" {
			p.VerifCache().(cache.VerifHooks).VerifShiftClock(61 * time.Second)
		}
	}
	originCount.Store(0)
	gated.Store(true)
	// one yield handler for the whole run: count the callers that have reached group.Do ("flight.beforeDo": the
	// positive signal that a request is about to join the flight), and perform the window operation, once, at the
	// hand-over ("flight.afterDo")
	var atDo atomic.Int64
	{
		var once sync.Once
		key := cache.MakeFromRequest(&http.Request{Method: "GET", Host: ou.Host, URL: &url.URL{Path: "/r0"}})
		proxy.VerifYield = func(point string) {
			switch point {
			case "flight.beforeDo":
				atDo.Add(1)
			case "flight.afterDo":
				if evict {
					once.Do(func() { p.VerifCache().(interface{ Delete(cache.CacheKey) error }).Delete(key) })
				} else if expireAtHandover {
					once.Do(func() { p.VerifCache().(cache.VerifHooks).VerifShiftClock(61 * time.Second) })
				}
			}
		}
		defer func() { proxy.VerifYield = nil }()
	}
	clients := make([]*flClient, n)
	clients[0] = one()
	// the leader must be inside the flight (its upstream request parked at the origin) before the others arrive
	waitFor := func(cond func() bool) bool {
		dl := time.Now().Add(5 * time.Second)
		for !cond() {
			if time.Now().After(dl) {
				return false
			}
			time.Sleep(200 * time.Microsecond)
		}
		return true
	}
	leaderParked := true
	if pre != "fresh" {
		leaderParked = waitFor(func() bool { return parked.Load() >= 1 })
	}
	for i := 1; i < n; i++ {
		clients[i] = one()
	}
	arrived := waitFor(func() bool { return atDo.Load() >= int64(n) })
	time.Sleep(3 * time.Millisecond) // the followers are now (or within microseconds) blocked in group.Do
	// hang-ups
	gone := map[int]bool{}
	closeClient := func(i int) {
		if i < n && clients[i].conn != nil {
			clients[i].conn.Close()
			gone[i] = true
		}
	}
	switch {
	case disc == "leader":
		closeClient(0)
	case strings.HasPrefix(disc, "f"):
		k, _ := strconv.Atoi(disc[1:])
		closeClient(k)
	case disc == "allbutlast":
		for i := 0; i < n-1; i++ {
			closeClient(i)
		}
	}
	if len(gone) > 0 {
		time.Sleep(30 * time.Millisecond) // let the server notice the closed connections (request contexts are cancelled)
	}
	for i := 0; i < late; i++ {
		clients = append(clients, one())
	}
	if late > 0 {
		if !waitFor(func() bool { return atDo.Load() >= int64(n+late) }) {
			arrived = false
		}
		time.Sleep(3 * time.Millisecond)
		n += late
	}
	gated.Store(false)
	close(gate)
	res := make([]string, n)
	for i, cl := range clients {
		select {
		case <-cl.done:
			res[i] = cl.result
		case <-runningFor(15 * time.Second):
			res[i] = "HANG"
		}
		if gone[i] {
			res[i] = "gone"
		}
	}
	// handlers of clients that hung up may still be running (on a tunnel the proxy does not notice the hang-up):
	// the origin's request count is final once it has been stable for a while
	for last, stable := int64(-1), 0; stable < 10; {
		time.Sleep(5 * time.Millisecond)
		if cur := originCount.Load(); cur == last {
			stable++
		} else {
			last, stable = cur, 0
		}
	}
	o.Count("disc:" + strings.TrimRight(disc, "0123456789"))
	o.Count("pre:" + pre)
	o.Count("kind:" + kind)
	o.Count("late:" + strconv.Itoa(late))
	o.Count("window:" + f[8])
	note := ""
	if !leaderParked || !arrived {
		note = " setup-incomplete"
	}
	return fmt.Sprintf("origin=%d clients=[%s]%s", originCount.Load(), strings.Join(res, " "), note)
}

func init() {
	families["flight"] = Family{
		NewExec: func(c runCfg, o *Out) func([]string) string {
			quietLogs()
			px := &pxState{}
			base, _ := os.MkdirTemp(c.out, "flt-")
			px.ca, px.caPool = pxMakeCA(base)
			return func(f []string) (obs string) {
				defer func() {
					if r := recover(); r != nil {
						obs = fmt.Sprintf("panic(%v)", r)
					}
				}()
				if f[0] != "fl" || f[1] != "run" {
					die("flight: bad line %v", f)
				}
				o.Count("op:run")
				return flRun(base, nil, nil, f, o, px)
			}
		},
		Gen: func(c runCfg, o *Out, emit func(...string)) {
			r := NewRng(c.seed)
			n := 24
			if c.tier == "thorough" {
				n = 400
			}
			if c.n > 0 {
				n = c.n
			}
			itoa := strconv.Itoa
			// directed schedules first
			for _, sc := range [][]string{
				{"mem", "plain", "3", "cold", "cacheable", "none", "0"},
				{"mem", "plain", "4", "cold", "cacheable", "leader", "0"},
				{"mem", "tunnel", "3", "cold", "cacheable", "leader", "0"},
				{"file", "plain", "3", "cold", "cacheable", "f1", "0"},
				{"mem", "plain", "3", "cold", "cacheable", "none", "1"},
				{"mem", "plain", "3", "cold", "uncacheable", "none", "0"},
				{"file", "plain", "3", "cold", "emptyfile", "none", "0"},
				{"mem", "plain", "3", "stale", "cacheable", "none", "0"},
				{"file", "tunnel", "3", "fresh", "cacheable", "none", "0"},
				{"mem", "plain", "5", "stale", "cacheable", "leader", "1"},
				{"mem", "plain", "3", "cold", "cacheable", "f1", "0", "2"},
				{"file", "plain", "2", "stale", "cacheable", "leader", "0", "1"},
				{"mem", "plain", "4", "cold", "cacheable", "none", "2", "0"},
				{"file", "tunnel", "3", "cold", "cacheable", "none", "2", "1"},
			} {
				emit(append([]string{"fl", "run"}, sc...)...)
			}
			for i := 0; i < n; i++ {
				nn := []int{2, 3, 5, 8}[r.Intn(4)]
				if c.tier == "thorough" && r.Chance(10) {
					nn = 32
				}
				backend := []string{"mem", "file"}[r.Intn(2)]
				kind := []string{"cacheable", "cacheable", "uncacheable", "emptyfile"}[r.Intn(4)]
				if kind == "emptyfile" {
					backend = "file"
				}
				pre := []string{"cold", "cold", "fresh", "stale"}[r.Intn(4)]
				if kind != "cacheable" {
					pre = "cold"
				}
				disc := "none"
				switch r.Intn(5) {
				case 0:
					disc = "leader"
				case 1:
					disc = "f" + itoa(1+r.Intn(nn-1))
				case 2:
					disc = "allbutlast"
				}
				ev := "0"
				if r.Chance(25) && pre != "fresh" {
					ev = "1"
				} else if r.Chance(20) && pre != "fresh" {
					ev = "2" // (with a fresh entry the shift would simply make later arrivals revalidate: not a coalescing question)
				}
				late := "0"
				if r.Chance(40) {
					late = itoa(1 + r.Intn(2))
				}
				emit("fl", "run", backend, []string{"plain", "tunnel"}[r.Intn(2)], itoa(nn), pre, kind, disc, ev, late)
			}
		},
	}
}
