package main

// components — live components following configuration changes (C19). One op of
// the event family: `ev janitor <backend> <first_ms> <last_ms>`: a real cache
// whose cleanup task is held inside a cleanup cycle (yield point
// janitor.afterScan) while the cleanup interval is changed twice, the second
// change only after the first notification sits in the task's mailbox (so the
// two deliveries cannot overtake each other: the Event's unordered delivery,
// known finding C19/async-delivery-unordered, is kept out of this scenario).
// Observed: which interval the task follows afterwards, by its behaviour (cleanup
// cycles per time), not by reading its fields.

import (
	"context"
	"os"
	"strconv"
	"sync"
	"time"

	"reservoir/cache"
	"reservoir/config"
	"reservoir/metrics"
	"reservoir/utils/duration"
)

type janitorCache interface {
	Destroy()
	VerifJanitorMailboxLen() int
}

func evJanitor(base string, backend string, firstMs, lastMs int) string {
	metrics.Global = metrics.NewMetrics()
	cfg := config.NewDefault()
	cfg.Cache.CleanupInterval.Overwrite(duration.Duration(5 * time.Millisecond))
	ctx, cancel := context.WithCancel(context.Background())
	defer cancel()
	entered := make(chan struct{}, 1)
	release := make(chan struct{})
	var once sync.Once
	cache.VerifYield = func(p string) {
		if p == "janitor.afterScan" {
			once.Do(func() {
				entered <- struct{}{}
				<-release
			})
		}
	}
	var c janitorCache
	if backend == "file" {
		dir, _ := os.MkdirTemp(base, "jan-")
		defer os.RemoveAll(dir)
		c = cache.NewFileCache[int](cfg, dir, 1<<20, 5*time.Millisecond, 4, ctx)
	} else {
		c = cache.NewMemoryCache[int](cfg, 50, 1<<20, 5*time.Millisecond, 4, ctx)
	}
	defer func() {
		c.Destroy()
		time.Sleep(2 * time.Millisecond)
		cache.VerifYield = nil
	}()
	select {
	case <-entered:
	case <-time.After(3 * time.Second):
		close(release)
		return "setup-incomplete(no-cycle)"
	}
	// the task is now busy inside a cleanup cycle and does not drain its mailbox
	cfg.Cache.CleanupInterval.Overwrite(duration.Duration(time.Duration(firstMs) * time.Millisecond))
	dl := time.Now().Add(3 * time.Second)
	for c.VerifJanitorMailboxLen() != 1 {
		if time.Now().After(dl) {
			close(release)
			return "setup-incomplete(first-change-not-delivered)"
		}
		time.Sleep(100 * time.Microsecond)
	}
	cfg.Cache.CleanupInterval.Overwrite(duration.Duration(time.Duration(lastMs) * time.Millisecond))
	time.Sleep(20 * time.Millisecond) // the second listener goroutine reaches its send
	close(release)
	// which interval does the task follow now? count cycles over a window
	time.Sleep(30 * time.Millisecond) // both notifications drained
	start := metrics.Global.Cache.CleanupRuns.Get()
	window := 12 * time.Duration(min(firstMs, lastMs)) * time.Millisecond
	time.Sleep(window)
	cycles := int(metrics.Global.Cache.CleanupRuns.Get() - start)
	// one of the two intervals is short (cycles keep coming), the other very long (no cycle in the window)
	followsShort := cycles >= 2
	if cycles == 1 {
		return "unclear;cycles=1"
	}
	res := "follows:older"
	if followsShort == (lastMs < firstMs) {
		res = "follows:latest"
	}
	return res + ";cycles=" + strconv.Itoa(cycles)
}
