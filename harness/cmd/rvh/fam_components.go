package main

// components — live components following configuration changes (C19). One op of
// the event family: `ev janitor <backend> <first_ms> <last_ms>`: a real cache
// whose cleanup task is held inside a cleanup cycle (yield point
// janitor.afterScan) while the cleanup interval is changed twice, the second
// change only after the first notification sits in the task's mailbox (so the
// two deliveries cannot overtake each other: the Event's unordered delivery,
// known finding C19/async-delivery-unordered, is kept out of this scenario).
// Observed: which interval the task follows afterwards, by its behaviour (cleanup
// cycles per time), not by reading its fields.

import (
	"context"
	"log/slog"
	"os"
	"runtime"
	"strconv"
	"sync"
	"time"

	"reservoir/cache"
	"reservoir/config"
	"reservoir/logging"
	"reservoir/metrics"
	"reservoir/utils/duration"
)

type janitorCache interface {
	Destroy()
	VerifJanitorMailboxLen() int
}

func evJanitor(base string, backend string, firstMs, lastMs int) string {
	metrics.Global = metrics.NewMetrics()
	cfg := config.NewDefault()
	cfg.Cache.CleanupInterval.Overwrite(duration.Duration(5 * time.Millisecond))
	ctx, cancel := context.WithCancel(context.Background())
	defer cancel()
	entered := make(chan struct{}, 1)
	release := make(chan struct{})
	var once sync.Once
	cache.VerifYield = func(p string) {
		if p == "janitor.afterScan" {
			once.Do(func() {
				entered <- struct{}{}
				<-release
			})
		}
	}
	var c janitorCache
	if backend == "file" {
		dir, _ := os.MkdirTemp(base, "jan-")
		defer os.RemoveAll(dir)
		c = cache.NewFileCache[int](cfg, dir, 1<<20, 5*time.Millisecond, 4, ctx)
	} else {
		c = cache.NewMemoryCache[int](cfg, 50, 1<<20, 5*time.Millisecond, 4, ctx)
	}
	defer func() {
		c.Destroy()
		time.Sleep(2 * time.Millisecond)
		cache.VerifYield = nil
	}()
	select {
	case <-entered:
	case <-runningFor(3 * time.Second):
		close(release)
		return "setup-incomplete(no-cycle)"
	}
	// the task is now busy inside a cleanup cycle and does not drain its mailbox
	cfg.Cache.CleanupInterval.Overwrite(duration.Duration(time.Duration(firstMs) * time.Millisecond))
	dl := time.Now().Add(3 * time.Second)
	for c.VerifJanitorMailboxLen() != 1 {
		if time.Now().After(dl) {
			close(release)
			return "setup-incomplete(first-change-not-delivered)"
		}
		time.Sleep(100 * time.Microsecond)
	}
	cfg.Cache.CleanupInterval.Overwrite(duration.Duration(time.Duration(lastMs) * time.Millisecond))
	time.Sleep(150 * time.Millisecond) // the second listener goroutine reaches its send (generous: a loaded machine)
	close(release)
	// which interval does the task follow now? count cycles over a window
	time.Sleep(150 * time.Millisecond) // both notifications drained (generous: a loaded machine)
	start := metrics.Global.Cache.CleanupRuns.Get()
	window := 12 * time.Duration(min(firstMs, lastMs)) * time.Millisecond
	time.Sleep(window)
	cycles := int(metrics.Global.Cache.CleanupRuns.Get() - start)
	if lastMs < firstMs && cycles < 2 {
		// the latest interval is the short one: a task that follows it keeps producing cycles. On a loaded machine the
		// window above may be too short to see two of them; keep looking, bounded by time this process was scheduled
		limit := runningFor(3 * time.Second)
	poll:
		for cycles < 2 {
			select {
			case <-limit:
				break poll
			default:
				time.Sleep(time.Millisecond)
			}
			cycles = int(metrics.Global.Cache.CleanupRuns.Get() - start)
		}
	}
	// one of the two intervals is short (cycles keep coming), the other very long (no cycle in the window)
	followsShort := cycles >= 2
	if cycles == 1 {
		return "unclear;cycles=1"
	}
	res := "follows:older"
	if followsShort == (lastMs < firstMs) {
		res = "follows:latest"
	}
	return res + ";cycles=" + strconv.Itoa(cycles)
}

// `ev shutdown <backend> <order>`: a cache is shut down (order = destroy | cancel-destroy | destroy-cancel: how the owner's
// context cancellation and Destroy() are sequenced, as main() and the tests do it differently), then the cleanup interval
// is changed twice. A component that has been shut down is not notified of any later change: nothing may arrive in its
// cleanup task's mailbox, and no notifier may stay parked on it.
func evShutdown(base string, backend string, order string) string {
	metrics.Global = metrics.NewMetrics()
	cfg := config.NewDefault()
	cfg.Cache.CleanupInterval.Overwrite(duration.Duration(time.Hour))
	ctx, cancel := context.WithCancel(context.Background())
	defer cancel()
	var c janitorCache
	if backend == "file" {
		dir, _ := os.MkdirTemp(base, "shut-")
		defer os.RemoveAll(dir)
		c = cache.NewFileCache[int](cfg, dir, 1<<20, time.Hour, 4, ctx)
	} else {
		c = cache.NewMemoryCache[int](cfg, 50, 1<<20, time.Hour, 4, ctx)
	}
	time.Sleep(5 * time.Millisecond)
	done := make(chan struct{})
	if order == "pending-change" {
		// the cleanup task is parked INSIDE a cycle while the interval is changed (the new value waits in its mailbox);
		// then the cache is stopped and the cycle released: stopping must return whichever of the two the task sees first
		c.Destroy()
		cancel()
		cfg2 := config.NewDefault()
		cfg2.Cache.CleanupInterval.Overwrite(duration.Duration(5 * time.Millisecond))
		ctx2, cancel2 := context.WithCancel(context.Background())
		defer cancel2()
		entered := make(chan struct{}, 1)
		release := make(chan struct{})
		var once sync.Once
		cache.VerifYield = func(p string) {
			if p == "janitor.afterScan" {
				once.Do(func() {
					entered <- struct{}{}
					<-release
				})
			}
		}
		defer func() { cache.VerifYield = nil }()
		var c2 janitorCache
		if backend == "file" {
			dir2, _ := os.MkdirTemp(base, "shut2-")
			defer os.RemoveAll(dir2)
			c2 = cache.NewFileCache[int](cfg2, dir2, 1<<20, 5*time.Millisecond, 4, ctx2)
		} else {
			c2 = cache.NewMemoryCache[int](cfg2, 50, 1<<20, 5*time.Millisecond, 4, ctx2)
		}
		select {
		case <-entered:
		case <-runningFor(3 * time.Second):
			close(release)
			c2.Destroy()
			return "mailbox=0;parked=0" // no cycle came: nothing to observe
		}
		cfg2.Cache.CleanupInterval.Overwrite(duration.Duration(time.Hour))
		dl := time.Now().Add(2 * time.Second)
		for c2.VerifJanitorMailboxLen() != 1 && time.Now().Before(dl) {
			time.Sleep(100 * time.Microsecond)
		}
		// a second change: its notifier finds the mailbox full and waits
		cfg2.Cache.CleanupInterval.Overwrite(duration.Duration(2 * time.Hour))
		time.Sleep(10 * time.Millisecond)
		go func() {
			c2.Destroy()
			close(done)
		}()
		time.Sleep(10 * time.Millisecond) // stop() is under way
		close(release)
		select {
		case <-done:
			return "mailbox=0;parked=0"
		case <-runningFor(5 * time.Second):
			return "HANG stopping the cache does not return while an interval change is pending"
		}
	}
	go func() {
		switch order {
		case "cancel-destroy":
			cancel()
			time.Sleep(20 * time.Millisecond) // the cleanup task observes the cancellation first
			c.Destroy()
		case "destroy-cancel":
			c.Destroy()
			cancel()
		default:
			c.Destroy()
		}
		close(done)
	}()
	select {
	case <-done:
	case <-runningFor(5 * time.Second):
		return "HANG shutting the cache down does not return"
	}
	time.Sleep(5 * time.Millisecond)
	before := runtime.NumGoroutine()
	cfg.Cache.CleanupInterval.Overwrite(duration.Duration(7 * time.Minute))
	time.Sleep(15 * time.Millisecond)
	cfg.Cache.CleanupInterval.Overwrite(duration.Duration(9 * time.Minute))
	time.Sleep(30 * time.Millisecond)
	parked := runtime.NumGoroutine() - before
	if parked < 0 {
		parked = 0
	}
	return "mailbox=" + strconv.Itoa(c.VerifJanitorMailboxLen()) + ";parked=" + strconv.Itoa(parked)
}

// `ev retime <backend> <wait_ms> <new_ms>`: a cache has been running for wait_ms with a long cleanup interval; the interval
// is then changed to new_ms (possibly much shorter than the time already waited). The task follows the new interval (cycles
// keep coming) and, above all, the process survives the accepted change.
func evRetime(base string, backend string, waitMs, newMs int) string {
	metrics.Global = metrics.NewMetrics()
	cfg := config.NewDefault()
	cfg.Cache.CleanupInterval.Overwrite(duration.Duration(time.Hour))
	ctx, cancel := context.WithCancel(context.Background())
	defer cancel()
	var c janitorCache
	if backend == "file" {
		dir, _ := os.MkdirTemp(base, "retime-")
		defer os.RemoveAll(dir)
		c = cache.NewFileCache[int](cfg, dir, 1<<20, time.Hour, 4, ctx)
	} else {
		c = cache.NewMemoryCache[int](cfg, 50, 1<<20, time.Hour, 4, ctx)
	}
	defer c.Destroy()
	time.Sleep(time.Duration(waitMs) * time.Millisecond)
	start := metrics.Global.Cache.CleanupRuns.Get()
	cfg.Cache.CleanupInterval.Overwrite(duration.Duration(time.Duration(newMs) * time.Millisecond))
	// a task that follows the new interval produces its second cycle after about 2*newMs; the wait is bounded by time this
	// process was actually scheduled (a loaded or suspended machine must not look like a task that kept the old interval)
	cycles := 0
	limit := runningFor(3 * time.Second)
poll:
	for {
		cycles = int(metrics.Global.Cache.CleanupRuns.Get() - start)
		if cycles >= 2 {
			return "follows:latest"
		}
		select {
		case <-limit:
			break poll
		default:
			time.Sleep(time.Millisecond)
		}
	}
	return "follows:older;cycles=" + strconv.Itoa(cycles)
}

// `ev loglevel <level>`: the logging component (logging.Init, once per process) follows the configured log level: after an
// accepted change the process logs at exactly the new level (records below it are dropped, records at it are written).
var evLogCfg *config.Config

func evLogLevel(base string, lvl int) string {
	if evLogCfg == nil {
		evLogCfg = config.NewDefault()
		evLogCfg.Logging.ToStdout.Overwrite(false)
		evLogCfg.Logging.File.Overwrite(base + "/loglevel-test.log")
		logging.Init(evLogCfg)
	}
	evLogCfg.Logging.Level.Overwrite(slog.Level(lvl))
	ok := func() bool {
		l := slog.Default()
		return l.Enabled(context.Background(), slog.Level(lvl)) && !l.Enabled(context.Background(), slog.Level(lvl-1))
	}
	dl := time.Now().Add(5 * time.Second)
	for !ok() && time.Now().Before(dl) {
		time.Sleep(200 * time.Microsecond)
	}
	if ok() {
		return "follows:latest"
	}
	return "follows:older"
}
