//go:build race

package main

// raceEnabled: built with the race detector (C15 dynamic family). The harness then avoids its own
// unsynchronised conveniences (re-creating the global metrics object while goroutines of an earlier
// scenario may still be winding down).
const raceEnabled = true
