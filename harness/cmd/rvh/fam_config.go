package main

// config — the real config.Config with a recording listener on every setting:
// command-line overwrites, UpdatePartialFromConfig with generated documents
// (valid, boundary, ill-typed, unknown keys, several keys with a late failure),
// a failing file write (RLIMIT_FSIZE), and for accepted cache settings the
// "workable" oracle on the real code (construct a cache and use it).

import (
	"bytes"
	"context"
	"encoding/json"
	"fmt"
	"log/slog"
	"os"
	"os/signal"
	"sort"
	"strconv"
	"strings"
	"sync"
	"syscall"
	"time"

	"reservoir/cache"
	"reservoir/config"
	"reservoir/utils/bytesize"
	"reservoir/utils/duration"
)

type cfProp struct {
	name string
	typ  string // str bool int dur size level
	read func(c *config.Config) string
	sub  func(c *config.Config, rec func(string)) func()
	over func(c *config.Config, tok string)
}

func cfStr(s string) string { return "s:" + hx(s) }

func cfProps() []cfProp {
	b := func(x bool) string {
		if x {
			return "b:1"
		}
		return "b:0"
	}
	pStr := func(name string, get func(c *config.Config) *config.ConfigProp[string]) cfProp {
		return cfProp{name, "str", func(c *config.Config) string { return cfStr(get(c).Read()) },
			func(c *config.Config, rec func(string)) func() { return get(c).OnChange(func(v string) { rec(cfStr(v)) }) },
			func(c *config.Config, tok string) { get(c).Overwrite(unhx(tok[2:])) }}
	}
	pBool := func(name string, get func(c *config.Config) *config.ConfigProp[bool]) cfProp {
		return cfProp{name, "bool", func(c *config.Config) string { return b(get(c).Read()) },
			func(c *config.Config, rec func(string)) func() { return get(c).OnChange(func(v bool) { rec(b(v)) }) },
			func(c *config.Config, tok string) { get(c).Overwrite(tok == "b:1") }}
	}
	pInt := func(name string, get func(c *config.Config) *config.ConfigProp[int]) cfProp {
		return cfProp{name, "int", func(c *config.Config) string { return "n:" + strconv.Itoa(get(c).Read()) },
			func(c *config.Config, rec func(string)) func() {
				return get(c).OnChange(func(v int) { rec("n:" + strconv.Itoa(v)) })
			},
			func(c *config.Config, tok string) { n, _ := strconv.Atoi(tok[2:]); get(c).Overwrite(n) }}
	}
	pDur := func(name string, get func(c *config.Config) *config.ConfigProp[duration.Duration]) cfProp {
		return cfProp{name, "dur", func(c *config.Config) string { return "d:" + strconv.FormatInt(int64(get(c).Read()), 10) },
			func(c *config.Config, rec func(string)) func() {
				return get(c).OnChange(func(v duration.Duration) { rec("d:" + strconv.FormatInt(int64(v), 10)) })
			},
			func(c *config.Config, tok string) {
				n, _ := strconv.ParseInt(tok[2:], 10, 64)
				get(c).Overwrite(duration.Duration(n))
			}}
	}
	pSize := func(name string, get func(c *config.Config) *config.ConfigProp[bytesize.ByteSize]) cfProp {
		return cfProp{name, "size", func(c *config.Config) string { return "z:" + strconv.FormatInt(int64(get(c).Read()), 10) },
			func(c *config.Config, rec func(string)) func() {
				return get(c).OnChange(func(v bytesize.ByteSize) { rec("z:" + strconv.FormatInt(int64(v), 10)) })
			},
			func(c *config.Config, tok string) {
				n, _ := strconv.ParseInt(tok[2:], 10, 64)
				get(c).Overwrite(bytesize.ByteSize(n))
			}}
	}
	return []cfProp{
		pStr("proxy.listen", func(c *config.Config) *config.ConfigProp[string] { return &c.Proxy.Listen }),
		pStr("proxy.ca_cert", func(c *config.Config) *config.ConfigProp[string] { return &c.Proxy.CaCert }),
		pStr("proxy.ca_key", func(c *config.Config) *config.ConfigProp[string] { return &c.Proxy.CaKey }),
		pBool("proxy.upstream_default_https", func(c *config.Config) *config.ConfigProp[bool] { return &c.Proxy.UpstreamDefaultHttps }),
		pBool("proxy.retry_on_range_416", func(c *config.Config) *config.ConfigProp[bool] { return &c.Proxy.RetryOnRange416 }),
		pBool("proxy.retry_on_invalid_range", func(c *config.Config) *config.ConfigProp[bool] { return &c.Proxy.RetryOnInvalidRange }),
		pBool("proxy.cache_policy.ignore_cache_control", func(c *config.Config) *config.ConfigProp[bool] { return &c.Proxy.CachePolicy.IgnoreCacheControl }),
		pDur("proxy.cache_policy.default_max_age", func(c *config.Config) *config.ConfigProp[duration.Duration] { return &c.Proxy.CachePolicy.DefaultMaxAge }),
		pBool("proxy.cache_policy.force_default_max_age", func(c *config.Config) *config.ConfigProp[bool] { return &c.Proxy.CachePolicy.ForceDefaultMaxAge }),
		pStr("webserver.listen", func(c *config.Config) *config.ConfigProp[string] { return &c.Webserver.Listen }),
		pBool("webserver.dashboard_disabled", func(c *config.Config) *config.ConfigProp[bool] { return &c.Webserver.DashboardDisabled }),
		pBool("webserver.api_disabled", func(c *config.Config) *config.ConfigProp[bool] { return &c.Webserver.ApiDisabled }),
		pSize("cache.max_cache_size", func(c *config.Config) *config.ConfigProp[bytesize.ByteSize] { return &c.Cache.MaxCacheSize }),
		{"cache.type", "str", func(c *config.Config) string { return cfStr(string(c.Cache.Type.Read())) },
			func(c *config.Config, rec func(string)) func() {
				return c.Cache.Type.OnChange(func(v config.CacheType) { rec(cfStr(string(v))) })
			},
			func(c *config.Config, tok string) { c.Cache.Type.Overwrite(config.CacheType(unhx(tok[2:]))) }},
		pDur("cache.cleanup_interval", func(c *config.Config) *config.ConfigProp[duration.Duration] { return &c.Cache.CleanupInterval }),
		pInt("cache.lock_shards", func(c *config.Config) *config.ConfigProp[int] { return &c.Cache.LockShards }),
		pStr("cache.file.dir", func(c *config.Config) *config.ConfigProp[string] { return &c.Cache.File.Dir }),
		pInt("cache.memory.memory_budget_percent", func(c *config.Config) *config.ConfigProp[int] { return &c.Cache.Memory.MemoryBudgetPercent }),
		{"logging.level", "level", func(c *config.Config) string { return "l:" + strconv.Itoa(int(c.Logging.Level.Read())) },
			func(c *config.Config, rec func(string)) func() {
				return c.Logging.Level.OnChange(func(v slog.Level) { rec("l:" + strconv.Itoa(int(v))) })
			},
			func(c *config.Config, tok string) { n, _ := strconv.Atoi(tok[2:]); c.Logging.Level.Overwrite(slog.Level(n)) }},
		pStr("logging.file", func(c *config.Config) *config.ConfigProp[string] { return &c.Logging.File }),
		pSize("logging.max_size", func(c *config.Config) *config.ConfigProp[bytesize.ByteSize] { return &c.Logging.MaxSize }),
		pInt("logging.max_backups", func(c *config.Config) *config.ConfigProp[int] { return &c.Logging.MaxBackups }),
		pBool("logging.compress", func(c *config.Config) *config.ConfigProp[bool] { return &c.Logging.Compress }),
		pBool("logging.to_stdout", func(c *config.Config) *config.ConfigProp[bool] { return &c.Logging.ToStdout }),
	}
}

type cfState struct {
	cfg   *config.Config
	props []cfProp
	mu    sync.Mutex
	notes []string
}

func (s *cfState) settle() []string {
	// notifications are asynchronous goroutines: wait until their number is stable
	last, stable := -1, 0
	for i := 0; i < 400 && stable < 4; i++ {
		time.Sleep(500 * time.Microsecond)
		s.mu.Lock()
		n := len(s.notes)
		s.mu.Unlock()
		if n == last {
			stable++
		} else {
			stable, last = 0, n
		}
	}
	s.mu.Lock()
	out := append([]string(nil), s.notes...)
	s.notes = nil
	s.mu.Unlock()
	sort.Strings(out)
	return out
}

func (s *cfState) reads(c *config.Config) string {
	parts := []string{}
	for _, p := range s.props {
		parts = append(parts, p.name+"="+p.read(c))
	}
	return strings.Join(parts, ",")
}

// what the next start would load from the file
func (s *cfState) fileReads() string {
	b, err := os.ReadFile(config.VerifConfigPath())
	if err != nil {
		return "nofile"
	}
	var c2 config.Config
	dec := json.NewDecoder(bytes.NewReader(b))
	dec.DisallowUnknownFields()
	if err := dec.Decode(&c2); err != nil {
		return "undecodable(" + strconv.Itoa(len(b)) + ")"
	}
	return s.reads(&c2)
}

// build the nested update document from path=token pairs
func cfDoc(pairs string, cur map[string]any) map[string]any {
	doc := map[string]any{}
	if pairs == "-" {
		return doc
	}
	for _, pr := range strings.Split(pairs, ",") {
		kv := strings.SplitN(pr, "=", 2)
		path := strings.Split(kv[0], ".")
		m := doc
		for _, seg := range path[:len(path)-1] {
			nx, ok := m[seg].(map[string]any)
			if !ok {
				nx = map[string]any{}
				m[seg] = nx
			}
			m = nx
		}
		var v any
		tok := kv[1]
		switch {
		case strings.HasPrefix(tok, "s:"):
			v = unhx(tok[2:])
		case strings.HasPrefix(tok, "n:"):
			n, _ := strconv.ParseFloat(tok[2:], 64)
			v = n
		case strings.HasPrefix(tok, "f:"):
			n, _ := strconv.ParseFloat(tok[2:], 64)
			v = n
		case tok == "b:1":
			v = true
		case tok == "b:0":
			v = false
		case tok == "null":
			v = nil
		case tok == "o":
			v = map[string]any{"x": 1.0}
		case tok == "cur":
			// what a client posts back: the value the server's own JSON reports for this setting
			var c any = cur
			for _, seg := range path {
				if m, ok := c.(map[string]any); ok {
					c = m[seg]
				}
			}
			v = c
		}
		m[path[len(path)-1]] = v
	}
	return doc
}

func init() {
	families["config"] = Family{
		NewExec: func(c runCfg, o *Out) func([]string) string {
			quietLogs()
			s := &cfState{props: cfProps()}
			wd, _ := os.Getwd()
			scratch, _ := os.MkdirTemp(wd, "cf-")
			os.Chdir(scratch)
			os.MkdirAll("var", 0o755)
			var unsubs []func()
			return func(f []string) (obs string) {
				defer func() {
					if r := recover(); r != nil {
						obs = fmt.Sprintf("panic(%v)", r)
					}
				}()
				if f[0] != "cf" {
					die("config: bad line %v", f)
				}
				o.Count("op:" + f[1])
				state := func() string {
					rs := "0"
					if config.IsRestartNeeded() {
						rs = "1"
					}
					return fmt.Sprintf("restart=%s reads=%s file=%s", rs, s.reads(s.cfg), s.fileReads())
				}
				switch f[1] {
				case "reset":
					for _, u := range unsubs {
						u()
					}
					unsubs = nil
					s.settle()
					config.VerifResetRestartNeeded()
					s.cfg = config.NewDefault()
					os.Remove(config.VerifConfigPath())
					if _, err := config.UpdatePartialFromConfig(s.cfg, map[string]any{}); err != nil {
						return "reset-failed:" + err.Error()
					}
					for _, p := range s.props {
						name := p.name
						unsubs = append(unsubs, p.sub(s.cfg, func(v string) {
							s.mu.Lock()
							s.notes = append(s.notes, name+"="+v)
							s.mu.Unlock()
						}))
					}
					return "ok " + state()
				case "loadfile": // kind arg : a configuration FILE (as an operator or an older version left it) is loaded at start
					// kind = missing <dotted key> | extra <dotted key> | bad <dotted key>=<json> | ok
					raw, _ := json.Marshal(config.NewDefault())
					var doc map[string]any
					json.Unmarshal(raw, &doc)
					path := strings.Split(strings.SplitN(f[3], "=", 2)[0], ".")
					var walk func(m map[string]any, p []string, fn func(m map[string]any, k string))
					walk = func(m map[string]any, p []string, fn func(m map[string]any, k string)) {
						if len(p) == 1 {
							fn(m, p[0])
							return
						}
						if sub, ok := m[p[0]].(map[string]any); ok {
							walk(sub, p[1:], fn)
						}
					}
					switch f[2] {
					case "missing":
						walk(doc, path, func(m map[string]any, k string) { delete(m, k) })
					case "extra":
						walk(doc, path, func(m map[string]any, k string) { m[k] = 1 })
					case "bad":
						var v any
						json.Unmarshal([]byte(strings.SplitN(f[3], "=", 2)[1]), &v)
						walk(doc, path, func(m map[string]any, k string) { m[k] = v })
					}
					out, _ := json.MarshalIndent(doc, "", "  ")
					cp := config.VerifConfigPath()
					os.WriteFile(cp, out, 0o644)
					loaded, err := config.LoadOrDefault(cp)
					if err != nil || loaded == nil {
						return "load-error"
					}
					after, _ := os.ReadFile(cp)
					o.Count("loadfile:" + f[2])
					// a refused file is replaced by the defaults; an accepted one stays as written
					if bytes.Equal(bytes.TrimSpace(after), bytes.TrimSpace(out)) {
						// accepted: the proxy would now run under it - can it even be saved again?
						if _, merr := json.Marshal(loaded); merr != nil {
							return "accepted-but-unserialisable"
						}
						return "accepted"
					}
					return "rejected"
				case "overwrite": // name token
					for _, p := range s.props {
						if p.name == f[2] {
							p.over(s.cfg, f[3])
						}
					}
					notes := s.settle()
					return fmt.Sprintf("notes=[%s] %s", strings.Join(notes, " "), state())
				case "update": // pairs persistLimit(0 = no fault, n = RLIMIT_FSIZE n bytes)
					cur := map[string]any{}
					if strings.Contains(f[2], "=cur") {
						js, _ := json.Marshal(s.cfg)
						json.Unmarshal(js, &cur)
					}
					doc := cfDoc(f[2], cur)
					lim, _ := strconv.Atoi(f[3])
					undo := func() {}
					if lim > 0 {
						var old syscall.Rlimit
						syscall.Getrlimit(syscall.RLIMIT_FSIZE, &old)
						signal.Ignore(syscall.SIGXFSZ)
						syscall.Setrlimit(syscall.RLIMIT_FSIZE, &syscall.Rlimit{Cur: uint64(lim), Max: old.Max})
						undo = func() { syscall.Setrlimit(syscall.RLIMIT_FSIZE, &old) }
					}
					st, err := config.UpdatePartialFromConfig(s.cfg, doc)
					undo()
					res := map[config.UpdateStatus]string{config.UpdateStatusFailed: "failed", config.UpdateStatusSuccess: "success", config.UpdateStatusRestartRequired: "restart"}[st]
					if err != nil {
						res = "failed"
					}
					o.Count("update:" + res)
					notes := s.settle()
					return fmt.Sprintf("%s notes=[%s] %s", res, strings.Join(notes, " "), state())
				case "trywork": // construct a cache under the current settings and use it (the property's own acceptance test)
					if err := config.VerifVerify(s.cfg); err != nil {
						return "not-accepted"
					}
					r := func() (res string) {
						defer func() {
							if p := recover(); p != nil {
								res = fmt.Sprintf("PANIC(%v)", p)
							}
						}()
						ctx, cancel := context.WithCancel(context.Background())
						defer cancel()
						var cc cache.Cache[int]
						if s.cfg.Cache.Type.Read() == config.CacheTypeFile {
							dir, _ := os.MkdirTemp(".", "trywork-")
							cc = cache.NewFileCache[int](s.cfg, dir, s.cfg.Cache.MaxCacheSize.Read().Bytes(), s.cfg.Cache.CleanupInterval.Read().Cast(), s.cfg.Cache.LockShards.Read(), ctx)
						} else {
							cc = cache.NewMemoryCache[int](s.cfg, s.cfg.Cache.Memory.MemoryBudgetPercent.Read(), s.cfg.Cache.MaxCacheSize.Read().Bytes(), s.cfg.Cache.CleanupInterval.Read().Cast(), s.cfg.Cache.LockShards.Read(), ctx)
						}
						k := cache.FromString("trywork")
						if e, err := cc.Cache(k, bytes.NewReader([]byte("x")), time.Now().Add(time.Minute), 1); err == nil {
							e.Data.Close()
						}
						if e, err := cc.Get(k); err == nil {
							e.Data.Close()
						}
						cc.Destroy()
						return "works"
					}()
					o.Count("trywork:" + r[:5])
					return r
				}
				die("config: unknown op %v", f)
				return ""
			}
		},
		Gen: genConfig,
	}
}

func genConfig(c runCfg, o *Out, emit func(...string)) {
	r := NewRng(c.seed)
	n := 60
	if c.tier == "thorough" {
		n = 1500
	}
	if c.n > 0 {
		n = c.n
	}
	// configuration FILES: every key of the document, one missing at a time (a required setting that is absent makes the
	// file unworkable: it is refused and replaced by the defaults), unknown keys, invalid values, and the complete file
	fileKeys := []string{"proxy.listen", "proxy.ca_cert", "proxy.ca_key", "proxy.upstream_default_https", "proxy.retry_on_range_416", "proxy.retry_on_invalid_range",
		"proxy.cache_policy.ignore_cache_control", "proxy.cache_policy.default_max_age", "proxy.cache_policy.force_default_max_age", "proxy.cache_policy",
		"webserver.listen", "webserver.dashboard_disabled", "webserver.api_disabled", "webserver",
		"cache.type", "cache.max_cache_size", "cache.cleanup_interval", "cache.lock_shards", "cache.file.dir", "cache.file", "cache.memory.memory_budget_percent", "cache.memory", "cache",
		"logging.level", "logging"}
	for _, k := range fileKeys {
		emit("cf", "reset")
		emit("cf", "loadfile", "missing", k)
	}
	for _, k := range []string{"proxy.bogus", "cache.memory.bogus", "bogus", "logging.bogus"} {
		emit("cf", "reset")
		emit("cf", "loadfile", "extra", k)
	}
	for _, kv := range []string{"cache.lock_shards=0", "cache.memory.memory_budget_percent=101", "cache.type=\"disk\"", "cache.max_cache_size=\"0B\"", "cache.cleanup_interval=\"0s\"", "proxy.listen=\"\"", "cache.lock_shards=\"many\"", "cache.max_cache_size=\"5K5\""} {
		emit("cf", "reset")
		emit("cf", "loadfile", "bad", kv)
	}
	emit("cf", "reset")
	emit("cf", "loadfile", "ok", "-")
	emit("cf", "reset")
	emit("cf", "loadfile", "bad", "cache.lock_shards=7")
	props := cfProps()
	valid := map[string][]string{
		"str":   {cfStr(":8080"), cfStr("x"), cfStr("var/other/"), cfStr("file"), cfStr("memory")},
		"bool":  {"b:1", "b:0"},
		"int":   {"n:1", "n:2", "n:50", "n:100", "n:1024"},
		"dur":   {cfStr("90m"), cfStr("1s"), cfStr("1h30m"), cfStr("250ms"), cfStr("1ns")},
		"size":  {cfStr("1K"), cfStr("10G"), cfStr("1536B"), cfStr("7M"), cfStr("1T")},
		"level": {cfStr("DEBUG"), cfStr("INFO"), cfStr("WARN"), cfStr("ERROR"), cfStr("info"), cfStr("INFO+2")},
	}
	boundary := map[string][]string{
		"str":   {cfStr(""), "null"},
		"bool":  {"null"},
		"int":   {"n:0", "n:-1", "n:101", "n:500", "null"},
		"dur":   {cfStr("0s"), cfStr("-5s")},
		"size":  {cfStr("0B")},
		"level": {},
	}
	illTyped := map[string][]string{
		"str":   {"n:5", "b:1", "o"},
		"bool":  {cfStr("true"), "n:1", "o"},
		"int":   {cfStr("5"), "f:1.5", "b:1", "o"},
		"dur":   {cfStr("abc"), cfStr(""), "n:5", "null", "o", cfStr("5")},
		"size":  {cfStr("5K5"), cfStr("K"), cfStr("5"), cfStr(""), "n:5", "null", "o", cfStr("99999999999999999999B")},
		"level": {cfStr("LOUD"), "n:0", "null", "o"},
	}
	pick := func(xs []string) string { return xs[r.Intn(len(xs))] }
	overTok := func(p cfProp) string {
		switch p.typ {
		case "str":
			return cfStr([]string{":1", "cli-value", "memory"}[r.Intn(3)])
		case "bool":
			return pick([]string{"b:1", "b:0"})
		case "int":
			return "n:" + strconv.Itoa(1+r.Intn(99))
		case "dur":
			return "d:" + strconv.Itoa((1+r.Intn(50))*1000000000)
		case "size":
			return "z:" + strconv.Itoa((1+r.Intn(50))*1024)
		}
		return "l:" + strconv.Itoa([]int{-4, 0, 4, 8}[r.Intn(4)])
	}
	for t := 0; t < n; t++ {
		emit("cf", "reset")
		// a "dashboard session": every update posts one of two sections back in full, a few fields edited
		dash := r.Chance(35)
		dashSecs := []string{strings.SplitN(props[r.Intn(len(props))].name, ".", 2)[0], strings.SplitN(props[r.Intn(len(props))].name, ".", 2)[0]}
		if r.Chance(25) {
			// a command-line value (possibly the very value the file already has) followed by an API update of the
			// same setting to something else: the command line keeps winning, the file gets the update
			var bools []cfProp
			for _, p := range props {
				if p.typ == "bool" {
					bools = append(bools, p)
				}
			}
			p := bools[r.Intn(len(bools))]
			v := r.Intn(2)
			emit("cf", "overwrite", p.name, "b:"+strconv.Itoa(v))
			emit("cf", "update", p.name+"=b:"+strconv.Itoa(1-v), "0")
			emit("cf", "update", p.name+"=b:"+strconv.Itoa(v), "0")
		}
		for i := 0; i < 3+r.Intn(8); i++ {
			switch x := r.Intn(100); {
			case x < 18:
				p := props[r.Intn(len(props))]
				emit("cf", "overwrite", p.name, overTok(p))
			case x < 90:
				nk := 1 + r.Intn(4)
				pairs := []string{}
				seen := map[string]bool{}
				for j := 0; j < nk; j++ {
					p := props[r.Intn(len(props))]
					if seen[p.name] {
						continue
					}
					seen[p.name] = true
					var tok string
					switch y := r.Intn(100); {
					case y < 62:
						tok = pick(valid[p.typ])
					case y < 80 && len(boundary[p.typ]) > 0:
						tok = pick(boundary[p.typ])
					default:
						tok = pick(illTyped[p.typ])
					}
					pairs = append(pairs, p.name+"="+tok)
				}
				if dash || r.Chance(10) {
					// a client posts a whole section back with a few fields edited (possibly badly)
					sec := strings.SplitN(props[r.Intn(len(props))].name, ".", 2)[0]
					if dash {
						sec = dashSecs[r.Intn(2)]
					}
					pairs = pairs[:0]
					edits := 1 + r.Intn(3)
					var inSec []cfProp
					for _, p := range props {
						if strings.HasPrefix(p.name, sec+".") {
							inSec = append(inSec, p)
						}
					}
					edited := map[int]bool{}
					for e := 0; e < edits; e++ {
						edited[r.Intn(len(inSec))] = true
					}
					for i, p := range inSec {
						tok := "cur"
						if edited[i] {
							if r.Chance(60) {
								tok = pick(valid[p.typ])
							} else {
								tok = pick(illTyped[p.typ])
							}
						}
						pairs = append(pairs, p.name+"="+tok)
					}
				}
				if r.Chance(12) {
					pairs = append(pairs, []string{"cache.nosuch=n:1", "nosection.x=b:1"}[r.Intn(2)])
				}
				if r.Chance(6) {
					// a JSON object for a leaf setting / a scalar for a section, on their own
					pairs = []string{[]string{"proxy.listen.deeper=n:5", "cache=n:5", "logging.level.x=b:1"}[r.Intn(3)]}
				}
				if len(pairs) == 0 {
					pairs = []string{"-"}
				}
				lim := "0"
				if r.Chance(15) {
					lim = strconv.Itoa(1 + r.Intn(600)) // always below the size of the file (>= 800 bytes): the write fails
				}
				emit("cf", "update", strings.Join(pairs, ","), lim)
				if r.Chance(25) {
					emit("cf", "trywork")
				}
			default:
				emit("cf", "trywork")
			}
		}
	}
}
