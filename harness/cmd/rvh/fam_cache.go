package main

// cachetrace — single-goroutine driver over the real MemoryCache / FileCache.
// Interleavings are produced deterministically: data handles stay open across
// later stores/deletes/evictions, reads on them are performed from INSIDE the
// source reader handed to Cache() (the middle of a write), and client operations
// are placed between the janitor's expiry scan and its removal loop through the
// janitor.afterScan yield point. Time passes through VerifShiftClock.

import (
	"path/filepath"
	"context"
	"errors"
	"fmt"
	"io"
	"os"
	"os/signal"
	"sort"
	"strconv"
	"strings"
	"syscall"
	"time"

	"reservoir/cache"
	"reservoir/config"
	"reservoir/metrics"
	"reservoir/utils/bytesize"
)

type vcache interface {
	cache.Cache[int]
	cache.VerifHooks
}

func bodyByte(ver, i int) byte { return byte(ver*131 + i*7 + (i >> 8) + 3) }

func mkBody(ver, size int) []byte {
	b := make([]byte, size)
	for i := range b {
		b[i] = bodyByte(ver, i)
	}
	return b
}

type faultReader struct {
	data    []byte
	pos     int
	failAt  int // -1: never
	hook    func()
	hooked  bool
	chunk   int
}

var errInjected = errors.New("injected source failure")

func (r *faultReader) Read(p []byte) (int, error) {
	if r.hook != nil && !r.hooked && r.pos > 0 {
		r.hooked = true
		r.hook()
	}
	if r.failAt >= 0 && r.pos >= r.failAt {
		return 0, errInjected
	}
	if r.pos >= len(r.data) {
		if r.hook != nil && !r.hooked {
			r.hooked = true
			r.hook()
		}
		return 0, io.EOF
	}
	n := r.chunk
	if n <= 0 {
		n = 7
	}
	if n > len(p) {
		n = len(p)
	}
	if r.pos+n > len(r.data) {
		n = len(r.data) - r.pos
	}
	if r.failAt >= 0 && r.pos+n > r.failAt {
		n = r.failAt - r.pos
	}
	copy(p, r.data[r.pos:r.pos+n])
	r.pos += n
	return n, nil
}

type ctHandle struct {
	data cache.EntryData
	meta *cache.EntryMetadata[int] // the entry's metadata as handed out (what a response is later built from)
	ver  int
	size int
	pos  int
}

type ctState struct {
	backend string
	c       vcache
	cfg     *config.Config
	dir     string
	keys    []cache.CacheKey
	idx     map[string]int
	handles map[int]*ctHandle
	nextH   int
	limit   int64
	cancel  context.CancelFunc
	t0      time.Time
	nkeys   int
	shards  int
	pct     int
	seq     int
}

func (s *ctState) destroy() {
	if s.c != nil {
		for _, h := range s.handles {
			h.data.Close()
		}
		s.c.Destroy()
		s.cancel()
		s.c = nil
	}
}

func (s *ctState) open() {
	ctx, cancel := context.WithCancel(context.Background())
	s.cancel = cancel
	metrics.Global = metrics.NewMetrics()
	s.cfg.Cache.MaxCacheSize.Overwrite(bytesize.ByteSize(s.limit))
	if s.backend == "file" {
		s.c = cache.NewFileCache[int](s.cfg, s.dir, s.limit, time.Hour, s.shards, ctx)
	} else {
		s.c = cache.NewMemoryCache[int](s.cfg, s.pct, s.limit, time.Hour, s.shards, ctx)
	}
	s.handles = map[int]*ctHandle{}
	s.nextH = 0
}

func (s *ctState) snap() string {
	sn := s.c.VerifSnapshot()
	ent := []string{}
	for hexk, sz := range sn.Entries {
		i, ok := s.idx[hexk]
		name := strconv.Itoa(i)
		if !ok {
			name = "?" + hexk[:6]
		}
		ent = append(ent, fmt.Sprintf("%s:%d", name, sz))
	}
	sort.Strings(ent)
	files := []string{}
	for n, sz := range sn.Files {
		i, ok := s.idx[n]
		name := strconv.Itoa(i)
		if !ok {
			name = "tmp"
		}
		files = append(files, fmt.Sprintf("%s:%d", name, sz))
	}
	sort.Strings(files)
	return fmt.Sprintf("bs=%d,mb=%d,me=%d,ent=[%s],files=[%s]", sn.ByteSize, metrics.Global.Cache.BytesCached.Get(), metrics.Global.Cache.CacheEntries.Get(), strings.Join(ent, " "), strings.Join(files, " "))
}

func (s *ctState) doRead(h, n int) string {
	hd, ok := s.handles[h]
	if !ok {
		return "nohandle"
	}
	buf := make([]byte, n)
	got := 0
	for got < n {
		m, err := hd.data.Read(buf[got:])
		got += m
		if err != nil || m == 0 {
			break
		}
	}
	status := "ok"
	for i := 0; i < got; i++ {
		if buf[i] != bodyByte(hd.ver, hd.pos+i) {
			status = fmt.Sprintf("CORRUPT@%d", hd.pos+i)
			break
		}
	}
	if hd.pos+got > hd.size {
		status = "BEYOND-LENGTH"
	}
	if hd.meta != nil && (hd.meta.Object != hd.ver || int(hd.meta.Size) != hd.size) {
		// the metadata a response would be built from now describes another version than the body handle
		status = fmt.Sprintf("BADMETA(meta=v%d:%d,body=v%d:%d)", hd.meta.Object, hd.meta.Size, hd.ver, hd.size)
	}
	hd.pos += got
	return fmt.Sprintf("%d:%s", got, status)
}

func errKind(err error) string {
	switch {
	case err == nil:
		return "ok"
	case errors.Is(err, cache.ErrCacheEntryNotFound):
		return "notfound"
	case errors.Is(err, cache.ErrCacheMemoryExceeded):
		return "memexceeded"
	case errors.Is(err, cache.ErrCacheFileCreate):
		return "createerr"
	case errors.Is(err, cache.ErrCacheFileWrite):
		return "writeerr"
	case errors.Is(err, cache.ErrCacheFileEmpty):
		return "emptyerr"
	case errors.Is(err, cache.ErrCacheFileRead):
		return "readerr"
	case errors.Is(err, errInjected):
		return "srcerr"
	}
	return "othererr"
}

func (s *ctState) doStore(k, ver, size int, ttl int64, fault string, reads string) string {
	rd := &faultReader{data: mkBody(ver, size), failAt: -1, chunk: 5 + ver%9}
	readObs := []string{}
	if reads != "-" {
		rd.hook = func() {
			for _, r := range strings.Split(reads, ",") {
				hn := strings.Split(r, ":")
				h, _ := strconv.Atoi(hn[0])
				n, _ := strconv.Atoi(hn[1])
				readObs = append(readObs, s.doRead(h, n))
			}
		}
	}
	undo := func() {}
	if fault == "ensuremid" {
		// the cleanup task's size check runs WHILE this store is reading its body (the key's shard is locked): whatever it
		// recomputes or skips, the counters afterwards equal what is stored (the limit is far away: nothing is evicted)
		prev := rd.hook
		rd.hook = func() {
			s.c.VerifEnsureSize()
			if prev != nil {
				prev()
			}
		}
	}
	switch {
	case strings.HasPrefix(fault, "src:"):
		rd.failAt, _ = strconv.Atoi(fault[4:])
	case fault == "create":
		os.Rename(s.dir, s.dir+".away")
		undo = func() { os.Rename(s.dir+".away", s.dir) }
	case fault == "rename":
		// make the final name a non-empty directory so that os.Rename fails. Only possible while the key
		// has no entry (otherwise its file is there); with an entry the fault is not injected — the
		// oracle applies the same rule.
		if _, has := s.c.VerifSnapshot().Entries[s.keys[k].Hex]; !has {
			p := s.dir + "/" + s.keys[k].Hex
			os.MkdirAll(p+"/x", 0o755)
			undo = func() { os.RemoveAll(p) }
		}
	case strings.HasPrefix(fault, "write:"):
		n, _ := strconv.Atoi(fault[6:])
		var old syscall.Rlimit
		syscall.Getrlimit(syscall.RLIMIT_FSIZE, &old)
		signal.Ignore(syscall.SIGXFSZ)
		syscall.Setrlimit(syscall.RLIMIT_FSIZE, &syscall.Rlimit{Cur: uint64(n), Max: old.Max})
		undo = func() { syscall.Setrlimit(syscall.RLIMIT_FSIZE, &old) }
	}
	e, err := s.c.Cache(s.keys[k], rd, time.Now().Add(time.Duration(ttl)*time.Millisecond), ver)
	undo()
	if rd.hook != nil && !rd.hooked {
		rd.hooked = true
		rd.hook() // the store never read from the source (refused early): the reads happen right after
	}
	res := errKind(err)
	if err == nil {
		if e.Metadata.Object != ver || e.Metadata.Size != int64(size) {
			res = fmt.Sprintf("ok-BADMETA(%d,%d)", e.Metadata.Object, e.Metadata.Size)
		}
		e.Data.Close()
	}
	if len(readObs) > 0 {
		res += ";r=" + strings.Join(readObs, ",")
	}
	return res
}

func (s *ctState) doGet(k int) string {
	e, err := s.c.Get(s.keys[k])
	if err != nil {
		return errKind(err)
	}
	h := s.nextH
	s.nextH++
	s.handles[h] = &ctHandle{data: e.Data, meta: e.Metadata, ver: e.Metadata.Object, size: int(e.Metadata.Size)}
	st := 0
	if e.Stale {
		st = 1
	}
	return fmt.Sprintf("ok ver=%d size=%d stale=%d h=%d", e.Metadata.Object, e.Metadata.Size, st, h)
}

func (s *ctState) doMid(mid string) {
	if mid == "-" {
		return
	}
	for _, m := range strings.Split(mid, ";") {
		f := strings.Split(m, ":")
		k, _ := strconv.Atoi(f[1])
		switch f[0] {
		case "store":
			ver, _ := strconv.Atoi(f[2])
			size, _ := strconv.Atoi(f[3])
			ttl, _ := strconv.ParseInt(f[4], 10, 64)
			s.doStore(k, ver, size, ttl, "none", "-")
		case "update":
			ttl, _ := strconv.ParseInt(f[2], 10, 64)
			s.c.UpdateMetadata(s.keys[k], func(m *cache.EntryMetadata[int]) {
				m.Expires = time.Now().Add(time.Duration(ttl) * time.Millisecond)
			})
		case "delete":
			s.c.Delete(s.keys[k])
		case "get":
			if e, err := s.c.Get(s.keys[k]); err == nil {
				h := s.nextH
				s.nextH++
				s.handles[h] = &ctHandle{data: e.Data, meta: e.Metadata, ver: e.Metadata.Object, size: int(e.Metadata.Size)}
			}
		}
	}
}

func init() {
	families["cachetrace"] = Family{
		NewExec: func(c runCfg, o *Out) func([]string) string {
			s := &ctState{}
			base, _ := os.MkdirTemp(c.out, "ct-")
			quietLogs()
			return func(f []string) (obs string) {
				defer func() {
					if r := recover(); r != nil {
						obs = fmt.Sprintf("panic(%v)", r)
					}
				}()
				if f[0] != "ct" {
					die("cachetrace: bad line %v", f)
				}
				o.Count("op:" + f[1])
				withSnap := func(r string) string {
					if time.Since(s.t0) > 40*time.Millisecond {
						o.Count("slow-trace")
						return r + "|slow"
					}
					return r + "|" + s.snap()
				}
				switch f[1] {
				case "reset": // backend limit pct shards nkeys
					s.destroy()
					s.seq++
					s.backend = f[2]
					s.limit, _ = strconv.ParseInt(f[3], 10, 64)
					s.pct, _ = strconv.Atoi(f[4])
					s.shards, _ = strconv.Atoi(f[5])
					s.nkeys, _ = strconv.Atoi(f[6])
					s.cfg = config.NewDefault()
					s.dir = fmt.Sprintf("%s/d%d", base, s.seq%4)
					os.RemoveAll(s.dir)
					s.keys = nil
					s.idx = map[string]int{}
					for i := 0; i < s.nkeys; i++ {
						k := cache.FromString(fmt.Sprintf("key-%d-%d", i, s.seq))
						s.keys = append(s.keys, k)
						s.idx[k.Hex] = i
					}
					s.open()
					sh := []string{}
					for _, k := range s.keys {
						sh = append(sh, strconv.Itoa(s.c.VerifShardOf(k)))
					}
					s.t0 = time.Now()
					o.Count("backend:" + s.backend)
					return "shards=" + strings.Join(sh, ",")
				case "store":
					k, _ := strconv.Atoi(f[2])
					ver, _ := strconv.Atoi(f[3])
					size, _ := strconv.Atoi(f[4])
					ttl, _ := strconv.ParseInt(f[5], 10, 64)
					r := s.doStore(k, ver, size, ttl, f[6], f[7])
					o.Count("store:" + strings.SplitN(r, ";", 2)[0])
					if f[6] != "none" {
						o.Count("fault:" + strings.SplitN(f[6], ":", 2)[0])
					}
					return withSnap(r)
				case "get":
					k, _ := strconv.Atoi(f[2])
					r := s.doGet(k)
					o.Count("get:" + strings.SplitN(r, " ", 2)[0])
					return withSnap(r)
				case "getmeta":
					k, _ := strconv.Atoi(f[2])
					m, stale, err := s.c.GetMetadata(s.keys[k])
					if err != nil {
						return withSnap(errKind(err))
					}
					st := 0
					if stale {
						st = 1
					}
					return withSnap(fmt.Sprintf("ok ver=%d size=%d stale=%d", m.Object, m.Size, st))
				case "update":
					k, _ := strconv.Atoi(f[2])
					ttl, _ := strconv.ParseInt(f[3], 10, 64)
					err := s.c.UpdateMetadata(s.keys[k], func(m *cache.EntryMetadata[int]) {
						m.Expires = time.Now().Add(time.Duration(ttl) * time.Millisecond)
					})
					return withSnap(errKind(err))
				case "delete":
					k, _ := strconv.Atoi(f[2])
					return withSnap(errKind(s.c.Delete(s.keys[k])))
				case "read":
					h, _ := strconv.Atoi(f[2])
					n, _ := strconv.Atoi(f[3])
					r := s.doRead(h, n)
					if strings.Contains(r, "ok") {
						o.Count("read:ok")
					}
					return withSnap("r=" + r)
				case "close":
					h, _ := strconv.Atoi(f[2])
					if hd, ok := s.handles[h]; ok {
						hd.data.Close()
						delete(s.handles, h)
					}
					return withSnap("closed")
				case "clean":
					if f[2] != "-" {
						o.Count("clean:window-ops")
					}
					cache.VerifYield = func(p string) {
						if p == "janitor.afterScan" {
							s.doMid(f[2])
						}
					}
					s.c.VerifCleanExpired()
					cache.VerifYield = nil
					return withSnap("cleaned")
				case "evict": // limit [mid]: mid = operations of other goroutines in the window between the eviction's scan and its removals
					lim, _ := strconv.ParseInt(f[2], 10, 64)
					if len(f) > 3 && f[3] != "-" {
						o.Count("evict:window-ops")
						cache.VerifYield = func(p string) {
							if p == "janitor.evict.afterScan" {
								cache.VerifYield = nil // the window operations run their own (un-windowed) evictions
								s.doMid(f[3])
							}
						}
					}
					s.c.VerifEvict(lim)
					cache.VerifYield = nil
					return withSnap("evicted")
				case "ensure":
					s.c.VerifEnsureSize()
					return withSnap("ensured")
				case "shift":
					d, _ := strconv.ParseInt(f[2], 10, 64)
					s.c.VerifShiftClock(time.Duration(d) * time.Millisecond)
					return withSnap("shifted")
				case "setlimit":
					n, _ := strconv.ParseInt(f[2], 10, 64)
					if n == s.limit {
						// no change: firing a notification whose effect cannot be awaited would leave an
						// asynchronous delivery pending that can overtake a later change (see C19 findings)
						return withSnap("limit-set")
					}
					s.limit = n
					s.cfg.Cache.MaxCacheSize.Overwrite(bytesize.ByteSize(n))
					deadline := time.Now().Add(2 * time.Second)
					for s.c.VerifSnapshot().Limit != n && time.Now().Before(deadline) {
						time.Sleep(50 * time.Microsecond)
					}
					// (the time spent waiting for the asynchronous listener is real time in which the entries age: it counts
					// as trace time, and a wait long enough to matter marks the trace "slow" - not judged - like any other stall)
					if s.c.VerifSnapshot().Limit != n {
						return withSnap("limit-not-followed")
					}
					return withSnap("limit-set")
				case "setbudget": // pct : the memory budget setting changes at run time (memory backend); a non-zero budget is
					// always far above the limits used here, so the effective limit stays min(max_cache_size, budget) = max_cache_size
					pct, _ := strconv.Atoi(f[2])
					mc, isMem := s.c.(interface{ VerifMemoryCap() int64 })
					if !isMem || pct == s.pct || pct == 0 || s.pct == 0 {
						return withSnap("budget-set")
					}
					before := mc.VerifMemoryCap()
					s.pct = pct
					s.cfg.Cache.Memory.MemoryBudgetPercent.Overwrite(pct)
					deadline := time.Now().Add(2 * time.Second)
					for mc.VerifMemoryCap() == before && time.Now().Before(deadline) {
						time.Sleep(50 * time.Microsecond)
					}
					if mc.VerifMemoryCap() == before {
						return withSnap("budget-not-followed")
					}
					o.Count("setbudget:applied")
					return withSnap("budget-set")
				case "reopen":
					// abandon the cache object (no Destroy bookkeeping is relied on) and start over the same directory
					s.destroy()
					if len(f) > 2 && f[2] == "litter" && s.backend == "file" {
						// a dirty directory: what a crash in the middle of a store, an older run or an operator leaves behind.
						// A restart must not count, return or keep any of it.
						os.MkdirAll(s.dir, 0o755)
						os.WriteFile(filepath.Join(s.dir, s.keys[0].Hex), []byte("stale!!"), 0o644)
						os.WriteFile(filepath.Join(s.dir, s.keys[len(s.keys)-1].Hex+".tmp-1234567"), []byte("abandoned-tmp"), 0o644)
						os.WriteFile(filepath.Join(s.dir, cache.FromString("not-in-the-universe").Hex), []byte("x"), 0o644)
						os.WriteFile(filepath.Join(s.dir, "notes.txt"), []byte("abc"), 0o644)
						o.Count("reopen:litter")
					}
					s.open()
					return withSnap("reopened")
				}
				die("cachetrace: unknown op %v", f)
				return ""
			}
		},
		Gen: genCacheTrace,
	}
}

func genCacheTrace(c runCfg, o *Out, emit func(...string)) {
	r := NewRng(c.seed)
	ntraces := 300
	if c.tier == "thorough" {
		ntraces = 6000
	}
	if c.n > 0 {
		ntraces = c.n
	}
	itoa := strconv.Itoa
	ver := 0
	for t := 0; t < ntraces; t++ {
		backend := "mem"
		if r.Bool() {
			backend = "file"
		}
		nkeys := 2 + r.Intn(3)
		shards := []int{1, 2, 3, 64}[r.Intn(4)]
		limit := []int{100, 250, 400, 1000, 100000}[r.Intn(5)]
		pct := 75
		if backend == "mem" && r.Chance(4) {
			pct = 0
		}
		emit("ct", "reset", backend, itoa(limit), itoa(pct), itoa(shards), itoa(nkeys))
		// model-free bookkeeping for generating sensible ops
		openH := []int{}
		nextH := 0
		nops := 6 + r.Intn(24)
		sizes := []int{0, 1, 7, 40, 60, 90, 120, 200, 333}
		ttls := []int{-150, 50, 150, 250, 450, 1050}
		if t%10 == 3 && limit <= 1000 {
			// directed: the FIRST eviction candidate vanishes between the eviction's scan and its removal loop (another goroutine
			// deleted / evicted it): each removal then fails; afterwards every key - i.e. every shard - must still be usable
			for kk := 0; kk < nkeys; kk++ {
				ver++
				emit("ct", "store", itoa(kk), itoa(ver), itoa(120), itoa(1050), "none", "-")
				emit("ct", "shift", itoa(100*(1+kk)))
			}
			// key 0 is the least recently used, i.e. the FIRST candidate; the others keep the cache above the target, so the
			// loop does try to remove the vanished one
			ds := []string{"delete:0"}
			if nkeys > 3 && t%20 == 3 {
				ds = append(ds, "delete:1")
			}
			emit("ct", "evict", itoa(100), strings.Join(ds, ";"))
			for kk := 0; kk < nkeys; kk++ {
				emit("ct", "get", itoa(kk))
				ver++
				emit("ct", "store", itoa(kk), itoa(ver), itoa(40), itoa(1050), "none", "-")
				emit("ct", "shift", itoa(100))
			}
		}
		for i := 0; i < nops; i++ {
			k := r.Intn(nkeys)
			switch x := r.Intn(100); {
			case x < 30:
				ver++
				size := sizes[r.Intn(len(sizes))]
				fault := "none"
				if limit == 100000 && r.Chance(25) {
					fault = "ensuremid"
				}
				if r.Chance(18) {
					switch r.Intn(4) {
					case 0, 1:
						fault = "src:" + itoa(r.Intn(size+1))
					case 2:
						if backend == "file" {
							fault = "write:" + itoa(r.Intn(size+1))
						}
					case 3:
						if backend == "file" {
							fault = "rename"
						}
					}
				}
				reads := "-"
				if len(openH) > 0 && r.Chance(40) {
					rs := []string{}
					for j := 0; j < 1+r.Intn(2); j++ {
						rs = append(rs, itoa(openH[r.Intn(len(openH))])+":"+itoa(1+r.Intn(50)))
					}
					reads = strings.Join(rs, ",")
				}
				emit("ct", "store", itoa(k), itoa(ver), itoa(size), itoa(ttls[r.Intn(len(ttls))]), fault, reads)
			case x < 50:
				emit("ct", "get", itoa(k))
				// a handle id is consumed only on success; the harness and the model agree on that, the
				// generator over-approximates (reads on unknown handles are no-ops on both sides)
				openH = append(openH, nextH)
				nextH++
			case x < 62:
				if len(openH) > 0 {
					emit("ct", "read", itoa(openH[r.Intn(len(openH))]), itoa(1+r.Intn(150)))
				}
			case x < 66:
				if len(openH) > 0 {
					j := r.Intn(len(openH))
					emit("ct", "close", itoa(openH[j]))
				}
			case x < 72:
				emit("ct", "delete", itoa(k))
			case x < 78:
				emit("ct", "update", itoa(k), itoa(ttls[r.Intn(len(ttls))]))
			case x < 81:
				emit("ct", "getmeta", itoa(k))
			case x < 88:
				mid := "-"
				if r.Chance(50) {
					ms := []string{}
					for j := 0; j < 1+r.Intn(2); j++ {
						mk := r.Intn(nkeys)
						switch r.Intn(4) {
						case 0, 1:
							ver++
							ms = append(ms, fmt.Sprintf("store:%d:%d:%d:%d", mk, ver, sizes[1+r.Intn(len(sizes)-1)], ttls[r.Intn(len(ttls))]))
						case 2:
							ms = append(ms, fmt.Sprintf("update:%d:%d", mk, ttls[r.Intn(len(ttls))]))
						default:
							ms = append(ms, fmt.Sprintf("delete:%d", mk))
						}
					}
					mid = strings.Join(ms, ";")
				}
				emit("ct", "clean", mid)
			case x < 92:
				lim := []int{100, 250, 400, 1000}[r.Intn(4)]
				if r.Chance(40) {
					// another goroutine stores (possibly evicting on its own) or deletes between this eviction's scan and its removals
					ms := []string{}
					for j := 0; j < 1+r.Intn(2); j++ {
						mk := r.Intn(nkeys)
						if r.Chance(70) {
							ver++
							ms = append(ms, fmt.Sprintf("store:%d:%d:%d:%d", mk, ver, sizes[1+r.Intn(len(sizes)-1)], ttls[r.Intn(len(ttls))]))
						} else {
							ms = append(ms, fmt.Sprintf("delete:%d", mk))
						}
					}
					emit("ct", "evict", itoa(lim), strings.Join(ms, ";"))
				} else {
					emit("ct", "evict", itoa(lim))
				}
			case x < 95:
				emit("ct", "ensure")
			case x < 97:
				limit = []int{100, 250, 400, 1000}[r.Intn(4)] // (the mid-store size check is generated only far below the limit)
				emit("ct", "setlimit", itoa(limit))
				if r.Chance(40) {
					// ... followed by a change of the OTHER setting the effective limit is computed from
					emit("ct", "setbudget", itoa([]int{10, 50, 75, 90}[r.Intn(4)]))
				}
			case x < 98:
				if r.Bool() {
					emit("ct", "reopen", "litter")
				} else {
					emit("ct", "reopen")
				}
				openH = nil
				nextH = 0
			default:
				emit("ct", "shift", itoa(100*(1+r.Intn(12))))
			}
			// time passes between any two operations so that access times are distinct
			if r.Chance(85) {
				emit("ct", "shift", itoa(100*(1+r.Intn(4))))
			}
		}
	}
}
