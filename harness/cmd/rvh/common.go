// rvh — correspondence harness for F0903/reservoir. It executes the REAL code of
// /repo in-process (module replace, build tag verif) on generated inputs and
// writes one line per operation:  family \t arg... \t => \t observation
// The Lean oracle (lean/Main.lean) replays the same lines through the models.
package main

import (
	"bufio"
	"encoding/hex"
	"encoding/json"
	"fmt"
	"io"
	"log/slog"
	"os"
	"sort"
	"strings"
)

// splitmix64: every random choice of a run derives from VERIF_SEED.
type Rng struct{ s uint64 }

func NewRng(seed uint64) *Rng { return &Rng{s: seed*0x9E3779B97F4A7C15 + 0x1234567} }
func (r *Rng) U64() uint64 {
	r.s += 0x9E3779B97F4A7C15
	z := r.s
	z = (z ^ (z >> 30)) * 0xBF58476D1CE4E5B9
	z = (z ^ (z >> 27)) * 0x94D049BB133111EB
	return z ^ (z >> 31)
}
func (r *Rng) Intn(n int) int {
	if n <= 0 {
		return 0
	}
	return int(r.U64() % uint64(n))
}
func (r *Rng) Bool() bool         { return r.U64()&1 == 1 }
func (r *Rng) Chance(p int) bool  { return r.Intn(100) < p }
func (r *Rng) Pick(xs []string) string { return xs[r.Intn(len(xs))] }

func hx(s string) string {
	if s == "" {
		return "-"
	}
	return hex.EncodeToString([]byte(s))
}

// Out collects op lines and the distribution histogram of a family run.
type Out struct {
	w      *bufio.Writer
	f      *os.File
	n      int
	hist   map[string]int
	sample []string
	dir    string
	name   string
	classes map[string]bool
}

func NewOut(dir, name string) *Out {
	f, err := os.Create(dir + "/" + name + ".ops")
	if err != nil {
		panic(err)
	}
	return &Out{w: bufio.NewWriterSize(f, 1<<20), f: f, hist: map[string]int{}, dir: dir, name: name, classes: map[string]bool{}}
}

// Emit writes one operation line. fields are already transport-encoded.
func (o *Out) Emit(obs string, fields ...string) {
	line := strings.Join(fields, "\t") + "\t=>\t" + obs
	o.w.WriteString(line)
	o.w.WriteByte('\n')
	o.n++
	if len(o.sample) < 12 && (o.n%97 == 1 || o.n < 4) {
		o.sample = append(o.sample, line)
	}
}

// Count records one occurrence of a distribution class (op kind, branch, ...).
func (o *Out) Count(class string) { o.hist[class]++ }

// Distinct records a canonical (input class, outcome class) pair.
func (o *Out) Distinct(class string) { o.classes[class] = true }

func (o *Out) Close(extra map[string]any) {
	o.w.Flush()
	o.f.Close()
	keys := make([]string, 0, len(o.hist))
	for k := range o.hist {
		keys = append(keys, k)
	}
	sort.Strings(keys)
	meta := map[string]any{"family": o.name, "lines": o.n, "hist": o.hist, "samples": o.sample, "distinct_classes": len(o.classes)}
	for k, v := range extra {
		meta[k] = v
	}
	b, _ := json.MarshalIndent(meta, "", " ")
	os.WriteFile(o.dir+"/"+o.name+".meta.json", b, 0o644)
}

// quietLogs discards the application's slog output (it goes to stderr by default).
func quietLogs() {
	slog.SetDefault(slog.New(slog.NewTextHandler(io.Discard, &slog.HandlerOptions{Level: slog.LevelError + 8})))
}

func die(format string, a ...any) {
	fmt.Fprintf(os.Stderr, format+"\n", a...)
	os.Exit(3)
}
