package main

// rawreq — C16 end to end for the parts of a request the other families do not fuzz: the request line (method,
// target form, version), Host, CONNECT targets, duplicated / oversized / control-character header fields, invalid
// percent escapes — sent as raw bytes over TCP to the real proxy (plain, and inside a CONNECT tunnel after the TLS
// handshake). Observation: the class of what came back (HTTP status, or "closed" when the server hung up without a
// response, or "timeout"). The property: always a well-formed HTTP response (net/http's own 400 included), never a
// crash of the process, never silence.
//   rr plain|tunnel <hex of the request head>

import (
	"strconv"
	"sync"
	"bufio"
	"context"
	"crypto/tls"
	"fmt"
	"io"
	"net"
	"net/http"
	"net/http/httptest"
	"net/url"
	"os"
	"strings"
	"time"

	"reservoir/config"
	"reservoir/proxy"
	"reservoir/utils/bytesize"
	"reservoir/utils/duration"
)

type rrState struct {
	px       *pxState
	p        *proxy.Proxy
	proxyAddr string
	origin   *httptest.Server
	cancel   context.CancelFunc
	ohost    string
}

func (s *rrState) start(base string) {
	cfg := config.NewDefault()
	cfg.Proxy.UpstreamDefaultHttps.Overwrite(false)
	cfg.Cache.MaxCacheSize.Overwrite(bytesize.ByteSize(1 << 20))
	cfg.Cache.CleanupInterval.Overwrite(duration.Duration(time.Hour))
	cfg.Cache.LockShards.Overwrite(4)
	cfg.Cache.Type.Overwrite(config.CacheTypeMemory)
	ctx, cancel := context.WithCancel(context.Background())
	s.cancel = cancel
	p, err := proxy.NewProxy(cfg, s.px.ca, ctx)
	if err != nil {
		die("rawreq: NewProxy: %v", err)
	}
	s.p = p
	s.origin = httptest.NewServer(http.HandlerFunc(func(w http.ResponseWriter, r *http.Request) {
		if strings.HasPrefix(r.URL.Path, "/oddstatus/") {
			// a status line net/http's own server would never write: "HTTP/1.1 099 Odd", 000, 999 ...
			if hj, ok := w.(http.Hijacker); ok {
				if conn, buf, err := hj.Hijack(); err == nil {
					fmt.Fprintf(buf, "HTTP/1.1 %s Odd\r\nContent-Length: 2\r\nCache-Control: max-age=60\r\n\r\nhi", strings.TrimPrefix(r.URL.Path, "/oddstatus/"))
					buf.Flush()
					conn.Close()
				}
			}
			return
		}
		if strings.HasPrefix(r.URL.Path, "/trunc-") {
			// an origin transfer that fails part-way: the announced length (or the last chunk) never arrives
			hj, ok := w.(http.Hijacker)
			if !ok {
				return
			}
			conn, buf, err := hj.Hijack()
			if err != nil {
				return
			}
			cc := "max-age=60"
			if strings.Contains(r.URL.Path, "nostore") {
				cc = "no-store"
			}
			part := strings.Repeat("T", 1000)
			if strings.HasPrefix(r.URL.Path, "/trunc-cl") {
				fmt.Fprintf(buf, "HTTP/1.1 200 OK\r\nContent-Length: 100000\r\nCache-Control: %s\r\n\r\n%s", cc, part)
			} else {
				fmt.Fprintf(buf, "HTTP/1.1 200 OK\r\nTransfer-Encoding: chunked\r\nCache-Control: %s\r\n\r\n3e8\r\n%s\r\n", cc, part)
			}
			buf.Flush()
			conn.Close()
			return
		}
		if r.URL.Path == "/echoq" {
			w.Header().Set("Cache-Control", "max-age=60")
			w.Write([]byte("q=" + r.URL.RawQuery))
			return
		}
		if strings.Contains(r.URL.RawQuery, "echo=") {
			// the request-target exactly as the proxy wrote it
			w.Header().Set("Cache-Control", "no-store")
			w.Write([]byte("t=" + r.RequestURI))
			return
		}
		w.Header().Set("Cache-Control", "max-age=60")
		io.Copy(io.Discard, r.Body)
		w.Write([]byte("origin-body:" + r.URL.Path))
	}))
	ou, _ := url.Parse(s.origin.URL)
	s.ohost = ou.Host
	// the proxy's REAL entry point (Proxy.Listen -> httplistener), not a test server around ServeHTTP: whatever Listen
	// puts between the socket and the handler is part of what a client talks to
	ln, err := net.Listen("tcp", "127.0.0.1:0")
	if err != nil {
		die("rawreq: listen: %v", err)
	}
	s.proxyAddr = ln.Addr().String()
	ln.Close()
	errc := make(chan error, 2)
	go p.Listen(s.proxyAddr, errc, ctx)
	up := false
	for i := 0; i < 400 && !up; i++ {
		if c, err := net.DialTimeout("tcp", s.proxyAddr, 200*time.Millisecond); err == nil {
			c.Close()
			up = true
		} else {
			time.Sleep(5 * time.Millisecond)
		}
	}
	if !up {
		die("rawreq: Proxy.Listen did not come up on %s", s.proxyAddr)
	}
}

func rrClassify(rd *bufio.Reader, conn net.Conn) string {
	conn.SetReadDeadline(time.Now().Add(4 * time.Second))
	line, err := rd.ReadString('\n')
	if err != nil {
		if ne, ok := err.(net.Error); ok && ne.Timeout() {
			return "timeout"
		}
		if line == "" {
			return "closed"
		}
		return "garbled"
	}
	line = strings.TrimRight(line, "\r\n")
	if !strings.HasPrefix(line, "HTTP/1.") || len(line) < 12 {
		return "garbled"
	}
	return "status:" + line[9:12]
}

func init() {
	families["rawreq"] = Family{
		NewExec: func(c runCfg, o *Out) func([]string) string {
			quietLogs()
			s := &rrState{px: &pxState{}}
			base, _ := os.MkdirTemp(c.out, "rr-")
			s.px.ca, s.px.caPool = pxMakeCA(base)
			s.start(base)
			return func(f []string) (obs string) {
				defer func() {
					if r := recover(); r != nil {
						obs = fmt.Sprintf("panic(%v)", r)
					}
				}()
				if f[0] != "rr" {
					die("rawreq: bad line %v", f)
				}
				if f[1] == "crowd" {
					// k clients at the same moment, each asking the SAME origin for a DIFFERENT path and query: every one gets the
					// answer to its own request (nothing of one exchange - not even the target URL - is shared with another)
					k, _ := strconv.Atoi(f[2])
					type res struct {
						want, got string
					}
					out := make([]res, k)
					var wg sync.WaitGroup
					start := make(chan struct{})
					for i := 0; i < k; i++ {
						wg.Add(1)
						go func(i int) {
							defer wg.Done()
							tgt := fmt.Sprintf("/crowd/%s/p%d?echo=%s-%d", f[3], i, f[3], i)
							out[i].want = "t=" + tgt
							<-start
							conn, err := net.DialTimeout("tcp", s.proxyAddr, 3*time.Second)
							if err != nil {
								out[i].got = "dial-failed"
								return
							}
							defer conn.Close()
							conn.SetDeadline(time.Now().Add(6 * time.Second))
							fmt.Fprintf(conn, "GET http://%s%s HTTP/1.1\r\nHost: %s\r\nConnection: close\r\n\r\n", s.ohost, tgt, s.ohost)
							resp, err := http.ReadResponse(bufio.NewReader(conn), nil)
							if err != nil {
								out[i].got = "noresponse"
								return
							}
							b, _ := io.ReadAll(resp.Body)
							resp.Body.Close()
							out[i].got = string(b)
						}(i)
					}
					close(start)
					wg.Wait()
					wrong := 0
					first := ""
					for _, r := range out {
						if r.got != r.want {
							wrong++
							if first == "" {
								first = fmt.Sprintf("asked %q got %q", r.want, truncStr(r.got, 60))
							}
						}
					}
					o.Count("crowd")
					if wrong == 0 {
						return "all-own-answers"
					}
					return fmt.Sprintf("%d of %d clients got another answer: %s", wrong, k, first)
				}
				if f[1] == "target" {
					// C08: the origin is asked for the path and query AS THE CLIENT WROTE THEM (dot segments, escapes, empty segments)
					tgt := unhx(f[2])
					conn, err := net.DialTimeout("tcp", s.proxyAddr, 3*time.Second)
					if err != nil {
						return "dial-failed"
					}
					defer conn.Close()
					conn.SetDeadline(time.Now().Add(4 * time.Second))
					fmt.Fprintf(conn, "GET http://%s%s HTTP/1.1\r\nHost: %s\r\nConnection: close\r\n\r\n", s.ohost, tgt, s.ohost)
					resp, err := http.ReadResponse(bufio.NewReader(conn), nil)
					if err != nil {
						return "noresponse"
					}
					b, _ := io.ReadAll(resp.Body)
					resp.Body.Close()
					o.Count("target")
					return fmt.Sprintf("%d:%s", resp.StatusCode, hx(string(b)))
				}
				if f[1] == "qpair" {
					// two plain proxied GETs that differ only in the query string, through the real listener: each must be
					// answered with ITS OWN resource (the origin echoes the query it received)
					get := func(q string) string {
						conn, err := net.DialTimeout("tcp", s.proxyAddr, 3*time.Second)
						if err != nil {
							return "dial-failed"
						}
						defer conn.Close()
						conn.SetDeadline(time.Now().Add(4 * time.Second))
						fmt.Fprintf(conn, "GET http://%s/echoq?%s HTTP/1.1\r\nHost: %s\r\nConnection: close\r\n\r\n", s.ohost, q, s.ohost)
						resp, err := http.ReadResponse(bufio.NewReader(conn), nil)
						if err != nil {
							return "noresponse"
						}
						b, _ := io.ReadAll(resp.Body)
						resp.Body.Close()
						return fmt.Sprintf("%d:%s", resp.StatusCode, hx(string(b)))
					}
					o.Count("qpair")
					return get(unhx(f[2])) + " " + get(unhx(f[3]))
				}
				head := strings.ReplaceAll(unhx(f[2]), "@ORIGIN@", s.ohost)
				addr := s.proxyAddr
				conn, err := net.DialTimeout("tcp", addr, 3*time.Second)
				if err != nil {
					return "dial-failed"
				}
				defer conn.Close()
				o.Count("transport:" + f[1])
				var tcConn *tls.Conn
				if f[1] == "tunnel" || f[1] == "tunnel2" || f[1] == "tunnel3" || f[1] == "tunnelhist" {
					fmt.Fprintf(conn, "CONNECT %s HTTP/1.1\r\nHost: %s\r\n\r\n", s.ohost, s.ohost)
					br := bufio.NewReader(conn)
					resp, err := http.ReadResponse(br, nil)
					if err != nil || resp.StatusCode != 200 {
						return "connect-failed"
					}
					host, _, _ := net.SplitHostPort(s.ohost)
					tc := tls.Client(conn, &tls.Config{RootCAs: s.px.caPool, ServerName: host})
					tc.SetDeadline(time.Now().Add(5 * time.Second))
					if err := tc.Handshake(); err != nil {
						return "handshake-failed"
					}
					tcConn = tc
					if f[1] == "tunnelhist" {
						// MANY exchanges on one tunnel (k requests, each with `pad` KiB of header fields): however many requests the
						// tunnel has carried and however large their heads were, each gets the answer to ITS OWN request
						var k, pad int
						fmt.Sscanf(head, "%d %d", &k, &pad)
						tcr := bufio.NewReader(tc)
						padding := strings.Repeat("p", pad*1024)
						for i := 0; i < k; i++ {
							tc.SetDeadline(time.Now().Add(8 * time.Second))
							fmt.Fprintf(tc, "GET /hist-%d HTTP/1.1\r\nHost: %s\r\nX-Pad: %s\r\n\r\n", i, s.ohost, padding)
							resp, err := http.ReadResponse(tcr, nil)
							if err != nil {
								return fmt.Sprintf("exchange %d of %d: no response (%s)", i, k, errClass(err))
							}
							b, _ := io.ReadAll(resp.Body)
							resp.Body.Close()
							if resp.StatusCode != 200 || string(b) != fmt.Sprintf("origin-body:/hist-%d", i) {
								return fmt.Sprintf("exchange %d of %d: other-answer(%d:%q)", i, k, resp.StatusCode, truncStr(string(b), 40))
							}
						}
						o.Count("tunnelhist")
						return "all-own-answers"
					}
					tc.Write([]byte(head))
					if f[1] == "tunnel" {
						r := rrClassify(bufio.NewReader(tc), tc)
						o.Count("result:" + strings.SplitN(r, ":", 2)[0])
						return r
					}
				}
				if f[1] == "tunnel3" {
					// an exchange whose response the proxy cannot complete (the origin's transfer fails part-way), then an
					// ordinary exchange on the SAME tunnel. An incomplete HTTP/1.1 message can only be signalled by closing
					// the connection: whatever arrives after it would be read as the rest of the first body.
					readQuiet := func(silence time.Duration) (data []byte, closed bool) {
						bufb := make([]byte, 65536)
						for {
							tcConn.SetReadDeadline(time.Now().Add(silence))
							n, err := tcConn.Read(bufb)
							data = append(data, bufb[:n]...)
							if err != nil {
								ne, isNet := err.(net.Error)
								return data, !(isNet && ne.Timeout())
							}
						}
					}
					a, closedA := readQuiet(900 * time.Millisecond)
					first := "nothing"
					if resp, err := http.ReadResponse(bufio.NewReader(strings.NewReader(string(a))), nil); err == nil {
						b, berr := io.ReadAll(resp.Body)
						first = fmt.Sprintf("status:%d body=%d", resp.StatusCode, len(b))
						if berr != nil {
							first += " incomplete"
						} else {
							first += " complete"
						}
					}
					o.Count("tunnel3:" + strings.SplitN(first, " ", 2)[0])
					if closedA {
						return first + " then closed"
					}
					tcConn.SetWriteDeadline(time.Now().Add(2 * time.Second))
					fmt.Fprintf(tcConn, "GET /second HTTP/1.1\r\nHost: %s\r\n\r\n", s.ohost)
					b, closedB := readQuiet(900 * time.Millisecond)
					switch {
					case strings.Contains(string(b), "origin-body:/second") && strings.HasSuffix(first, "incomplete"):
						return first + " then open: the next response arrived where the rest of the first body is expected"
					case strings.Contains(string(b), "origin-body:/second"):
						return first + " then own-answer"
					case closedB:
						return first + " then closed"
					}
					return first + fmt.Sprintf(" then open: %d more bytes", len(b))
				}
				if f[1] == "tunnel2" {
					// the odd exchange, then an ordinary one on the SAME tunnel: it must get its own answer (or find the
					// tunnel closed), never the answer to something else
					tcr := bufio.NewReader(tcConn)
					tcConn.SetDeadline(time.Now().Add(6 * time.Second))
					first := "closed"
					if resp, err := http.ReadResponse(tcr, nil); err == nil {
						io.Copy(io.Discard, resp.Body)
						resp.Body.Close()
						first = fmt.Sprintf("status:%d", resp.StatusCode)
					}
					o.Count("result:" + strings.SplitN(first, ":", 2)[0])
					fmt.Fprintf(tcConn, "GET /second HTTP/1.1\r\nHost: %s\r\n\r\n", s.ohost)
					second := "closed"
					if resp, err := http.ReadResponse(tcr, nil); err == nil {
						b, _ := io.ReadAll(resp.Body)
						resp.Body.Close()
						if resp.StatusCode == 200 && string(b) == "origin-body:/second" {
							second = "own-answer"
						} else {
							second = fmt.Sprintf("other-answer(%d:%q)", resp.StatusCode, truncStr(string(b), 40))
						}
					}
					return first + " then " + second
				}
				if false {
				}
				conn.Write([]byte(head))
				r := rrClassify(bufio.NewReader(conn), conn)
				o.Count("result:" + strings.SplitN(r, ":", 2)[0])
				return r
			}
		},
		Gen: func(c runCfg, o *Out, emit func(...string)) {
			r := NewRng(c.seed)
			n := 150
			if c.tier == "thorough" {
				n = 4000
			}
			if c.n > 0 {
				n = c.n
			}
			methods := []string{"GET", "HEAD", "POST", "PUT", "DELETE", "OPTIONS", "PATCH", "TRACE", "CONNECT", "get", "G E T", "", "GET\x00", "BREW", strings.Repeat("M", 300)}
			targets := []string{"http://@ORIGIN@/oddstatus/099", "http://@ORIGIN@/oddstatus/000", "http://@ORIGIN@/oddstatus/999", "http://@ORIGIN@/oddstatus/600", "/oddstatus/099", "http://@ORIGIN@/oddstatus/001",
				"http://@ORIGIN@/a", "http://@ORIGIN@/a?b=c", "/a", "/", "*", "@ORIGIN@", "http://@ORIGIN@", "http://@ORIGIN@/%zz", "http://@ORIGIN@/a b", "http://@ORIGIN@/" + strings.Repeat("p", 9000),
				"http://[::1", "http://@ORIGIN@:99999/", "//@ORIGIN@/x", "http:///nohost", "ftp://@ORIGIN@/a", "http://user:pw@@ORIGIN@/a", "http://@ORIGIN@/a#frag", "127.0.0.1:1", ":443", "[::1]:443", "[::1", "host:port:extra", "example.test:443", "", "\x7f"}
			versions := []string{"HTTP/1.1", "HTTP/1.0", "HTTP/2.0", "HTTP/1.1 extra", "http/1.1", "", "HTTP/9.9"}
			hosts := []string{"@ORIGIN@", "", "a b", "@ORIGIN@, other", strings.Repeat("h", 5000), "[::1]:80", "127.0.0.1:1", "\t", "ex\x00ample"}
			extra := []string{"", "Range: bytes=0-1\r\n", "Range: bytes=0-1\r\nRange: bytes=2-3\r\n", "If-Range: \r\n", "Content-Length: 5\r\n\r\nhello", "Content-Length: -1\r\n", "Content-Length: 5\r\nContent-Length: 6\r\n",
				"Transfer-Encoding: chunked\r\n\r\n5\r\nhello\r\n0\r\n\r\n", "Transfer-Encoding: bogus\r\n", "Connection: close, X-A\r\nX-A: 1\r\n", "Cache-Control: \x01\r\n", "X-Long: " + strings.Repeat("v", 70000) + "\r\n",
				"Expect: 100-continue\r\nContent-Length: 3\r\n\r\nabc", "Upgrade: websocket\r\nConnection: Upgrade\r\n", " folded: line\r\n", "NoColonHeader\r\n", ": empty-name\r\n", "Host: second\r\n"}
			for i := 0; i < n; i++ {
				m, t, v := r.Pick(methods), r.Pick(targets), r.Pick(versions)
				if r.Chance(60) { // mostly valid skeletons with one odd part
					m, v = "GET", "HTTP/1.1"
					switch r.Intn(4) {
					case 0:
						m = r.Pick(methods)
					case 1:
						v = r.Pick(versions)
					case 2:
						t = r.Pick(targets)
					}
					if r.Chance(50) {
						t = r.Pick(targets[:10])
					}
				}
				h := "@ORIGIN@"
				if r.Chance(30) {
					h = r.Pick(hosts)
				}
				head := m + " " + t + " " + v + "\r\n"
				if h != "" || r.Chance(50) {
					head += "Host: " + h + "\r\n"
				}
				x := r.Pick(extra)
				if strings.Contains(x, "\r\n\r\n") {
					head += x
				} else {
					head += x + "\r\n"
				}
				if i%10 == 3 {
					qs := []string{"a=1", "a=1&b=2", "a=1;b=2", "tags=x;y&page=2", "tags=x&y&page=2", "a=1%3Bb=2", "a=%26", "a=+", "a=%20", "a=b=c", "a", "", "a=1&&b", ";", "&", "x=%zz", "q=a|b"}
					q1 := r.Pick(qs)
					q2 := r.Pick(qs)
					if r.Chance(60) {
						// differ only in a separator or an escape
						q2 = r.Pick([]string{strings.Replace(q1, ";", "&", 1), strings.Replace(q1, "&", ";", 1), strings.Replace(q1, "%3B", ";", 1), strings.Replace(q1, "+", "%20", 1), q1 + "&", "&" + q1})
					}
					emit("rr", "qpair", hx(q1+fmt.Sprintf("&n=%d", i)), hx(q2+fmt.Sprintf("&n=%d", i)))
				}
				if i%6 == 2 {
					segs := []string{"a", "b", ".", "..", "", "%2F", "%2E", "%2e%2E", "a%20b", "x.y", "..a", "a..", "%41", "%252F"}
					tp := "/echop"
					for k := 0; k < 1+r.Intn(4); k++ {
						tp += "/" + r.Pick(segs)
					}
					if r.Chance(30) {
						tp += "/"
					}
					// a query unique to this op: the exchange is never answered from the store (paths that differ only in
					// dot-segments rightly share an entry), so what comes back is what the origin was asked for
					tp += "?" + r.Pick([]string{"x=1&", "a=/../b&", "p=%2F&", "", "a;b&"}) + fmt.Sprintf("echo=%d", i)
					emit("rr", "target", hx(tp))
				}
				if i%30 == 17 {
					emit("rr", "crowd", strconv.Itoa([]int{8, 24, 48}[r.Intn(3)]), strconv.Itoa(i))
				}
				if i%50 == 11 {
					kp := [][2]int{{6, 300}, {40, 40}, {400, 3}, {1500, 0}}[r.Intn(4)]
					emit("rr", "tunnelhist", hx(fmt.Sprintf("%d %d", kp[0], kp[1])))
				}
				if i%25 == 7 {
					p := r.Pick([]string{"/trunc-cl", "/trunc-chunked", "/trunc-cl-nostore", "/trunc-chunked-nostore"})
					emit("rr", "tunnel3", hx("GET "+p+fmt.Sprintf("-%d", i)+" HTTP/1.1\r\nHost: @ORIGIN@\r\n\r\n"))
				}
				tr := "plain"
				if r.Chance(30) && m != "CONNECT" {
					tr = "tunnel"
				}
				emit("rr", tr, hx(head))
				if r.Chance(25) {
					// a request WITH a body whose bytes would parse as a request of their own, under an odd Host or target:
					// whatever the proxy makes of it, the next exchange on the tunnel is the client's next request
					phantom := "GET /phantom HTTP/1.1\r\nHost: phantom.example\r\n\r\n"
					bh := r.Pick([]string{"@ORIGIN@", "127.0.0.1:1234x", "a b", "[::1", "%zz", "@ORIGIN@:99999", ""})
					if r.Chance(40) {
						bh = "@ORIGIN@" // an ordinary Host: the request is cacheable, so a repetition is answered from the store
					}
					bm := r.Pick([]string{"POST", "PUT", "GET", "DELETE"})
					bt := r.Pick([]string{"/first", "http://@ORIGIN@/first", "/%zz", "*"})
					var bhead string
					if r.Chance(50) {
						bhead = fmt.Sprintf("%s %s HTTP/1.1\r\nHost: %s\r\nContent-Length: %d\r\n\r\n%s", bm, bt, bh, len(phantom), phantom)
					} else {
						bhead = fmt.Sprintf("%s %s HTTP/1.1\r\nHost: %s\r\nTransfer-Encoding: chunked\r\n\r\n%x\r\n%s\r\n0\r\n\r\n", bm, bt, bh, len(phantom), phantom)
					}
					emit("rr", "tunnel2", hx(bhead))
					if bm == "GET" && r.Chance(70) {
						// the same exchange again: when the first one was stored, this one is answered from the cache WITHOUT the
						// handler reading the request body - the body bytes must still not be taken for the next request
						emit("rr", "tunnel2", hx(bhead))
						o.Count("tunnel2:repeated-get-with-body")
					}
				}
			}
		},
	}
}

func truncStr(s string, n int) string {
	if len(s) > n {
		return s[:n]
	}
	return s
}
