package main

import (
	"bufio"
	"flag"
	"fmt"
	"os"
	"runtime"
	"strconv"
	"strings"
	"time"
)

type runCfg struct {
	seed   uint64
	tier   string
	out    string
	replay string
	n      int
	name   string
}

// A Family couples a generator of operation lines with an executor that runs
// one line against the real implementation and returns the canonical
// observation. Replaying an ops file re-executes its input fields.
type Family struct {
	Gen     func(c runCfg, o *Out, emit func(fields ...string))
	NewExec func(c runCfg, o *Out) func(fields []string) string
}

var families = map[string]Family{}

func main() {
	if len(os.Args) < 2 {
		fmt.Fprintln(os.Stderr, "usage: rvh <family> [--seed N] [--tier quick|thorough] [--out DIR] [--replay FILE]")
		os.Exit(2)
	}
	fam := os.Args[1]
	fs := flag.NewFlagSet(fam, flag.ExitOnError)
	seed := fs.String("seed", "1", "PRNG seed")
	tier := fs.String("tier", "quick", "quick|thorough")
	out := fs.String("out", ".", "output directory")
	replay := fs.String("replay", "", "replay an ops file instead of generating")
	name := fs.String("name", "", "output base name (default: family)")
	n := fs.Int("n", 0, "case count override")
	journal := fs.Bool("journal", false, "before every operation write the current trace (since the last reset) to <name>.current: after a crash of the process the file holds the trace that killed it")
	fs.Parse(os.Args[2:])
	sd, _ := strconv.ParseUint(*seed, 10, 64)
	f, ok := families[fam]
	if !ok {
		fmt.Fprintln(os.Stderr, "unknown family", fam)
		os.Exit(2)
	}
	c := runCfg{seed: sd, tier: *tier, out: *out, replay: *replay, n: *n, name: *name}
	if c.name == "" {
		c.name = fam
	}
	o := NewOut(c.out, c.name)
	ex := f.NewExec(c, o)
	// every operation runs under a watchdog: an operation that does not return (deadlock, endless wait)
	// is the observation "HANG…", after which the run stops (the stuck goroutine may hold locks)
	var trace []string
	emit := func(fields ...string) {
		if *journal {
			if (len(fields) > 1 && fields[1] == "reset") || fields[0] == "reset" {
				trace = trace[:0]
			}
			trace = append(trace, strings.Join(fields, "\t"))
			os.WriteFile(c.out+"/"+c.name+".current", []byte(strings.Join(trace, "\n")+"\n"), 0o644)
		}
		res := make(chan string, 1)
		go func() { res <- ex(fields) }()
		select {
		case obs := <-res:
			o.Emit(obs, fields...)
		case <-runningFor(60 * time.Second):
			buf := make([]byte, 1<<16)
			n := runtime.Stack(buf, true)
			dump := c.out + "/" + c.name + ".hang-goroutines.txt"
			os.WriteFile(dump, buf[:n], 0o644)
			o.Count("HANG")
			o.Emit("HANG operation did not return within 60s (goroutine dump: "+dump+")", fields...)
			o.Close(nil)
			os.Exit(0)
		}
	}
	if c.replay != "" {
		fh, err := os.Open(c.replay)
		if err != nil {
			die("replay: %v", err)
		}
		sc := bufio.NewScanner(fh)
		sc.Buffer(make([]byte, 1<<20), 1<<26)
		for sc.Scan() {
			line := sc.Text()
			if line == "" || strings.HasPrefix(line, "#") {
				continue
			}
			if i := strings.Index(line, "\t=>\t"); i >= 0 {
				line = line[:i]
			}
			emit(strings.Split(line, "\t")...)
		}
		fh.Close()
	} else {
		f.Gen(c, o, emit)
	}
	o.Close(nil)
}

// runningFor is time.After measured in time this process was actually scheduled: a tick that arrives late (the
// machine was suspended, snapshotted or starved) counts for at most twice its period. A watchdog built on it
// reports a hang only after the code under test had the whole period to make progress; a real deadlock leaves
// this goroutine ticking, so it is reported after d as before.
func runningFor(d time.Duration) <-chan struct{} {
	ch := make(chan struct{})
	go func() {
		const period = 50 * time.Millisecond
		var ran time.Duration
		last := time.Now()
		for ran < d {
			time.Sleep(period)
			now := time.Now()
			step := now.Sub(last)
			if step > 2*period {
				step = 2 * period
			}
			ran += step
			last = now
		}
		close(ch)
	}()
	return ch
}
