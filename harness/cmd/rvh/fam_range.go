package main

import (
	"encoding/hex"
	"fmt"
	"strconv"
	"strings"

	"reservoir/proxy/headers"
)

func unhx(s string) string {
	if s == "-" {
		return ""
	}
	b, err := hex.DecodeString(s)
	if err != nil {
		die("bad hex field %q", s)
	}
	return string(b)
}

// rangeOutcome runs the real parser + SliceSize under recover.
func rangeOutcome(h string, size int64) (obs string) {
	defer func() {
		if r := recover(); r != nil {
			obs = "panic"
		}
	}()
	st, en, kind := headers.VerifParseRange(h)
	if kind != "ok" {
		return "absent"
	}
	a, b, ok := headers.VerifSliceSize(st, en, size)
	if !ok {
		return "reject"
	}
	return fmt.Sprintf("slice:%d:%d", a, b)
}

func init() {
	families["range"] = Family{
		NewExec: func(c runCfg, o *Out) func([]string) string {
			return func(f []string) string {
				if len(f) != 3 || f[0] != "range" {
					die("range: bad line %v", f)
				}
				size, _ := strconv.ParseInt(f[2], 10, 64)
				obs := rangeOutcome(unhx(f[1]), size)
				cls := obs
				if strings.HasPrefix(obs, "slice") {
					cls = "slice"
				}
				o.Count("outcome:" + cls)
				return obs
			}
		},
		Gen: genRange,
	}
}

var rangeSizes = []int64{0, 1, 2, 10, 1000, 1 << 31, 1 << 62, 9223372036854775807}

func genRange(c runCfg, o *Out, emit func(...string)) {
	r := NewRng(c.seed)
	one := func(class, s string, size int64) {
		o.Count("gen:" + class)
		emit("range", hx(s), strconv.FormatInt(size, 10))
	}
	// 1. bounded-exhaustive tails after "bytes=" over the range-spec alphabet
	alpha := []byte("0159-, =xb\t")
	maxLen := 4
	if c.tier == "thorough" {
		maxLen = 6
	}
	var rec func(prefix []byte, depth int)
	cnt := 0
	rec = func(prefix []byte, depth int) {
		s := "bytes=" + string(prefix)
		one("exhaustive", s, rangeSizes[cnt%4])
		cnt++
		if depth == maxLen {
			return
		}
		for _, ch := range alpha {
			rec(append(prefix[:len(prefix):len(prefix)], ch), depth+1)
		}
	}
	rec(nil, 0)
	// 2. header shapes without / with damaged prefix
	for _, s := range []string{"", "bytes", "bytes=", "=", "==", "bytes==", "bytes=5", "bytes=-", "bytes=--", "Bytes=0-1", "bytes =0-1", "items=0-10", "bytes=0-0", "bytes=0-", "bytes=-0", "bytes=-1", "bytes=5-2", "bytes= 999 - 999 ", "bytes=1 2-5", "bytes=0-9,20-30", "bytes=-1-10", "bytes=-5,", "bytes=-5-", "bytes=\xff-1", "bytes=0-\xc3\xa9", "bytes=٣-5"} {
		for _, sz := range rangeSizes {
			one("shape", s, sz)
		}
	}
	// 3. 64-bit boundary numbers
	big := []string{"9223372036854775806", "9223372036854775807", "9223372036854775808", "18446744073709551615", "18446744073709551616", "18446744073709551617", "18446744073709551620", "18446744073709551621", "99999999999999999999", "100000000000000000000000", "000000000000000000000000000007", "922337203685477580", "922337203685477581", "9223372036854775810"}
	small := []string{"0", "1", "5", "9", "10", "999", "1000"}
	nums := append(append([]string{}, big...), small...)
	for _, a := range nums {
		for _, sz := range rangeSizes {
			one("boundary", "bytes="+a+"-", sz)
			one("boundary", "bytes=-"+a, sz)
		}
		for _, b := range nums {
			sz := rangeSizes[r.Intn(len(rangeSizes))]
			one("boundary", "bytes="+a+"-"+b, sz)
			one("boundary", "bytes="+a+"-"+b, 10)
		}
	}
	// 4. structured random: mostly well-formed, in range of the chosen size
	n := 20000
	if c.tier == "thorough" {
		n = 400000
	}
	if c.n > 0 {
		n = c.n
	}
	for i := 0; i < n; i++ {
		size := rangeSizes[r.Intn(len(rangeSizes))]
		if r.Chance(50) {
			size = int64(r.Intn(3000))
		}
		num := func() string {
			switch r.Intn(6) {
			case 0:
				return strconv.FormatInt(size, 10)
			case 1:
				return strconv.FormatInt(max64(size-1, 0), 10)
			case 2:
				return big[r.Intn(len(big))]
			default:
				if size > 0 {
					return strconv.FormatInt(int64(r.U64()%uint64(size)), 10)
				}
				return strconv.Itoa(r.Intn(5))
			}
		}
		var s string
		switch r.Intn(4) {
		case 0:
			s = "bytes=" + num() + "-" + num()
		case 1:
			s = "bytes=" + num() + "-"
		case 2:
			s = "bytes=-" + num()
		default:
			s = "bytes=" + num() + "-" + num()
		}
		class := "random-wellformed"
		if r.Chance(25) { // malformed stream: mutate one byte position
			b := []byte(s)
			pos := r.Intn(len(b) + 1)
			ins := alpha[r.Intn(len(alpha))]
			switch r.Intn(3) {
			case 0:
				b = append(b[:pos:pos], append([]byte{ins}, b[pos:]...)...)
			case 1:
				if pos < len(b) {
					b = append(b[:pos:pos], b[pos+1:]...)
				}
			default:
				if pos < len(b) {
					b[pos] = ins
				}
			}
			s = string(b)
			class = "random-mutated"
		}
		one(class, s, size)
	}
}

func max64(a, b int64) int64 {
	if a > b {
		return a
	}
	return b
}
