package main

// proxytrace — the real proxy.Proxy (httptest server) between a raw client and a
// scripted origin (httptest server), over plain HTTP or one kept-alive CONNECT
// tunnel. The origin serves versioned, self-describing bodies and logs every
// request it receives; time passes through the cache's VerifShiftClock hook.

import (
	"bufio"
	"context"
	"crypto/ecdsa"
	"crypto/elliptic"
	"crypto/rand"
	"crypto/tls"
	"crypto/x509"
	"crypto/x509/pkix"
	"encoding/pem"
	"fmt"
	"io"
	"math/big"
	"net"
	"net/http"
	"net/http/httptest"
	"net/url"
	"os"
	"regexp"
	"sort"
	"strconv"
	"strings"
	"sync"
	"time"

	"reservoir/cache"
	"reservoir/config"
	"reservoir/metrics"
	"reservoir/proxy"
	"reservoir/proxy/certs"
	"reservoir/utils/bytesize"
	"reservoir/utils/duration"
)

// what the origin answers for one resource
type pxRes struct {
	status   int
	ver      int
	size     int
	etag     string   // "" = none
	lm       string   // http date or "" (any string: may be malformed)
	cc       []string // Cache-Control lines
	expires  string   // "" = none, else the literal header value
	mode     string   // ignore | honor | r416 : what it does with Range
	cond     bool     // answers 304 to a matching If-None-Match / If-Modified-Since
	age      string   // upstream Age header, "" = none
	hdrset   int      // extra response header set (relay tests)
	location string   // for 3xx
}

type pxLog struct {
	line string
}

type pxState struct {
	origin   *httptest.Server
	proxySrv *httptest.Server
	p        *proxy.Proxy
	cfg      *config.Config
	cancel   context.CancelFunc
	mu       sync.Mutex
	res      map[int]*pxRes
	log      []string
	tunnel   net.Conn
	tunnelR  *bufio.Reader
	caPool   *x509.CertPool
	ca       certs.CertAuthority
	dir      string
	base     time.Time
	transport string
	backend  string
	seq      int
	abort2   map[int][3]int // the next N upstream GETs for the resource are cut after k body bytes: {k, remaining, chunked?}
	abort    map[int]int  // one-shot: the next upstream GET for the resource gets only this many body bytes, then the connection is cut
	armed    map[int]bool // one-shot: the next upstream request for the resource finds its entry deleted while the origin answers
}

func pxBodyByte(res, ver, i int) byte { return byte((ver*16+res)*131 + i*7 + (i >> 8) + 3) }

func pxBody(res, ver, size int) []byte {
	b := make([]byte, size)
	for i := range b {
		b[i] = pxBodyByte(res, ver, i)
	}
	return b
}

var pxSimpleRange = regexp.MustCompile(`^bytes=([0-9]{1,9})-([0-9]{1,9})$`)

var pxHdrSets = [][][2]string{
	{},
	{{"Set-Cookie", "a=1"}, {"Set-Cookie", "b=2"}, {"Vary", "Accept"}, {"Vary", "Accept-Encoding"}},
	{{"Connection", "close, X-Hop"}, {"X-Hop", "secret"}, {"X-Keep", "1"}, {"Keep-Alive", "timeout=5"}},
	{{"Link", "<a>; rel=next"}, {"Link", "<b>; rel=prev"}, {"x-lower-case", "v"}, {"Warning", "199 - w1"}, {"Warning", "199 - w2"}},
	{{"Content-Type", "application/x-rv"}, {"Proxy-Authenticate", "Basic"}, {"Trailer", "X-T"}, {"Upgrade", "h2c"}},
	{{"Connection", "X-Hop2, keep-alive"}, {"X-Hop2", "s"}, {"X-Keep", "2"}},
	{{"Connection", "keep-alive"}, {"Connection", "X-Hop3"}, {"X-Hop3", "t"}, {"X-Keep", "3"}}, // nominations on a second Connection line
}

func (s *pxState) originHandler(w http.ResponseWriter, r *http.Request) {
	resID, _ := strconv.Atoi(strings.TrimPrefix(r.URL.Path, "/r"))
	s.mu.Lock()
	rs, ok := s.res[resID]
	var cp pxRes
	if ok {
		cp = *rs
	}
	hop := []string{}
	for _, h := range []string{"Connection", "Proxy-Connection", "Keep-Alive", "Proxy-Authorization", "Te", "Trailer", "Upgrade", "X-Hop-Req"} {
		if _, has := r.Header[h]; has && !(h == "Connection" && strings.EqualFold(r.Header.Get(h), "close")) {
			hop = append(hop, h)
		}
	}
	g := func(h string) string {
		if v, has := r.Header[h]; has {
			return strings.Join(v, ",")
		}
		return "-"
	}
	body, _ := io.ReadAll(r.Body)
	ifrSym := hx0(g("If-Range"))
	if t, err := http.ParseTime(r.Header.Get("If-Range")); err == nil {
		ifrSym = fmt.Sprintf("at:%d", int(t.Sub(s.base)/time.Second))
	}
	imsSym := hx0(g("If-Modified-Since"))
	if t, err := http.ParseTime(r.Header.Get("If-Modified-Since")); err == nil {
		imsSym = fmt.Sprintf("at:%d", int(t.Sub(s.base)/time.Second))
	}
	entry := fmt.Sprintf("%s r%d inm=%s ims=%s im=%s ius=%s range=%s ifrange=%s hop=[%s] x=%s q=%s body=%d", r.Method, resID, hx0(g("If-None-Match")), imsSym, hx0(g("If-Match")), hx0(g("If-Unmodified-Since")), hx0(g("Range")), ifrSym, strings.Join(hop, " "), hx0(g("X-Client")), hx0(r.URL.RawQuery), len(body))
	s.log = append(s.log, entry)
	drop := s.armed[resID]
	delete(s.armed, resID)
	cut, cutArmed := s.abort[resID]
	if cutArmed && r.Method == "GET" {
		delete(s.abort, resID)
	} else {
		cutArmed = false
	}
	chunkedCut := false
	if a2, on := s.abort2[resID]; on && r.Method == "GET" && !cutArmed {
		cut, cutArmed, chunkedCut = a2[0], true, a2[2] == 1
		a2[1]--
		if a2[1] <= 0 {
			delete(s.abort2, resID)
		} else {
			s.abort2[resID] = a2
		}
	}
	s.mu.Unlock()
	if cutArmed && ok && cp.status == 200 {
		// an origin transfer that fails part-way: full headers and Content-Length, a prefix of the body, then EOF
		if hj, can := w.(http.Hijacker); can {
			conn, bw, err := hj.Hijack()
			if err == nil {
				full := pxBody(resID, cp.ver, cp.size)
				if cut > len(full) {
					cut = len(full)
				}
				if chunkedCut {
					// no Content-Length: the body is chunked and the terminating chunk never arrives
					fmt.Fprintf(bw, "HTTP/1.1 200 OK\r\nTransfer-Encoding: chunked\r\nContent-Type: application/x-rv\r\nX-Origin-Ver: %d\r\nCache-Control: max-age=60\r\n\r\n", cp.ver)
					if cut > 0 {
						fmt.Fprintf(bw, "%x\r\n", cut)
						bw.Write(full[:cut])
						bw.WriteString("\r\n")
					}
					bw.Flush()
					conn.Close()
					return
				}
				fmt.Fprintf(bw, "HTTP/1.1 200 OK\r\nContent-Length: %d\r\nContent-Type: application/x-rv\r\nX-Origin-Ver: %d\r\nCache-Control: max-age=60\r\n\r\n", len(full), cp.ver)
				bw.Write(full[:cut])
				bw.Flush()
				conn.Close()
				return
			}
		}
	}
	if drop {
		// the environment (eviction, cleanup, an operator) removes the entry of exactly this request's key
		// while the upstream exchange is in progress
		// (requests read inside a CONNECT tunnel carry no TLS state either: MakeFromRequest sees scheme "http")
		kr := &http.Request{Method: r.Method, Host: r.Host, URL: r.URL}
		s.p.VerifCache().(interface{ Delete(cache.CacheKey) error }).Delete(cache.MakeFromRequest(kr))
	}
	if !ok {
		http.Error(w, "no such resource", 404)
		return
	}
	h := w.Header()
	for _, c := range cp.cc {
		h.Add("Cache-Control", c)
	}
	if cp.expires == "0" {
		h.Set("Expires", "0")
	} else if strings.HasPrefix(cp.expires, "at:") {
		// An HTTP date has one-second resolution. Answer at a moment whose sub-second part is in
		// [0.1, 0.6] so that "Expires = now + off" truncated to seconds lies strictly between off-1 and
		// off seconds from now: the oracle then knows on which side of every whole-second clock shift it falls.
		for {
			f := time.Now().Nanosecond()
			if f >= 100e6 && f <= 600e6 {
				break
			}
			time.Sleep(5 * time.Millisecond)
		}
		off, _ := strconv.Atoi(cp.expires[3:])
		h.Set("Expires", time.Now().Add(time.Duration(off)*time.Second).UTC().Format(http.TimeFormat))
	}
	if cp.etag != "" {
		h.Set("ETag", cp.etag)
	}
	not304Extra := func() {
		// some origins decorate their 304s with header fields of their own: the stored representation keeps the fields
		// it was stored with (Content-Type of the body it has)
		if cp.ver%2 == 0 {
			w.Header().Set("Content-Type", "application/x-other") // (net/http suppresses this one on a 304)
			w.Header().Set("Content-Encoding", "gzip")
			w.Header().Set("X-Keep", "from-the-304")
		}
	}
	if cp.lm != "" {
		h.Set("Last-Modified", cp.lm)
	}
	if cp.age != "" {
		h.Set("Age", cp.age)
	}
	for _, kv := range pxHdrSets[cp.hdrset%len(pxHdrSets)] {
		h.Add(kv[0], kv[1])
	}
	if h.Get("Content-Type") == "" {
		h.Set("Content-Type", "application/x-rv")
	}
	h.Set("X-Origin-Ver", strconv.Itoa(cp.ver))
	if cp.location != "" {
		h.Set("Location", cp.location)
	}
	if cp.cond {
		if inm := r.Header.Get("If-None-Match"); inm != "" && cp.etag != "" && inm == cp.etag {
			not304Extra()
			w.WriteHeader(304)
			return
		}
		sameInstant := func(a, b string) bool {
			ta, ea := http.ParseTime(a)
			tb, eb := http.ParseTime(b)
			return a == b || (ea == nil && eb == nil && ta.Equal(tb))
		}
		if ims := r.Header.Get("If-Modified-Since"); ims != "" && cp.lm != "" && sameInstant(ims, cp.lm) && r.Header.Get("If-None-Match") == "" {
			not304Extra()
			w.WriteHeader(304)
			return
		}
	}
	full := pxBody(resID, cp.ver, cp.size)
	if rg := r.Header.Get("Range"); rg != "" && cp.status == 200 {
		switch cp.mode {
		case "r416":
			// like most servers, the refusal itself carries no caching directives: whether the full
			// response fetched by a retry may be stored must be decided from THAT response's headers
			h.Del("Cache-Control")
			h.Del("Expires")
			h.Set("Content-Range", fmt.Sprintf("bytes */%d", cp.size))
			w.WriteHeader(416)
			return
		case "honor":
			if m := pxSimpleRange.FindStringSubmatch(rg); m != nil {
				a, _ := strconv.Atoi(m[1])
				b, _ := strconv.Atoi(m[2])
				if !(a <= b && b < cp.size) {
					break
				}
				h.Set("Content-Range", fmt.Sprintf("bytes %d-%d/%d", a, b, cp.size))
				h.Set("Content-Length", strconv.Itoa(b-a+1))
				w.WriteHeader(206)
				w.Write(full[a : b+1])
				return
			}
		}
	}
	if r.Method != "HEAD" {
		h.Set("Content-Length", strconv.Itoa(len(full)))
	}
	w.WriteHeader(cp.status)
	if r.Method != "HEAD" && cp.status != 204 && cp.status != 304 {
		w.Write(full)
	}
}

func hx0(s string) string {
	if s == "-" {
		return "-"
	}
	return hx(s)
}

func pxMakeCA(dir string) (certs.CertAuthority, *x509.CertPool) {
	priv, _ := ecdsa.GenerateKey(elliptic.P256(), rand.Reader)
	serial, _ := rand.Int(rand.Reader, new(big.Int).Lsh(big.NewInt(1), 120))
	tpl := x509.Certificate{SerialNumber: serial, Subject: pkix.Name{Organization: []string{"rv-harness-ca"}}, NotBefore: time.Now().Add(-time.Hour), NotAfter: time.Now().Add(24 * time.Hour),
		KeyUsage: x509.KeyUsageCertSign | x509.KeyUsageDigitalSignature, BasicConstraintsValid: true, IsCA: true}
	der, _ := x509.CreateCertificate(rand.Reader, &tpl, &tpl, &priv.PublicKey, priv)
	cf, kf := dir+"/ca.crt", dir+"/ca.key"
	os.WriteFile(cf, pem.EncodeToMemory(&pem.Block{Type: "CERTIFICATE", Bytes: der}), 0o600)
	pk, _ := x509.MarshalPKCS8PrivateKey(priv)
	os.WriteFile(kf, pem.EncodeToMemory(&pem.Block{Type: "PRIVATE KEY", Bytes: pk}), 0o600)
	ca, err := certs.NewPrivateCA(cf, kf)
	if err != nil {
		die("proxytrace: CA: %v", err)
	}
	pool := x509.NewCertPool()
	pool.AppendCertsFromPEM(pem.EncodeToMemory(&pem.Block{Type: "CERTIFICATE", Bytes: der}))
	return ca, pool
}

func (s *pxState) close() {
	if s.tunnel != nil {
		s.tunnel.Close()
		s.tunnel = nil
	}
	if s.proxySrv != nil {
		s.proxySrv.Close()
		s.origin.Close()
		s.p.Destroy()
		s.cancel()
		s.proxySrv = nil
	}
}

func (s *pxState) hooks() cache.VerifHooks { return s.p.VerifCache().(cache.VerifHooks) }

// send one request through the proxy and read the response
func (s *pxState) roundTrip(method string, resID int, hdr [][2]string, query string, body string) (*http.Response, []byte, error) {
	ou, _ := url.Parse(s.origin.URL)
	target := fmt.Sprintf("/r%d", resID)
	if query != "" {
		target += "?" + query
	}
	var conn net.Conn
	var rd *bufio.Reader
	var reqLine string
	if s.transport == "tunnel" {
		if s.tunnel == nil {
			c, err := net.DialTimeout("tcp", strings.TrimPrefix(s.proxySrv.URL, "http://"), 5*time.Second)
			if err != nil {
				return nil, nil, err
			}
			fmt.Fprintf(c, "CONNECT %s HTTP/1.1\r\nHost: %s\r\n\r\n", ou.Host, ou.Host)
			br := bufio.NewReader(c)
			resp, err := http.ReadResponse(br, nil)
			if err != nil || resp.StatusCode != 200 {
				c.Close()
				return nil, nil, fmt.Errorf("CONNECT failed: %v", err)
			}
			host, _, _ := net.SplitHostPort(ou.Host)
			tc := tls.Client(c, &tls.Config{RootCAs: s.caPool, ServerName: host})
			if err := tc.Handshake(); err != nil {
				c.Close()
				return nil, nil, fmt.Errorf("TLS handshake: %v", err)
			}
			s.tunnel = tc
			s.tunnelR = bufio.NewReader(tc)
		}
		conn, rd = s.tunnel, s.tunnelR
		reqLine = fmt.Sprintf("%s %s HTTP/1.1\r\nHost: %s\r\n", method, target, ou.Host)
	} else {
		c, err := net.DialTimeout("tcp", strings.TrimPrefix(s.proxySrv.URL, "http://"), 5*time.Second)
		if err != nil {
			return nil, nil, err
		}
		defer c.Close()
		conn, rd = c, bufio.NewReader(c)
		reqLine = fmt.Sprintf("%s http://%s%s HTTP/1.1\r\nHost: %s\r\n", method, ou.Host, target, ou.Host)
	}
	var sb strings.Builder
	sb.WriteString(reqLine)
	for _, kv := range hdr {
		sb.WriteString(kv[0] + ": " + kv[1] + "\r\n")
	}
	if body != "" {
		sb.WriteString("Content-Length: " + strconv.Itoa(len(body)) + "\r\n")
	}
	sb.WriteString("\r\n" + body)
	conn.SetDeadline(time.Now().Add(10 * time.Second))
	if _, err := io.WriteString(conn, sb.String()); err != nil {
		return nil, nil, err
	}
	resp, err := http.ReadResponse(rd, &http.Request{Method: method})
	if err != nil {
		if s.transport == "tunnel" {
			s.tunnel.Close()
			s.tunnel = nil
		}
		return nil, nil, err
	}
	b, err := io.ReadAll(resp.Body)
	resp.Body.Close()
	if err != nil {
		// an incomplete response: the connection cannot be used again (a client drops it; that the PROXY closes its end
		// is what the rawreq family's tunnel3 op checks)
		if s.transport == "tunnel" && s.tunnel != nil {
			s.tunnel.Close()
			s.tunnel = nil
		}
		return resp, b, err
	}
	return resp, b, nil
}

func (s *pxState) describeBody(resID int, resp *http.Response, b []byte, method string) string {
	if method == "HEAD" || len(b) == 0 {
		return fmt.Sprintf("len%d", len(b))
	}
	// find the version whose bytes these are: the origin stamps X-Origin-Ver, a cached response carries the stored header
	if resp.Header.Get("X-Origin-Ver") == "" {
		return "proxy-page"
	}
	ver, _ := strconv.Atoi(resp.Header.Get("X-Origin-Ver"))
	start := 0
	if cr := resp.Header.Get("Content-Range"); cr != "" {
		fmt.Sscanf(cr, "bytes %d-", &start)
	}
	for i := range b {
		if b[i] != pxBodyByte(resID, ver, start+i) {
			return fmt.Sprintf("v%d:%d:%d:CORRUPT@%d", ver, start, len(b), i)
		}
	}
	return fmt.Sprintf("v%d:%d:%d:ok", ver, start, len(b))
}

func canonHeaders(h http.Header, names []string) string {
	out := []string{}
	for _, n := range names {
		if vs, ok := h[http.CanonicalHeaderKey(n)]; ok {
			out = append(out, n+"="+hx(strings.Join(vs, "\x1f")))
		}
	}
	return strings.Join(out, ",")
}

func init() {
	families["proxytrace"] = Family{
		NewExec: func(c runCfg, o *Out) func([]string) string {
			quietLogs()
			s := &pxState{}
			base, _ := os.MkdirTemp(c.out, "px-")
			ca, pool := pxMakeCA(base)
			s.ca, s.caPool = ca, pool
			return func(f []string) (obs string) {
				defer func() {
					if r := recover(); r != nil {
						obs = fmt.Sprintf("panic(%v)", r)
					}
				}()
				if f[0] != "px" {
					die("proxytrace: bad line %v", f)
				}
				o.Count("op:" + f[1])
				switch f[1] {
				case "reset": // backend transport ignoreCC force dfltSec retryInvalid retry416 limit
					s.close()
					s.seq++
					s.backend, s.transport = f[2], f[3]
					metrics.Global = metrics.NewMetrics()
					cfg := config.NewDefault()
					b := func(x string) bool { return x == "1" }
					dflt, _ := strconv.Atoi(f[6])
					// "limit" or "limit/shards": a small limit with few shards puts the cache under pressure
					// (full-cache stores, store-triggered evictions that cannot free the caller's own shard)
					lf := strings.SplitN(f[9], "/", 3)
					limit, _ := strconv.ParseInt(lf[0], 10, 64)
					shards := 8
					if len(lf) == 2 {
						shards, _ = strconv.Atoi(lf[1])
						o.Count("pressure")
					}
					cfg.Proxy.UpstreamDefaultHttps.Overwrite(false)
					cfg.Proxy.CachePolicy.IgnoreCacheControl.Overwrite(b(f[4]))
					cfg.Proxy.CachePolicy.ForceDefaultMaxAge.Overwrite(b(f[5]))
					cfg.Proxy.CachePolicy.DefaultMaxAge.Overwrite(duration.Duration(time.Duration(dflt) * time.Second))
					cfg.Proxy.RetryOnInvalidRange.Overwrite(b(f[7]))
					cfg.Proxy.RetryOnRange416.Overwrite(b(f[8]))
					cfg.Cache.MaxCacheSize.Overwrite(bytesize.ByteSize(limit))
					cfg.Cache.CleanupInterval.Overwrite(duration.Duration(time.Hour))
					cfg.Cache.LockShards.Overwrite(shards)
					if len(lf) == 3 {
						// "limit/shards/budget": the memory budget percentage (0 = the memory cache may hold nothing: every store is
						// refused and every request is answered by a direct fetch)
						bp, _ := strconv.Atoi(lf[2])
						cfg.Cache.Memory.MemoryBudgetPercent.Overwrite(bp)
						o.Count("budget:" + lf[2])
					}
					s.dir = fmt.Sprintf("%s/c%d", base, s.seq%4)
					cfg.Cache.File.Dir.Overwrite(s.dir)
					if s.backend == "file" {
						cfg.Cache.Type.Overwrite(config.CacheTypeFile)
					} else {
						cfg.Cache.Type.Overwrite(config.CacheTypeMemory)
					}
					s.cfg = cfg
					ctx, cancel := context.WithCancel(context.Background())
					s.cancel = cancel
					p, err := proxy.NewProxy(cfg, s.ca, ctx)
					if err != nil {
						die("proxytrace: NewProxy: %v", err)
					}
					s.p = p
					s.res = map[int]*pxRes{}
					s.armed = map[int]bool{}
					s.abort = map[int]int{}
					s.abort2 = map[int][3]int{}
					s.log = nil
					s.origin = httptest.NewServer(http.HandlerFunc(s.originHandler))
					s.proxySrv = httptest.NewServer(p)
					s.base = time.Now().Truncate(time.Second)
					o.Count("backend:" + s.backend)
					o.Count("transport:" + s.transport)
					return "ok"
				case "origin": // res k=v;k=v
					id, _ := strconv.Atoi(f[2])
					rs := &pxRes{status: 200, mode: "ignore", cond: true}
					for _, kv := range strings.Split(f[3], ";") {
						p := strings.SplitN(kv, "=", 2)
						if len(p) != 2 {
							continue
						}
						switch p[0] {
						case "status":
							rs.status, _ = strconv.Atoi(p[1])
						case "ver":
							rs.ver, _ = strconv.Atoi(p[1])
						case "size":
							rs.size, _ = strconv.Atoi(p[1])
						case "etag":
							rs.etag = unhx(p[1])
						case "lm": // seconds relative to the trace base, or a literal (hex) when prefixed with "x"
							if strings.HasPrefix(p[1], "x") {
								rs.lm = unhx(p[1][1:])
							} else {
								// "<sec>" IMF-fixdate; "<sec>@850" / "<sec>@asc": the two obsolete but legal HTTP-date forms
								spec := strings.SplitN(p[1], "@", 2)
								off, _ := strconv.Atoi(spec[0])
								layout := http.TimeFormat
								if len(spec) == 2 && spec[1] == "850" {
									layout = "Monday, 02-Jan-06 15:04:05 GMT"
								} else if len(spec) == 2 && spec[1] == "asc" {
									layout = time.ANSIC
								}
								rs.lm = s.base.Add(time.Duration(off) * time.Second).UTC().Format(layout)
							}
						case "cc":
							for _, l := range strings.Split(p[1], "|") {
								rs.cc = append(rs.cc, unhx(l))
							}
						case "expires":
							switch {
							case p[1] == "bad":
								rs.expires = "0"
							case strings.HasPrefix(p[1], "at:"):
								rs.expires = p[1]
							}
						case "mode":
							rs.mode = p[1]
						case "cond":
							rs.cond = p[1] == "1"
						case "age":
							rs.age = p[1]
						case "hdrset":
							rs.hdrset, _ = strconv.Atoi(p[1])
						case "location":
							rs.location = unhx(p[1])
						}
					}
					s.mu.Lock()
					s.res[id] = rs
					s.mu.Unlock()
					return "ok"
				case "req": // res method range ifrange cond hdrset query body
					id, _ := strconv.Atoi(f[2])
					method := f[3]
					var hdr [][2]string
					if f[4] != "-" {
						hdr = append(hdr, [2]string{"Range", unhx(f[4])})
					}
					if f[5] != "-" {
						v := f[5]
						if strings.HasPrefix(v, "lm:") { // the resource's current Last-Modified shifted by n seconds
							off, _ := strconv.Atoi(v[3:])
							s.mu.Lock()
							cur := ""
							if r := s.res[id]; r != nil {
								cur = r.lm
							}
							s.mu.Unlock()
							if t, err := http.ParseTime(cur); err == nil {
								hdr = append(hdr, [2]string{"If-Range", t.Add(time.Duration(off) * time.Second).UTC().Format(http.TimeFormat)})
							}
						} else if v == "empty" || v == "blank" { // an If-Range field with no value / only white space
							hdr = append(hdr, [2]string{"If-Range", map[string]string{"empty": "", "blank": "  "}[v]})
						} else if strings.HasPrefix(v, "dt:") { // an HTTP date n seconds from the trace base, whatever the resource has
							off, _ := strconv.Atoi(v[3:])
							hdr = append(hdr, [2]string{"If-Range", s.base.Add(time.Duration(off) * time.Second).UTC().Format(http.TimeFormat)})
						} else {
							hdr = append(hdr, [2]string{"If-Range", unhx(v)})
						}
					}
					if f[6] != "-" {
						for _, cnd := range strings.Split(f[6], ";") {
							p := strings.SplitN(cnd, ":", 2)
							name := map[string]string{"inm": "If-None-Match", "ims": "If-Modified-Since", "im": "If-Match", "ius": "If-Unmodified-Since"}[p[0]]
							hdr = append(hdr, [2]string{name, unhx(p[1])})
						}
					}
					switch f[7] {
					case "1":
						hdr = append(hdr, [2]string{"X-Client", "c1"}, [2]string{"Connection", "X-Hop-Req"}, [2]string{"X-Hop-Req", "h"})
					case "3":
						hdr = append(hdr, [2]string{"X-Client", "c4"}, [2]string{"Connection", "keep-alive"}, [2]string{"Connection", "X-Hop-Req"}, [2]string{"X-Hop-Req", "h"})
					case "2":
						hdr = append(hdr, [2]string{"X-Client", "c2"}, [2]string{"X-Client", "c3"}, [2]string{"Proxy-Authorization", "Basic x"}, [2]string{"TE", "trailers"})
					}
					query := ""
					if f[8] != "-" {
						query = unhx(f[8])
					}
					body := ""
					if f[9] != "-" {
						body = unhx(f[9])
					}
					s.mu.Lock()
					s.log = nil
					s.mu.Unlock()
					resp, b, err := s.roundTrip(method, id, hdr, query, body)
					s.mu.Lock()
					up := strings.Join(s.log, " ; ")
					s.mu.Unlock()
					if err != nil && resp == nil {
						o.Count("req:noresponse")
						return fmt.Sprintf("NORESPONSE(%v) up=[%s]", errClass(err), up)
					}
					g := func(n string) string {
						if v, ok := resp.Header[http.CanonicalHeaderKey(n)]; ok {
							return hx(strings.Join(v, "\x1f"))
						}
						return "-"
					}
					cs := resp.Header.Get("Cache-Status")
					if i := strings.Index(cs, "; ttl="); i >= 0 {
						cs = cs[:i] // ttl is compared by the C03 real-time family, not here (sub-second rounding)
					}
					o.Count("status:" + strconv.Itoa(resp.StatusCode))
					xc := resp.Header.Get("X-Cache")
					if xc != "" {
						o.Count("xcache:" + xc)
					} else {
						xc = "-"
					}
					plain := func(n string) string {
						if v, ok := resp.Header[http.CanonicalHeaderKey(n)]; ok {
							return strings.ReplaceAll(strings.Join(v, "\x1f"), " ", "_")
						}
						return "-"
					}
					lmSym := g("Last-Modified")
					if t, err := http.ParseTime(resp.Header.Get("Last-Modified")); err == nil {
						lmSym = fmt.Sprintf("at:%d", int(t.Sub(s.base)/time.Second))
					}
					cl := plain("Content-Length")
					if method == "HEAD" || resp.Header.Get("X-Origin-Ver") == "" || len(b) == 0 {
						cl = "*" // HEAD answers and pages written by the proxy itself: framing is net/http's business
					}
					trunc := ""
					if err != nil {
						trunc = " bodyerr=" + errClass(err)
					}
					return fmt.Sprintf("st=%d xc=%s cs=%s age=%s body=%s cl=%s cr=%s etag=%s lm=%s ar=%s h=%s%s up=[%s]", resp.StatusCode, xc, hx0Empty(cs), plain("Age"),
						s.describeBody(id, resp, b, method), cl, plain("Content-Range"), g("ETag"), lmSym, plain("Accept-Ranges"),
						canonHeaders(resp.Header, []string{"Set-Cookie", "Vary", "Link", "Warning", "X-Keep", "X-Hop", "X-Hop2", "X-Hop3", "X-Lower-Case", "Keep-Alive", "Proxy-Authenticate", "Trailer", "Upgrade", "Content-Type", "Location", "Via", "Content-Encoding"}), trunc, up)
				case "shift":
					ms, _ := strconv.ParseInt(f[2], 10, 64)
					s.hooks().VerifShiftClock(time.Duration(ms) * time.Millisecond)
					return "shifted"
				case "abort": // id k : the next upstream GET for resource id is answered with k body bytes and a cut connection
					id, _ := strconv.Atoi(f[2])
					k, _ := strconv.Atoi(f[3])
					o.Count("op:abort")
					s.mu.Lock()
					if s.abort == nil {
						s.abort = map[int]int{}
					}
					s.abort[id] = k
					s.mu.Unlock()
					return "armed"
				case "setpolicy": // ignoreCC force dfltSec : the cache policy changes on the RUNNING proxy (an accepted config update)
					b := func(x string) bool { return x == "1" }
					dflt, _ := strconv.Atoi(f[4])
					s.cfg.Proxy.CachePolicy.IgnoreCacheControl.Overwrite(b(f[2]))
					s.cfg.Proxy.CachePolicy.ForceDefaultMaxAge.Overwrite(b(f[3]))
					s.cfg.Proxy.CachePolicy.DefaultMaxAge.Overwrite(duration.Duration(time.Duration(dflt) * time.Second))
					// listeners (if any component subscribes) are notified asynchronously: give them a moment
					time.Sleep(2 * time.Millisecond)
					o.Count("op:setpolicy")
					return "policy-set"
				case "setbudget": // pct : the memory budget changes on the RUNNING proxy (0 = from now on nothing may be stored)
					pct, _ := strconv.Atoi(f[2])
					s.cfg.Cache.Memory.MemoryBudgetPercent.Overwrite(pct)
					time.Sleep(3 * time.Millisecond) // the cache's listener runs asynchronously
					o.Count("op:setbudget")
					return "budget-set"
				case "abort2": // id k chunked(0|1) : EVERY upstream GET of the next exchange (the shared fetch and the direct fallback) is cut after k bytes
					id, _ := strconv.Atoi(f[2])
					k, _ := strconv.Atoi(f[3])
					ch, _ := strconv.Atoi(f[4])
					o.Count("op:abort2")
					s.mu.Lock()
					if s.abort2 == nil {
						s.abort2 = map[int][3]int{}
					}
					s.abort2[id] = [3]int{k, 2, ch}
					s.mu.Unlock()
					return "armed"
				case "arm": // the next upstream request for resource id finds its entry deleted mid-exchange
					id, _ := strconv.Atoi(f[2])
					s.mu.Lock()
					if s.armed == nil {
						s.armed = map[int]bool{}
					}
					s.armed[id] = true
					s.mu.Unlock()
					return "armed"
				case "tunnelclose":
					if s.tunnel != nil {
						s.tunnel.Close()
						s.tunnel = nil
					}
					return "closed"
				case "snap":
					sn := s.hooks().VerifSnapshot()
					sizes := []string{}
					for _, v := range sn.Entries {
						sizes = append(sizes, strconv.FormatInt(v, 10))
					}
					sort.Strings(sizes)
					return fmt.Sprintf("entries=%d sizes=[%s] bs=%d", len(sn.Entries), strings.Join(sizes, " "), sn.ByteSize)
				}
				die("proxytrace: unknown op %v", f)
				return ""
			}
		},
		Gen: genProxyTrace,
	}
}

func hx0Empty(s string) string {
	if s == "" {
		return "-"
	}
	return hx(s)
}

func errClass(err error) string {
	e := err.Error()
	switch {
	case strings.Contains(e, "EOF"):
		return "eof"
	case strings.Contains(e, "timeout"):
		return "timeout"
	case strings.Contains(e, "reset"):
		return "reset"
	}
	return "other"
}

func genProxyTrace(c runCfg, o *Out, emit func(...string)) {
	r := NewRng(c.seed)
	n := 150
	if c.tier == "thorough" {
		n = 3000
	}
	if c.n > 0 {
		n = c.n
	}
	itoa := strconv.Itoa
	b01 := func(p int) string {
		if r.Chance(p) {
			return "1"
		}
		return "0"
	}
	ccChoices := [][]string{{"max-age=60"}, {"max-age=60"}, {"max-age=2"}, {"MAX-AGE=30"}, {"no-store"}, {"private, max-age=60"}, {"no-cache"}, {"max-age=0"}, {"public"}, {}, {},
		{"max-age=60", "no-store"}, {"max-age=abc"}, {"max-age=9223372037"}, {"public, max-age=10, must-revalidate"}}
	ver := 0
	for t := 0; t < n; t++ {
		backend := "mem"
		if r.Chance(40) {
			backend = "file"
		}
		transport := "plain"
		if r.Chance(35) {
			transport = "tunnel"
		}
		dflt := []int{5, 30, 120}[r.Intn(3)]
		limit := "1000000"
		if r.Chance(12) {
			// cache under pressure: the model cannot know which stores succeed and what gets evicted; in these traces
			// only the cache-independent predicates are judged (a complete answer, never the proxy's own error, no crash)
			limit = []string{"1500/1", "800/1", "2500/2", "300/1", "1000000/4/0", "1000000/7/0"}[r.Intn(6)]
		}
		emit("px", "reset", backend, transport, b01(25), b01(25), itoa(dflt), b01(30), b01(50), limit)
		lastEtag := map[int]string{}
		nres := 1 + r.Intn(2)
		if limit != "1000000" {
			nres = 3
		}
		setOrigin := func(id int) {
			ver++
			fields := []string{"ver=" + itoa(ver), "size=" + itoa([]int{0, 1, 10, 100, 777, 2000}[r.Intn(6)])}
			st := 200
			if r.Chance(15) {
				st = []int{201, 204, 301, 302, 404, 500, 503}[r.Intn(7)]
			}
			fields = append(fields, "status="+itoa(st))
			if st == 301 || st == 302 {
				fields = append(fields, "location="+hx("/r"+itoa(id)+"?moved"))
			}
			cc := ccChoices[r.Intn(len(ccChoices))]
			if len(cc) > 0 {
				ls := []string{}
				for _, l := range cc {
					ls = append(ls, hx(l))
				}
				fields = append(fields, "cc="+strings.Join(ls, "|"))
			}
			switch r.Intn(8) {
			case 0:
				fields = append(fields, "expires=bad")
			case 1:
				fields = append(fields, "expires=at:"+itoa([]int{-3600, -10, 20, 3600}[r.Intn(4)]))
			}
			if prev, had := lastEtag[id]; had && r.Chance(25) {
				// the content changed but the origin re-uses the entity tag (weak revision tags, sloppy origins) and
				// ignores conditionals: the 200 it sends must still replace what is stored
				fields = append(fields, "etag="+prev, "cond=0")
				emit("px", "origin", itoa(id), strings.Join(append(fields, "mode=ignore"), ";"))
				return
			}
			switch r.Intn(5) {
			case 0:
				fields = append(fields, "etag="+hx(fmt.Sprintf("\"e%d\"", ver)))
			case 1:
				fields = append(fields, "lm="+itoa(-1000*ver)+[]string{"", "", "@850", "@asc"}[r.Intn(4)])
			case 2:
				fields = append(fields, "etag="+hx(fmt.Sprintf("W/\"w%d\"", ver)), "lm="+itoa(-500*ver))
			case 3:
				fields = append(fields, "lm=x"+hx("not a date"))
			}
			fields = append(fields, "mode="+[]string{"ignore", "ignore", "honor", "r416"}[r.Intn(4)])
			if r.Chance(15) {
				fields = append(fields, "cond=0")
			}
			if r.Chance(15) {
				fields = append(fields, "age="+itoa(r.Intn(50)))
			}
			if r.Chance(35) {
				fields = append(fields, "hdrset="+itoa(1+r.Intn(6)))
			}
			for _, fl := range fields {
				if strings.HasPrefix(fl, "etag=") {
					lastEtag[id] = fl[5:]
				}
			}
			emit("px", "origin", itoa(id), strings.Join(fields, ";"))
		}
		for id := 0; id < nres; id++ {
			setOrigin(id)
		}
		nops := 4 + r.Intn(10)
		for i := 0; i < nops; i++ {
			id := r.Intn(nres)
			switch x := r.Intn(100); {
			case x >= 76 && x < 84 && limit != "1000000" && backend == "mem":
				// under cache pressure the operator takes the memory budget away (and gives it back): requests keep being answered
				// (one resource is stored first, so that the store attempted after the budget is gone finds the cache non-empty)
				other := (id + 1) % nres
				emit("px", "setbudget", "50")
				ver++
				emit("px", "origin", itoa(other), fmt.Sprintf("ver=%d;size=100;status=200;mode=ignore", ver))
				emit("px", "req", itoa(other), "GET", "-", "-", "-", "0", "-", "-")
				emit("px", "setbudget", itoa([]int{0, 0, 50}[r.Intn(3)]))
				ver++
				emit("px", "origin", itoa(id), fmt.Sprintf("ver=%d;size=100;status=200;mode=ignore", ver))
				emit("px", "req", itoa(id), "GET", "-", "-", "-", "0", "-", "-")
				emit("px", "req", itoa(other), "GET", "-", "-", "-", "0", "-", "-")
			case x >= 84 && x < 86 && limit == "1000000":
				// the operator changes the cache policy at run time: the following exchanges are judged by the NEW policy
				emit("px", "setpolicy", itoa(r.Intn(2)), itoa(r.Intn(2)), itoa([]int{5, 30, 120}[r.Intn(3)]))
				setOrigin(id)
				emit("px", "req", itoa(id), "GET", "-", "-", "-", "0", "-", "-")
				emit("px", "req", itoa(id), "GET", "-", "-", "-", "0", "-", "-")
			case x < 62:
				method := "GET"
				if r.Chance(12) {
					method = []string{"HEAD", "POST", "PUT", "DELETE", "OPTIONS"}[r.Intn(5)]
				}
				rng, ifr, cond, hs, q, body := "-", "-", "-", "0", "-", "-"
				if method == "GET" && r.Chance(30) {
					rng = hx([]string{"bytes=0-9", "bytes=5-", "bytes=-7", "bytes=0-0", "bytes=90-120", "bytes=5000-6000", "bytes=9-3", "bytes=0-4,9-12", "bytes=", "bytes=5", "bytes=18446744073709551616-18446744073709551620", "items=0-5"}[r.Intn(12)])
					if r.Chance(30) {
						ifr = []string{hx(fmt.Sprintf("\"e%d\"", ver)), hx("\"other\""), "lm:0", "lm:-100", "lm:100", hx("garbage"), "dt:0", "dt:-100000", "dt:5000"}[r.Intn(9)]
					}
				}
				if r.Chance(20) {
					cond = []string{"inm:" + hx("\"x\""), "ims:" + hx("Mon, 02 Jan 2006 15:04:05 GMT"), "ims:" + hx("garbage"), "ius:" + hx("yesterday"), "im:" + hx("*"), "inm:" + hx(fmt.Sprintf("\"e%d\"", ver))}[r.Intn(6)]
				}
				if r.Chance(25) {
					hs = itoa(1 + r.Intn(3))
				}
				if r.Chance(10) {
					q = hx([]string{"a=1", "b|c", "x=%7C"}[r.Intn(3)])
				}
				if method == "POST" || method == "PUT" {
					body = hx(strings.Repeat("p", 1+r.Intn(40)))
				}
				emit("px", "req", itoa(id), method, rng, ifr, cond, hs, q, body)
			case x < 67:
				emit("px", "arm", itoa(id))
				if r.Chance(60) {
					// make the armed exchange likely to be a revalidation of a stale entry
					emit("px", "shift", "130000")
					emit("px", "req", itoa(id), "GET", "-", "-", "-", "0", "-", "-")
				}
			case x < 68:
				// an origin transfer that fails part-way, then the same resource again (twice): nothing truncated may be
				// delivered as complete or come back from the store
				if r.Chance(40) {
					// the transfer fails for the shared fetch AND for the fallback: the client cannot get the whole body, and must
					// be able to tell (a cut connection / an error status), never a well-formed 200 with a shortened body
					emit("px", "abort2", itoa(id), itoa([]int{1, 100, 776}[r.Intn(3)]), itoa(r.Intn(2)))
					emit("px", "req", itoa(id), "GET", "-", "-", "-", "0", "-", "-")
					emit("px", "req", itoa(id), "GET", "-", "-", "-", "0", "-", "-")
					break
				}
				emit("px", "abort", itoa(id), itoa([]int{0, 1, 100, 776, 5000}[r.Intn(5)]))
				emit("px", "req", itoa(id), "GET", "-", "-", "-", "0", "-", "-")
				emit("px", "req", itoa(id), "GET", "-", "-", "-", "0", "-", "-")
				if r.Chance(50) {
					emit("px", "req", itoa(id), "GET", hx("bytes=0-9"), "-", "-", "0", "-", "-")
				}
			case x < 70:
				// a Range request with every form of If-Range against whatever is (or is not) stored: entity tag that
				// matches / differs, date relative to the resource's Last-Modified, date when the resource has none
				emit("px", "req", itoa(id), "GET", "-", "-", "-", "0", "-", "-")
				for k := 0; k < 2+r.Intn(3); k++ {
					ifr := []string{hx(fmt.Sprintf("\"e%d\"", ver)), hx("\"other\""), "lm:0", "lm:-100", "lm:100", hx("garbage"), "dt:0", "dt:-100000", "dt:5000", "-", "empty", "blank"}[r.Intn(12)]
					rg := hx([]string{"bytes=0-9", "bytes=5-", "bytes=-7", "bytes=0-0", "bytes=2-5"}[r.Intn(5)])
					// the same request three times: whatever the proxy decides must not depend on the (random) order in which
					// Go iterates the request's header map
					for rep := 0; rep < 3; rep++ {
						emit("px", "req", itoa(id), "GET", rg, ifr, "-", "0", "-", "-")
					}
				}
			case x < 74:
				// a revalidation long after expiry, then the same request again: the renewed lifetime counts from the revalidation
				emit("px", "shift", itoa(1000*[]int{61, 130, 130, 400}[r.Intn(4)]))
				emit("px", "req", itoa(id), "GET", "-", "-", "-", "0", "-", "-")
				emit("px", "req", itoa(id), "GET", "-", "-", "-", "0", "-", "-")
				if r.Chance(50) {
					emit("px", "shift", itoa(1000*[]int{4, 6, 29, 31, 119, 121}[r.Intn(6)]))
					emit("px", "req", itoa(id), "GET", "-", "-", "-", "0", "-", "-")
				}
			case x < 86:
				emit("px", "shift", itoa(1000*[]int{1, 1, 3, 4, 6, 29, 31, 59, 61, 130}[r.Intn(10)]))
			case x < 94:
				setOrigin(id)
			case x < 97 && transport == "tunnel":
				emit("px", "tunnelclose")
			default:
				emit("px", "snap")
			}
		}
	}
}
