package main

// wire — C10 at the byte level: what the real proxy/responder.RawHTTPResponder puts on a tunnel for ONE response
// (framing decision, whether the write completed - Failed() -, and the bytes), compared with Rv.Model.Wire.frame.
//   wire <status> <head 0|1> <content-length | -> <fails 0|1> <hex body | ->
//   => <none | length:n | chunked | close> <complete 0|1> <hex of the bytes, reason phrase rewritten to X>

import (
	"bytes"
	"errors"
	"fmt"
	"io"
	"net/http"
	"regexp"
	"strconv"
	"strings"

	"reservoir/proxy/responder"
)

type wireSrc struct {
	data  []byte
	fails bool
}

func (s *wireSrc) Read(p []byte) (int, error) {
	if len(s.data) == 0 {
		if s.fails {
			return 0, errors.New("origin transfer failed")
		}
		return 0, io.EOF
	}
	n := copy(p, s.data)
	s.data = s.data[n:]
	return n, nil
}

var wireReason = regexp.MustCompile(`^(HTTP/1\.[01] \d+) [^\r]*\r\n`)

func init() {
	families["wire"] = Family{
		NewExec: func(c runCfg, o *Out) func([]string) string {
			return func(f []string) (obs string) {
				defer func() {
					if r := recover(); r != nil {
						obs = fmt.Sprintf("panic(%v)", r)
					}
				}()
				if f[0] != "wire" || len(f) < 6 {
					die("wire: bad line %v", f)
				}
				status, _ := strconv.Atoi(f[1])
				body := []byte(unhx(f[5]))
				var buf bytes.Buffer
				r := responder.NewRawHTTPResponder(&buf)
				method := "GET"
				if f[2] == "1" || f[2] == "3" {
					method = "HEAD"
				}
				req, _ := http.NewRequest(method, "http://x/", nil)
				if f[2] == "2" || f[2] == "3" {
					// an HTTP/1.0 request on a kept-alive tunnel: the answer must be framed exactly like any other
					req.Proto, req.ProtoMajor, req.ProtoMinor = "HTTP/1.0", 1, 0
				}
				r.ForRequest(req)
				if f[3] != "-" {
					r.SetHeader("Content-Length", f[3])
				}
				r.Write(status, &wireSrc{data: body, fails: f[4] == "1"})
				out := wireReason.ReplaceAll(buf.Bytes(), []byte("$1 X\r\n"))
				if bytes.HasPrefix(out, []byte("HTTP/1.0 ")) {
					o.Count("status-line:http/1.0")
				}
				kind := "none"
				hs := string(out)
				if i := strings.Index(hs, "\r\n\r\n"); i >= 0 {
					hs = hs[:i+2]
				}
				switch {
				case strings.Contains(hs, "Transfer-Encoding: chunked\r\n"):
					kind = "chunked"
				case strings.Contains(hs, "Connection: close\r\n"):
					kind = "close"
				case strings.Contains(hs, "Content-Length: "):
					j := strings.Index(hs, "Content-Length: ") + len("Content-Length: ")
					kind = "length:" + hs[j:j+strings.Index(hs[j:], "\r\n")]
				}
				cpl := "1"
				if r.Failed() {
					cpl = "0"
				}
				o.Count("framing:" + strings.SplitN(kind, ":", 2)[0])
				o.Count("complete:" + cpl)
				return kind + " " + cpl + " " + hx(string(out))
			}
		},
		Gen: func(c runCfg, o *Out, emit func(...string)) {
			r := NewRng(c.seed)
			statuses := []int{100, 101, 200, 204, 206, 301, 304, 404, 416, 500, 502}
			bodies := []string{"", "a", "ab", "hello world", "HTTP/1.1 200 OK\r\nContent-Length: 3\r\n\r\nabc", "0\r\n\r\n", strings.Repeat("x", 26), strings.Repeat("y", 300), "5\r\nhello\r\n0\r\n\r\n"}
			lens := []string{"-", "0", "1", "2", "3", "11", "26", "300", "1000"}
			// bounded-exhaustive core
			for _, st := range statuses {
				for _, hd := range []string{"0", "1", "2"} {
					for _, cl := range lens {
						for _, fl := range []string{"0", "1"} {
							for _, b := range bodies[:5] {
								emit("wire", strconv.Itoa(st), hd, cl, fl, hx(b))
							}
						}
					}
				}
			}
			n := 600
			if c.tier == "thorough" {
				n = 20000
			}
			if c.n > 0 {
				n = c.n
			}
			for i := 0; i < n; i++ {
				b := bodies[r.Intn(len(bodies))]
				if r.Chance(40) {
					b = strings.Repeat(string(rune('a'+r.Intn(26))), r.Intn(70))
				}
				cl := "-"
				switch r.Intn(4) {
				case 0:
					cl = strconv.Itoa(len(b)) // the usual case: announced length = body length
				case 1:
					cl = strconv.Itoa(r.Intn(len(b) + 3))
				case 2:
					cl = lens[r.Intn(len(lens))]
				}
				fl := "0"
				if r.Chance(20) {
					fl = "1"
				}
				hd := "0"
				if r.Chance(15) {
					hd = "1"
				}
				if r.Chance(20) {
					hd = map[string]string{"0": "2", "1": "3"}[hd]
				}
				emit("wire", strconv.Itoa(statuses[r.Intn(len(statuses))]), hd, cl, fl, hx(b))
			}
		},
	}
}
