package main

// auth — the real dashboard API (api.New(cfg).RegisterHandlers on a ServeMux)
// behind the real middleware.Harden, driven in-process through httptest
// recorders in a scratch working directory with a migrated SQLite database.

import (
	"context"
	"encoding/base64"
	"fmt"
	"net/http"
	"net/http/httptest"
	"os"
	"strconv"
	"strings"
	"time"

	"golang.org/x/crypto/argon2"

	"reservoir/config"
	"reservoir/db"
	"reservoir/db/models"
	"reservoir/db/stores"
	"reservoir/utils/phc"
	"reservoir/webserver/api"
	"reservoir/webserver/auth"
	"reservoir/webserver/middleware"
)

type auState struct {
	h        http.Handler
	cookies  []string // k-th successful login's cookie value
	cfg      *config.Config
	patterns []string
	pwDirty  bool
}

func cheapHash(pw string) string {
	salt := []byte("0123456789abcdef")
	h := argon2.IDKey([]byte(pw), salt, 1, 8, 1, 16)
	return fmt.Sprintf("$argon2id$v=19$m=8,t=1,p=1,l=16$%s$%s", base64.RawStdEncoding.EncodeToString(salt), base64.RawStdEncoding.EncodeToString(h))
}

func init() {
	families["auth"] = Family{
		NewExec: func(c runCfg, o *Out) func([]string) string {
			quietLogs()
			s := &auState{}
			wd, _ := os.Getwd()
			scratch, _ := os.MkdirTemp(wd, "auth-")
			os.Chdir(scratch)
			os.MkdirAll("var", 0o755)
			if err := db.MigrateDatabases(); err != nil {
				die("auth: migrate: %v", err)
			}
			us, err := stores.OpenUserStore()
			if err != nil {
				die("auth: user store: %v", err)
			}
			for name, pw := range map[string]string{"alice": "pw-alice", "bob": "pw-bob"} {
				p, err := phc.ParsePHC(cheapHash(pw))
				if err != nil {
					die("auth: phc: %v", err)
				}
				if err := us.Save(&models.User{Username: name, PasswordHash: *p}); err != nil {
					die("auth: save user: %v", err)
				}
			}
			us.Close()
			s.cfg = config.NewDefault()
			mux := http.NewServeMux()
			if err := api.New(s.cfg).RegisterHandlers(mux); err != nil {
				die("auth: register: %v", err)
			}
			s.h = middleware.Harden(mux)
			cookieOf := func(ref string) (string, bool) {
				switch {
				case ref == "none":
					return "", false
				case ref == "random":
					return "ZZZZNOTASESSIONZZZZZZZZZZZ", true
				case strings.HasPrefix(ref, "s"):
					k, _ := strconv.Atoi(ref[1:])
					if k < len(s.cookies) {
						return s.cookies[k], true
					}
					return "NEVERISSUED" + ref, true
				}
				return "", false
			}
			do := func(method, path, ref, origin, site, body string) *httptest.ResponseRecorder {
				ctx, cancel := context.WithTimeout(context.Background(), 150*time.Millisecond)
				defer cancel()
				req := httptest.NewRequest(method, path, strings.NewReader(body)).WithContext(ctx)
				if body != "" {
					req.Header.Set("Content-Type", "application/json")
				}
				if v, ok := cookieOf(ref); ok {
					req.AddCookie(&http.Cookie{Name: "reservoir.sid", Value: v})
				}
				if origin != "-" {
					req.Header.Set("Origin", origin)
				}
				if site != "-" {
					req.Header.Set("Sec-Fetch-Site", site)
				}
				rec := httptest.NewRecorder()
				func() {
					// a handler that panics was reached (net/http would recover and drop the connection);
					// what the endpoint does once reached is outside C20
					defer func() {
						if r := recover(); r != nil {
							o.Count("handler-panic:" + path)
							rec.Code = 500
						}
					}()
					s.h.ServeHTTP(rec, req)
				}()
				return rec
			}
			class := func(code int) string {
				switch code {
				case 401:
					return "401"
				case 403:
					return "403"
				case 404, 405:
					return "nomatch"
				}
				return "reached"
			}
			return func(f []string) (obs string) {
				defer func() {
					if r := recover(); r != nil {
						obs = fmt.Sprintf("panic(%v)", r)
					}
				}()
				if f[0] != "au" {
					die("auth: bad line %v", f)
				}
				o.Count("op:" + f[1])
				tail := func() string { return fmt.Sprintf(";sessions=%d", auth.VerifSessionCount()) }
				switch f[1] {
				case "reset":
					auth.VerifResetSessions()
					s.cookies = nil
					if s.pwDirty {
						// the user table outlives a trace: put the initial passwords back
						us, err := stores.OpenUserStore()
						if err != nil {
							die("auth: user store: %v", err)
						}
						for name, pw := range map[string]string{"alice": "pw-alice", "bob": "pw-bob"} {
							u, err := us.GetByUsername(name)
							if err != nil {
								die("auth: reset user %s: %v", name, err)
							}
							p, _ := phc.ParsePHC(cheapHash(pw))
							u.PasswordHash = *p
							if err := us.Save(u); err != nil {
								die("auth: reset user %s: %v", name, err)
							}
						}
						us.Close()
						s.pwDirty = false
					}
					lt, th := auth.VerifLifetimes()
					return fmt.Sprintf("lifetime=%d;threshold=%d", lt.Milliseconds(), th.Milliseconds())
				case "login": // user pw cookieRef
					// password tokens may carry escaped white space (+sp +nl +tab): the password is what it is, byte for byte
					pwd := strings.NewReplacer("+sp", " ", "+nl", "\n", "+tab", "\t", "+crlf", "\r\n").Replace(f[3])
					usr := strings.NewReplacer("+sp", " ").Replace(f[2])
					rec := do("POST", "/api/auth/login", f[4], "-", "-", fmt.Sprintf(`{"username":%q,"password":%q}`, usr, pwd))
					res := "invalid"
					switch {
					case rec.Code == 200 && strings.Contains(rec.Body.String(), "Already Authenticated"):
						res = "already"
					case rec.Code == 200:
						for _, ck := range rec.Result().Cookies() {
							if ck.Name == "reservoir.sid" {
								s.cookies = append(s.cookies, ck.Value)
								res = fmt.Sprintf("created:%d", len(s.cookies)-1)
							}
						}
					case rec.Code == 401:
						res = "invalid"
					default:
						res = fmt.Sprintf("status%d", rec.Code)
					}
					o.Count("login:" + strings.SplitN(res, ":", 2)[0])
					return res + tail()
				case "chpw": // cookieRef current new : change the password of the session's user
					rec := do("PATCH", "/api/auth/change-password", f[2], "-", "-", fmt.Sprintf(`{"current_password":%q,"new_password":%q}`, f[3], f[4]))
					res := fmt.Sprintf("status%d", rec.Code)
					switch rec.Code {
					case 204, 200:
						res = "changed"
						s.pwDirty = true
					case 400:
						res = "refused"
					case 401:
						res = "401"
					case 403:
						res = "403"
					}
					o.Count("chpw:" + res)
					return res + tail()
				case "logout":
					rec := do("POST", "/api/auth/logout", f[2], "-", "-", "")
					return class(rec.Code) + tail()
				case "req": // method path cookieRef origin site
					body := ""
					if f[2] == "PATCH" && f[3] == "/api/config" {
						body = "{}"
					}
					rec := do(f[2], f[3], f[4], f[5], f[6], body)
					cl := class(rec.Code)
					o.Count("req:" + cl)
					return cl + tail()
				case "shift":
					ms, _ := strconv.ParseInt(f[2], 10, 64)
					auth.VerifShiftSessions(time.Duration(ms) * time.Millisecond)
					return "shifted" + tail()
				case "gc":
					auth.VerifRunGC()
					return "gc" + tail()
				}
				die("auth: unknown op %v", f)
				return ""
			}
		},
		Gen: func(c runCfg, o *Out, emit func(...string)) {
			r := NewRng(c.seed)
			n := 60
			if c.tier == "thorough" {
				n = 1500
			}
			if c.n > 0 {
				n = c.n
			}
			// routes as registered (pattern METHOD path); the oracle knows their flags from the extracted table
			routes := [][2]string{{"PATCH", "/api/auth/change-password"}, {"POST", "/api/auth/logout"}, {"GET", "/api/auth/me"}, {"GET", "/api/config"}, {"PATCH", "/api/config"},
				{"GET", "/api/config/restart-required"}, {"GET", "/api/log"}, {"GET", "/api/metrics"}, {"GET", "/api/metrics/cache"},
				{"GET", "/api/metrics/requests"}, {"GET", "/api/metrics/system"}, {"GET", "/api/version"}}
			methods := []string{"GET", "POST", "PATCH", "PUT", "DELETE", "HEAD", "OPTIONS"}
			origins := []string{"-", "-", "-", "https://evil.example", "http://localhost:8080", "null"}
			sites := []string{"-", "-", "same-origin", "same-site", "cross-site", "none"}
			itoa := strconv.Itoa
			// every registered route x cookie class without any session
			emit("au", "reset")
			for _, rt := range routes {
				for _, ck := range []string{"none", "random", "s0"} {
					emit("au", "req", rt[0], rt[1], ck, "-", "-")
				}
				for _, og := range origins[3:] {
					for _, st := range sites {
						emit("au", "req", rt[0], rt[1], "none", og, st)
					}
				}
				emit("au", "req", "OPTIONS", rt[1], "none", "https://evil.example", "-")
			}
			for t := 0; t < n; t++ {
				emit("au", "reset")
				nlogin := 0
				margins := []int{60000, 600000, 2400000, 2999000, 3001000, 3599000, 3600400, 3600900, 3601000, 3660000, 7200000}
				if r.Chance(45) {
					// a session taken to a margin of its lifetime, then used (and used again)
					emit("au", "login", "alice", "pw-alice", "none")
					nlogin = 1
					emit("au", "shift", itoa(margins[r.Intn(len(margins))]))
					rt := routes[r.Intn(len(routes))]
					emit("au", "req", rt[0], rt[1], "s0", "-", "-")
					if r.Chance(50) {
						emit("au", "shift", itoa(margins[r.Intn(len(margins))]))
					}
					emit("au", "req", "GET", "/api/config", "s0", "-", "-")
				}
				if r.Chance(30) {
					// a password change in the middle of a history of logins under several spellings of the user name (the users
					// table compares names case-insensitively): afterwards ONLY the new password opens a session, for every spelling
					sp := []string{"alice", "ALICE", "Alice", "aLiCe"}
					for k := 0; k < 1+r.Intn(3); k++ {
						emit("au", "login", sp[r.Intn(4)], []string{"pw-alice", "pw-alice", "wrong"}[r.Intn(3)], "none")
						nlogin++
					}
					emit("au", "login", "alice", "pw-alice", "none")
					nlogin++
					who := "s" + itoa(r.Intn(nlogin+1))
					cur := []string{"pw-alice", "pw-alice", "pw-alice", "wrong", "pw-bob"}[r.Intn(5)]
					emit("au", "chpw", who, cur, "pw-new")
					for k := 0; k < 2+r.Intn(3); k++ {
						emit("au", "login", sp[r.Intn(4)], []string{"pw-alice", "pw-new"}[r.Intn(2)], "none")
						nlogin++
					}
					emit("au", "login", "bob", []string{"pw-bob", "pw-new"}[r.Intn(2)], "none")
					nlogin++
				}
				for i := 0; i < 5+r.Intn(12); i++ {
					ck := "none"
					if nlogin > 0 && r.Chance(75) {
						ck = "s" + itoa(r.Intn(nlogin+1)) // may name a never-issued one
					} else if r.Chance(20) {
						ck = "random"
					}
					switch x := r.Intn(100); {
					case x < 22:
						user, pw := "alice", "pw-alice"
						switch r.Intn(8) {
						case 6:
							pw = []string{"pw-alice+sp", "+sppw-alice", "pw-alice+nl", "+tabpw-alice+tab", "pw-alice+crlf", "PW-ALICE", "pw-alic", "pw-alicee", ""}[r.Intn(9)]
						case 7:
							user = []string{"alice+sp", "+spalice", "ALICE"}[r.Intn(3)]
						case 0:
							pw = "wrong"
						case 1:
							user = "mallory"
						case 2:
							user, pw = "bob", "pw-bob"
						case 3:
							user, pw = "bob", "pw-alice"
						}
						lk := "none"
						if nlogin > 0 && r.Chance(25) {
							lk = ck
						}
						emit("au", "login", user, pw, lk)
						if (strings.EqualFold(user, "alice") && pw == "pw-alice") || (user == "bob" && pw == "pw-bob") {
							nlogin++ // upper bound; an "already" login issues nothing (refs beyond the issued ones are never-issued cookies)
						}
					case x < 32:
						emit("au", "logout", ck)
					case x < 72:
						rt := routes[r.Intn(len(routes))]
						m := rt[0]
						if r.Chance(15) {
							m = methods[r.Intn(len(methods))]
						}
						og, st := origins[r.Intn(len(origins))], sites[r.Intn(len(sites))]
						if rt[1] == "/api/auth/logout" && m == "POST" {
							og, st = "-", "-" // logout has its own op; through `req` only in the plain form
						}
						emit("au", "req", m, rt[1], ck, og, st)
					case x < 92:
						// margins around the 1 h lifetime and the 10 min extension threshold
						emit("au", "shift", itoa([]int{60000, 600000, 2400000, 2999000, 3001000, 3599000, 3600400, 3600900, 3601000, 3660000, 7200000}[r.Intn(11)]))
					default:
						emit("au", "gc")
					}
				}
			}
		},
	}
}
