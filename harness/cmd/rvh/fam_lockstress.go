package main

// lockstress — supporting evidence for C14 on the real runtime: concurrent
// store/get/delete/update on colliding and distinct shards with a cache small
// enough that stores trigger eviction from inside Cache(), a 1 ms janitor, and
// limit / interval / memory-budget change events, under a watchdog. The theorem
// (Props/C14) is what decides the property; this family looks for a replay when
// the theorem's obligations break (e.g. TryLock -> Lock in evict) and checks
// that the modelled lock programs are the ones that run.

import (
	"bytes"
	"context"
	"fmt"
	"os"
	"runtime"
	"strconv"
	"sync"
	"sync/atomic"
	"time"

	"reservoir/cache"
	"reservoir/config"
	"reservoir/metrics"
	"reservoir/utils/bytesize"
	"reservoir/utils/duration"
)

func lsRun(dir, backend string, shards, workers, ops int, seed uint64, mode string) string {
	cfg := config.NewDefault()
	if !raceEnabled {
		metrics.Global = metrics.NewMetrics()
	}
	limit := int64(2000)
	cfg.Cache.MaxCacheSize.Overwrite(bytesize.ByteSize(limit))
	ctx, cancel := context.WithCancel(context.Background())
	defer cancel()
	var c cache.Cache[int]
	interval := time.Millisecond
	if mode == "selfevict" {
		interval = time.Hour
	}
	if backend == "file" {
		os.RemoveAll(dir)
		c = cache.NewFileCache[int](cfg, dir, limit, interval, shards, ctx)
	} else {
		c = cache.NewMemoryCache[int](cfg, 75, limit, interval, shards, ctx)
	}
	keys := make([]cache.CacheKey, 6)
	for i := range keys {
		keys[i] = cache.FromString(fmt.Sprintf("ls-%d-%d", seed, i))
	}
	var done atomic.Int64
	var wg sync.WaitGroup
	body := bytes.Repeat([]byte("x"), 700)
	work := func(w int) {
		defer wg.Done()
		r := NewRng(seed*131 + uint64(w))
		for i := 0; i < ops; i++ {
			k := keys[r.Intn(len(keys))]
			switch r.Intn(10) {
			case 0, 1, 2, 3:
				if e, err := c.Cache(k, bytes.NewReader(body[:100+r.Intn(600)]), time.Now().Add(time.Duration(r.Intn(5)-1)*time.Millisecond), i); err == nil {
					e.Data.Close()
				}
			case 4, 5, 6:
				if e, err := c.Get(k); err == nil {
					e.Data.Close()
				}
			case 7:
				c.Delete(k)
			case 8:
				c.UpdateMetadata(k, func(m *cache.EntryMetadata[int]) { m.Expires = time.Now().Add(time.Millisecond) })
			default:
				switch r.Intn(3) {
				case 0:
					cfg.Cache.MaxCacheSize.Overwrite(bytesize.ByteSize(1000 + r.Intn(3000)))
				case 1:
					cfg.Cache.CleanupInterval.Overwrite(duration.Duration(time.Duration(1+r.Intn(3)) * time.Millisecond))
				default:
					cfg.Cache.Memory.MemoryBudgetPercent.Overwrite(50 + r.Intn(40))
				}
			}
			done.Add(1)
		}
	}
	if mode == "budget" {
		// a run-time change of a limit to BELOW what is cached (memory budget 0 %, size limit 1 byte), then ordinary
		// operations: the change handlers run while the cache is over its new limits
		workers, ops = 1, 0
		wg.Add(1)
		go func() {
			defer wg.Done()
			for i := 0; i < 4; i++ {
				if e, err := c.Cache(keys[i], bytes.NewReader(body[:300]), time.Now().Add(time.Hour), i); err == nil {
					e.Data.Close()
				}
				done.Add(1)
			}
			cfg.Cache.Memory.MemoryBudgetPercent.Overwrite(0)
			cfg.Cache.MaxCacheSize.Overwrite(bytesize.ByteSize(1))
			time.Sleep(20 * time.Millisecond)
			for i := 0; i < 6; i++ {
				if e, err := c.Get(keys[i%len(keys)]); err == nil {
					e.Data.Close()
				}
				if e, err := c.Cache(keys[(i+1)%len(keys)], bytes.NewReader(body[:50]), time.Now().Add(time.Hour), i); err == nil {
					e.Data.Close()
				}
				c.Delete(keys[(i+2)%len(keys)])
				done.Add(1)
			}
			cfg.Cache.Memory.MemoryBudgetPercent.Overwrite(75)
		}()
	} else if mode == "selfevict" {
		// fill the single-shard cache, then store once more: the eviction runs inside Cache() holding the shard lock
		workers, ops = 1, 0
		wg.Add(1)
		go func() {
			defer wg.Done()
			for i := 0; i < 6; i++ {
				if e, err := c.Cache(keys[i%len(keys)], bytes.NewReader(body), time.Now().Add(time.Hour), i); err == nil {
					e.Data.Close()
				}
				done.Add(1)
			}
		}()
	} else {
		for w := 0; w < workers; w++ {
			wg.Add(1)
			go work(w)
		}
	}
	fin := make(chan struct{})
	go func() { wg.Wait(); close(fin) }()
	select {
	case <-fin:
	case <-runningFor(15 * time.Second):
		buf := make([]byte, 1<<16)
		n := runtime.Stack(buf, true)
		os.WriteFile(dir+".hang-goroutines.txt", buf[:n], 0o644)
		return fmt.Sprintf("HANG after %d ops (goroutine dump: %s.hang-goroutines.txt)", done.Load(), dir)
	}
	stopped := make(chan struct{})
	go func() { c.Destroy(); close(stopped) }()
	select {
	case <-stopped:
	case <-runningFor(5 * time.Second):
		return "HANG in Destroy"
	}
	return "completed"
}

func init() {
	families["lockstress"] = Family{
		NewExec: func(c runCfg, o *Out) func([]string) string {
			quietLogs()
			return func(f []string) (obs string) {
				defer func() {
					if r := recover(); r != nil {
						obs = fmt.Sprintf("panic(%v)", r)
					}
				}()
				if f[0] != "ls" {
					die("lockstress: bad line %v", f)
				}
				shards, _ := strconv.Atoi(f[3])
				workers, _ := strconv.Atoi(f[4])
				ops, _ := strconv.Atoi(f[5])
				seed, _ := strconv.ParseUint(f[6], 10, 64)
				o.Count("mode:" + f[1])
				o.Count("shards:" + f[3])
				r := lsRun(c.out+"/ls-dir", f[2], shards, workers, ops, seed, f[1])
				o.Count("result:" + r[:4])
				return r
			}
		},
		Gen: func(c runCfg, o *Out, emit func(...string)) {
			r := NewRng(c.seed)
			ops := 300
			rounds := 1
			if c.tier == "thorough" {
				ops, rounds = 3000, 4
			}
			for _, b := range []string{"mem", "file"} {
				emit("ls", "selfevict", b, "1", "1", "0", strconv.FormatUint(r.U64()%1000, 10))
				emit("ls", "budget", b, []string{"1", "3", "64"}[r.Intn(3)], "1", "0", strconv.FormatUint(r.U64()%1000, 10))
				for i := 0; i < rounds; i++ {
					for _, sh := range []string{"1", "2", "3", "64"} {
						emit("ls", "stress", b, sh, "8", strconv.Itoa(ops), strconv.FormatUint(r.U64()%100000, 10))
					}
				}
			}
		},
	}
}
