package main

// racestress — C15, the dynamic side: concurrent scenarios over the shared state
// of the real packages (cache + janitor + config events, Event, SyncMap,
// sessions, the proxy with coalescing and revalidation). Meant to be run from a
// `-race` build (bin/check builds one for C15): the race detector's reports
// (GORACE log_path) are turned into `ac race` lines and judged by the oracle
// against the lock-set facts. The op's own observation is only "completed".
//   rs run <scenario> <seed> <workers> <ops>

import (
	"bytes"
	"context"
	"fmt"
	"io"
	"net/http"
	"net/http/httptest"
	"net/url"
	"os"
	"strconv"
	"strings"
	"sync"
	"sync/atomic"
	"time"

	"reservoir/cache"
	"reservoir/config"
	"reservoir/metrics"
	"reservoir/proxy"
	"reservoir/utils/bytesize"
	"reservoir/utils/duration"
	"reservoir/utils/event"
	"reservoir/utils/syncmap"
	"reservoir/webserver/auth"
)

// a panic in a worker goroutine (e.g. a slice torn by a racing writer) is part of the observation, not a harness crash
var rsPanicMu sync.Mutex
var rsPanics []string

func rsRecover() {
	if r := recover(); r != nil {
		rsPanicMu.Lock()
		rsPanics = append(rsPanics, fmt.Sprint(r))
		rsPanicMu.Unlock()
	}
}

func rsCache(dir, backend string, seed uint64, workers, ops int) {
	cfg := config.NewDefault()
	limit := int64(2500)
	cfg.Cache.MaxCacheSize.Overwrite(bytesize.ByteSize(limit))
	ctx, cancel := context.WithCancel(context.Background())
	defer cancel()
	var c cache.Cache[int]
	if backend == "file" {
		os.RemoveAll(dir)
		c = cache.NewFileCache[int](cfg, dir, limit, time.Millisecond, 4, ctx)
	} else {
		c = cache.NewMemoryCache[int](cfg, 75, limit, time.Millisecond, 4, ctx)
	}
	defer c.Destroy()
	keys := make([]cache.CacheKey, 6)
	for i := range keys {
		keys[i] = cache.FromString(fmt.Sprintf("rs-%d-%d", seed, i))
	}
	// every stored body encodes its version (the metadata object) and has a version-dependent length, so a
	// reader can tell whether the metadata it was handed describes the bytes it reads (C01, concurrently)
	mkBody := func(ver int) []byte {
		b := make([]byte, 100+(ver*37)%600)
		for i := range b {
			b[i] = byte(ver*131 + i*7 + 3)
		}
		return b
	}
	var verCtr atomic.Int64
	var wg sync.WaitGroup
	sink := 0
	var sinkMu sync.Mutex
	for w := 0; w < workers; w++ {
		wg.Add(1)
		go func(w int) {
			defer wg.Done()
			defer rsRecover()
			r := NewRng(seed*977 + uint64(w))
			local := 0
			for i := 0; i < ops; i++ {
				k := keys[r.Intn(len(keys))]
				switch r.Intn(12) {
				case 0, 1, 2:
					ver := int(verCtr.Add(1))
					if e, err := c.Cache(k, bytes.NewReader(mkBody(ver)), time.Now().Add(time.Duration(r.Intn(6)-1)*time.Millisecond), ver); err == nil {
						e.Data.Close()
					}
				case 3, 4, 5, 6:
					// what the proxy does with a hit: read the entry's metadata after Get has returned
					if e, err := c.Get(k); err == nil {
						if got, rerr := io.ReadAll(e.Data); rerr == nil {
							want := mkBody(e.Metadata.Object)
							if int64(len(got)) != e.Metadata.Size || !bytes.Equal(got, want) {
								rsPanicMu.Lock()
								rsPanics = append(rsPanics, fmt.Sprintf("MISPAIRED: metadata says version %d size %d, the body handed out has %d bytes (equal to that version's body: %v)", e.Metadata.Object, e.Metadata.Size, len(got), bytes.Equal(got, want)))
								rsPanicMu.Unlock()
							}
						}
						if e.Metadata.Expires.After(time.Now()) {
							local += int(e.Metadata.Size) + e.Metadata.Object
						}
						if !e.Metadata.TimeWritten.IsZero() {
							local++
						}
						e.Data.Close()
					}
				case 7:
					if m, _, err := c.GetMetadata(k); err == nil {
						local += int(m.Size)
						if m.Expires.Before(time.Now()) {
							local++
						}
					}
				case 8:
					c.Delete(k)
				case 9, 10:
					c.UpdateMetadata(k, func(m *cache.EntryMetadata[int]) { m.Expires = time.Now().Add(2 * time.Millisecond) })
				default:
					switch r.Intn(3) {
					case 0:
						cfg.Cache.MaxCacheSize.Overwrite(bytesize.ByteSize(1500 + r.Intn(3000)))
					case 1:
						cfg.Cache.CleanupInterval.Overwrite(duration.Duration(time.Duration(1+r.Intn(3)) * time.Millisecond))
					default:
						cfg.Cache.Memory.MemoryBudgetPercent.Overwrite(50 + r.Intn(40))
					}
				}
			}
			sinkMu.Lock()
			sink += local
			sinkMu.Unlock()
		}(w)
	}
	wg.Wait()
	time.Sleep(5 * time.Millisecond) // a few more cleanup cycles over the final state
}

func rsEvent(seed uint64, workers, ops int) {
	e := event.New[int]()
	var wg sync.WaitGroup
	var cells [8]struct {
		mu sync.Mutex
		v  int
	}
	for w := 0; w < workers; w++ {
		wg.Add(1)
		go func(w int) {
			defer wg.Done()
			defer rsRecover()
			r := NewRng(seed*31 + uint64(w))
			var unsubs []event.Unsubscribe
			for i := 0; i < ops; i++ {
				switch r.Intn(4) {
				case 0:
					cell := &cells[r.Intn(len(cells))]
					unsubs = append(unsubs, e.Subscribe(func(v int) { cell.mu.Lock(); cell.v = v; cell.mu.Unlock() }))
				case 1:
					if len(unsubs) > 0 {
						j := r.Intn(len(unsubs))
						unsubs[j]()
						unsubs = append(unsubs[:j], unsubs[j+1:]...)
					}
				default:
					e.Fire(i)
				}
			}
			for _, u := range unsubs {
				u()
			}
		}(w)
	}
	wg.Wait()
	time.Sleep(2 * time.Millisecond)
}

func rsSyncMap(seed uint64, workers, ops int) {
	m := syncmap.New[int, int]()
	var wg sync.WaitGroup
	for w := 0; w < workers; w++ {
		wg.Add(1)
		go func(w int) {
			defer wg.Done()
			defer rsRecover()
			r := NewRng(seed*53 + uint64(w))
			n := 0
			for i := 0; i < ops; i++ {
				k := r.Intn(16)
				switch r.Intn(6) {
				case 0:
					m.Set(k, i)
				case 1:
					m.Delete(k)
				case 2:
					m.GetOrSet(k, i)
				case 3:
					for kk := range m.Keys() {
						n += kk
					}
				case 4:
					for v := range m.Items() {
						n += v
					}
				default:
					if v, ok := m.Get(k); ok {
						n += v
					}
				}
			}
		}(w)
	}
	wg.Wait()
}

func rsSession(seed uint64, workers, ops int) {
	auth.VerifResetSessions()
	var wg sync.WaitGroup
	var idsMu sync.Mutex
	var ids []string
	for w := 0; w < workers; w++ {
		wg.Add(1)
		go func(w int) {
			defer wg.Done()
			defer rsRecover()
			r := NewRng(seed*71 + uint64(w))
			for i := 0; i < ops; i++ {
				idsMu.Lock()
				id := ""
				if len(ids) > 0 {
					id = ids[r.Intn(len(ids))]
				}
				idsMu.Unlock()
				switch r.Intn(8) {
				case 0:
					s := auth.CreateSession(int64(w))
					idsMu.Lock()
					ids = append(ids, s.ID)
					idsMu.Unlock()
				case 1:
					if s, ok := auth.GetSession(id); ok && r.Chance(30) {
						s.Destroy()
					}
				case 2:
					auth.VerifRunGC()
				case 3:
					if r.Chance(15) {
						// time passes: sessions come within the extension threshold (the hook's own unsynchronised
						// write is an artefact; reports whose innermost reservoir frame is in a verif_ file are dropped)
						auth.VerifShiftSessions(51 * time.Minute)
					}
				default:
					// a request with the cookie: look the session up and read it, as the API context does
					req, _ := http.NewRequest("GET", "http://x/api/config", nil)
					req.AddCookie(&http.Cookie{Name: "reservoir.sid", Value: id})
					if s, ok := auth.SessionFromRequest(req); ok {
						_ = s.ExpiresAt.After(time.Now())
						_ = s.BuildSessionCookie()
					}
				}
			}
		}(w)
	}
	wg.Wait()
	auth.VerifResetSessions()
}

func rsProxyRun(px *pxState, base, backend string, seed uint64, workers, ops int) string {
	if !raceEnabled {
		metrics.Global = metrics.NewMetrics()
	}
	cfg := config.NewDefault()
	cfg.Proxy.UpstreamDefaultHttps.Overwrite(false)
	cfg.Proxy.CachePolicy.IgnoreCacheControl.Overwrite(false)
	cfg.Proxy.CachePolicy.ForceDefaultMaxAge.Overwrite(false)
	cfg.Proxy.CachePolicy.DefaultMaxAge.Overwrite(duration.Duration(30 * time.Second))
	cfg.Cache.MaxCacheSize.Overwrite(bytesize.ByteSize(1 << 20))
	cfg.Cache.CleanupInterval.Overwrite(duration.Duration(2 * time.Millisecond))
	cfg.Cache.LockShards.Overwrite(4)
	dir, _ := os.MkdirTemp(base, "rsp-")
	defer os.RemoveAll(dir)
	cfg.Cache.File.Dir.Overwrite(dir)
	if backend == "file" {
		cfg.Cache.Type.Overwrite(config.CacheTypeFile)
	} else {
		cfg.Cache.Type.Overwrite(config.CacheTypeMemory)
	}
	ctx, cancel := context.WithCancel(context.Background())
	defer cancel()
	p, err := proxy.NewProxy(cfg, px.ca, ctx)
	if err != nil {
		return "setup-failed"
	}
	defer p.Destroy()
	origin := httptest.NewServer(http.HandlerFunc(func(w http.ResponseWriter, r *http.Request) {
		tag := "\"t" + r.URL.Path + "\""
		w.Header().Set("Cache-Control", "max-age=60")
		w.Header().Set("ETag", tag)
		// multi-line fields the proxy itself appends to (Via, Cache-Status, X-Cache): stored value slices with spare
		// capacity are where an aliasing copy would make concurrent hits write the same backing array
		for _, v := range []string{"1.1 a", "1.1 b", "1.1 c"} {
			w.Header().Add("Via", v)
			w.Header().Add("Cache-Status", "up-"+v[4:]+"; hit")
			w.Header().Add("X-Cache", "UP-"+v[4:])
			w.Header().Add("Vary", "X-"+v[4:])
		}
		if r.Header.Get("If-None-Match") == tag {
			w.WriteHeader(304)
			return
		}
		w.Write(bytes.Repeat([]byte("b"), 300))
	}))
	defer origin.Close()
	proxySrv := httptest.NewServer(p)
	defer proxySrv.Close()
	pu, _ := url.Parse(proxySrv.URL)
	hooks := p.VerifCache().(cache.VerifHooks)
	var wg sync.WaitGroup
	stop := make(chan struct{})
	go func() {
		// entries go stale every now and then: revalidations (UpdateMetadata of Expires) overlap with hits
		for {
			select {
			case <-stop:
				return
			case <-time.After(3 * time.Millisecond):
				hooks.VerifShiftClock(61 * time.Second)
			}
		}
	}()
	for w := 0; w < workers; w++ {
		wg.Add(1)
		go func(w int) {
			defer wg.Done()
			defer rsRecover()
			r := NewRng(seed*19 + uint64(w))
			cl := &http.Client{Transport: &http.Transport{Proxy: http.ProxyURL(pu)}, Timeout: 10 * time.Second}
			for i := 0; i < ops; i++ {
				resp, err := cl.Get(origin.URL + "/k" + strconv.Itoa(r.Intn(3)))
				if err == nil {
					io.Copy(io.Discard, resp.Body)
					resp.Body.Close()
				}
			}
			cl.CloseIdleConnections()
		}(w)
	}
	wg.Wait()
	close(stop)
	return "completed"
}

func init() {
	families["racestress"] = Family{
		NewExec: func(c runCfg, o *Out) func([]string) string {
			quietLogs()
			px := &pxState{}
			base, _ := os.MkdirTemp(c.out, "rs-")
			px.ca, px.caPool = pxMakeCA(base)
			return func(f []string) (obs string) {
				defer func() {
					if r := recover(); r != nil {
						obs = fmt.Sprintf("panic(%v)", r)
					}
				}()
				if f[0] != "rs" || f[1] != "run" {
					die("racestress: bad line %v", f)
				}
				seed, _ := strconv.ParseUint(f[3], 10, 64)
				workers, _ := strconv.Atoi(f[4])
				ops, _ := strconv.Atoi(f[5])
				o.Count("scenario:" + f[2])
				rsPanicMu.Lock()
				rsPanics = nil
				rsPanicMu.Unlock()
				defer func() {
					rsPanicMu.Lock()
					if len(rsPanics) > 0 && obs == "completed" {
						if strings.HasPrefix(rsPanics[0], "MISPAIRED") {
							obs = rsPanics[0]
						} else {
							obs = "panic(" + rsPanics[0] + ")"
						}
					}
					rsPanicMu.Unlock()
				}()
				switch f[2] {
				case "cache-mem":
					rsCache(base+"/c", "mem", seed, workers, ops)
				case "cache-file":
					rsCache(base+"/c", "file", seed, workers, ops)
				case "event":
					rsEvent(seed, workers, ops)
				case "syncmap":
					rsSyncMap(seed, workers, ops)
				case "session":
					rsSession(seed, workers, ops)
				case "proxy-mem":
					return rsProxyRun(px, base, "mem", seed, workers, ops)
				case "proxy-file":
					return rsProxyRun(px, base, "file", seed, workers, ops)
				default:
					die("racestress: unknown scenario %v", f)
				}
				return "completed"
			}
		},
		Gen: func(c runCfg, o *Out, emit func(...string)) {
			r := NewRng(c.seed)
			n := 2
			if c.tier == "thorough" {
				n = 12
			}
			if c.n > 0 {
				n = c.n
			}
			for i := 0; i < n; i++ {
				for _, sc := range []string{"cache-mem", "cache-file", "event", "syncmap", "session", "proxy-mem", "proxy-file"} {
					ops, workers := 150, 4+r.Intn(4)
					if sc[:5] == "proxy" {
						// enough overlap of hits (answering from a snapshot) with revalidations of the same key
						ops, workers = 400, 8
					}
					emit("rs", "run", sc, strconv.Itoa(1+r.Intn(1000000)), strconv.Itoa(workers), strconv.Itoa(ops))
				}
			}
		},
	}
}
