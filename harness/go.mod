module rvharness

go 1.26

require reservoir v0.0.0

require (
	github.com/shirou/gopsutil/v4 v4.26.1 // indirect
	golang.org/x/crypto v0.48.0 // indirect
	golang.org/x/sys v0.41.0 // indirect
)

replace reservoir => /repo
