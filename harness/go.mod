module rvharness

go 1.26

require reservoir v0.0.0

replace reservoir => /repo
