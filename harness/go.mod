module rvharness

go 1.26

require (
	golang.org/x/crypto v0.48.0
	reservoir v0.0.0
)

require (
	github.com/DeRuina/timberjack v1.3.9 // indirect
	github.com/dustin/go-humanize v1.0.1 // indirect
	github.com/google/uuid v1.6.0 // indirect
	github.com/jmoiron/sqlx v1.4.0 // indirect
	github.com/klauspost/compress v1.18.4 // indirect
	github.com/remyoudompheng/bigfft v0.0.0-20230129092748-24d4a6f8daec // indirect
	github.com/shirou/gopsutil/v4 v4.26.1 // indirect
	golang.org/x/exp v0.0.0-20260212183809-81e46e3db34a // indirect
	golang.org/x/sync v0.19.0 // indirect
	golang.org/x/sys v0.41.0 // indirect
	modernc.org/libc v1.67.7 // indirect
	modernc.org/mathutil v1.7.1 // indirect
	modernc.org/memory v1.11.0 // indirect
	modernc.org/sqlite v1.45.0 // indirect
)

replace reservoir => /repo
