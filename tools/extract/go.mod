module rvextract

go 1.26
