// go2lean — a small translator from a subset of Go to Lean 4 definitions.
//
// It REGENERATES, on every run, Lean definitions of the pure decision functions of /repo
// (Rv/Generated/Src.lean). Theorems in Rv/Props/Src*.lean state that each translated definition is
// extensionally equal to the hand-written model function the property theorems are about, so for these
// functions the tie between model and code is re-PROVED by the kernel against what the source says now,
// not sampled. The translator is untrusted in one direction only: whatever it cannot translate faithfully
// it refuses (exit 2, naming the construct), it never substitutes a default.
//
// Subset: functions without loops, goroutines, defers or pointer writes; statements: if/else (with init),
// switch, return (bare and with values), :=, =, var, ++, +=, expression statements listed as ignorable
// (logging, metrics) or mapped to an effect by the function's spec; expressions: literals, identifiers,
// package constants (resolved to their values from the source), selectors on locals, unary and binary
// operators with Go's short-circuit semantics, conversions, calls of other translatable functions of the
// same package (translated on demand), and the leaf table of the spec. Every translated function returns
// `Option T`: `none` stands for a Go run-time panic (ForceUnwrap of an absent Optional, division by zero).
// int64 arithmetic is translated to unbounded Int: overflow is outside this translation (stated in DESIGN.md).
package main

import (
	"bytes"
	"encoding/json"
	"flag"
	"fmt"
	"go/ast"
	"go/parser"
	"go/printer"
	"go/token"
	"os"
	"path/filepath"
	"regexp"
	"sort"
	"strconv"
	"strings"
)

type Spec struct {
	File    string            `json:"file"`    // path below the repo root
	Recv    string            `json:"recv"`    // receiver type name ("" for a plain function)
	Func    string            `json:"func"`    // Go function name
	Lean    string            `json:"lean"`    // Lean definition name
	Binders []string          `json:"binders"` // Lean binders: receiver first (if any), then one per Go parameter, then extras
	Ret     string            `json:"ret"`     // Lean result type (inside Option)
	Results []string          `json:"results"` // per Go result: "val" | "err" (error => Bool: nil = true)
	Leaves  map[string]string `json:"leaves"`  // canonical Go expression => Lean term; a leading '?' marks an Option-valued term
	Ignore  []string          `json:"ignore"`  // regexps of expression statements without influence on the result
	Effects map[string]string `json:"effects"` // regexp of a statement => "name := leanTerm" (sets a pseudo result)
	FuncLit bool              `json:"funclit"` // translate the first function literal inside the body (middleware closures)
	Pseudo  map[string]string `json:"pseudo"`  // pseudo result variables with their initial Lean value (returned by bare return / end)
	Expr    string            `json:"expr"`    // if set: translate only the right-hand side of the first assignment to this variable
	Cond    string            `json:"cond"`    // if set: translate only the condition of the first `if` whose printed condition matches this regexp
	Doc     string            `json:"doc"`
	Group   string            `json:"group"`   // output module: Rv/Generated/Src<Group>.lean
}

var fset = token.NewFileSet()
var repoRoot string

type pkgInfo struct {
	dir    string
	files  []*ast.File
	consts map[string]ast.Expr
	litVars []string
	funcs  map[string]*ast.FuncDecl // "Recv.Name" or "Name"
}

var pkgs = map[string]*pkgInfo{}

func loadPkg(dir string) *pkgInfo {
	if p, ok := pkgs[dir]; ok {
		return p
	}
	p := &pkgInfo{dir: dir, consts: map[string]ast.Expr{}, funcs: map[string]*ast.FuncDecl{}}
	ents, err := os.ReadDir(dir)
	if err != nil {
		fail("cannot read %s: %v", dir, err)
	}
	for _, e := range ents {
		n := e.Name()
		if !strings.HasSuffix(n, ".go") || strings.HasSuffix(n, "_test.go") || strings.HasPrefix(n, "verif_") {
			continue
		}
		f, err := parser.ParseFile(fset, filepath.Join(dir, n), nil, 0)
		if err != nil {
			fail("parse %s: %v", n, err)
		}
		p.files = append(p.files, f)
		for _, d := range f.Decls {
			switch d := d.(type) {
			case *ast.GenDecl:
				if d.Tok != token.CONST && d.Tok != token.VAR {
					continue
				}
				for _, s := range d.Specs {
					vs := s.(*ast.ValueSpec)
					for i, nm := range vs.Names {
						if i < len(vs.Values) {
							if d.Tok == token.VAR {
								// a package-level variable initialised with a literal counts as a constant only if nothing assigns to it (checked below)
								if _, lit := vs.Values[i].(*ast.BasicLit); !lit {
									continue
								}
								p.litVars = append(p.litVars, nm.Name)
							}
							p.consts[nm.Name] = vs.Values[i]
						}
					}
				}
			case *ast.FuncDecl:
				key := d.Name.Name
				if d.Recv != nil && len(d.Recv.List) == 1 {
					key = recvTypeName(d.Recv.List[0].Type) + "." + key
				}
				p.funcs[key] = d
			}
		}
	}
	for _, f := range p.files {
		ast.Inspect(f, func(n ast.Node) bool {
			switch a := n.(type) {
			case *ast.AssignStmt:
				for _, l := range a.Lhs {
					if id, ok := l.(*ast.Ident); ok && a.Tok != token.DEFINE {
						for _, v := range p.litVars {
							if v == id.Name {
								delete(p.consts, v)
							}
						}
					}
				}
			case *ast.UnaryExpr:
				if id, ok := a.X.(*ast.Ident); ok && a.Op == token.AND {
					for _, v := range p.litVars {
						if v == id.Name {
							delete(p.consts, v)
						}
					}
				}
			}
			return true
		})
	}
	pkgs[dir] = p
	return p
}

func recvTypeName(e ast.Expr) string {
	switch t := e.(type) {
	case *ast.StarExpr:
		return recvTypeName(t.X)
	case *ast.Ident:
		return t.Name
	case *ast.IndexExpr:
		return recvTypeName(t.X)
	case *ast.IndexListExpr:
		return recvTypeName(t.X)
	}
	return "?"
}

type refusal struct{ msg string }

// the translator never guesses: anything outside the subset aborts the translation of the GROUP being translated
func fail(format string, a ...any) {
	panic(refusal{fmt.Sprintf(format, a...)})
}

func show(n any) string {
	var b bytes.Buffer
	printer.Fprint(&b, fset, n)
	return strings.Join(strings.Fields(b.String()), " ")
}

var leanKeywords = map[string]bool{"end": true, "from": true, "at": true, "do": true, "then": true, "else": true, "match": true, "with": true,
	"fun": true, "let": true, "in": true, "open": true, "section": true, "namespace": true, "instance": true, "class": true, "structure": true,
	"where": true, "have": true, "show": true, "by": true, "if": true, "def": true, "theorem": true, "Type": true, "Prop": true, "some": true, "none": true, "true": true, "false": true, "now": true}

func mangle(s string) string {
	if leanKeywords[s] {
		return s + "_"
	}
	return s
}

func lowerFirst(s string) string {
	if s == "" {
		return s
	}
	return strings.ToLower(s[:1]) + s[1:]
}

// a computation: Option-valued binds, then a pure value
type comp struct {
	pre []bind
	val string
}
type bind struct{ name, term string }

func pure(v string) comp { return comp{val: v} }

func (c comp) render() string { // as a term of type Option _
	out := "some (" + c.val + ")"
	for i := len(c.pre) - 1; i >= 0; i-- {
		out = "Option.bind (" + c.pre[i].term + ") (fun " + c.pre[i].name + " => " + out + ")"
	}
	return out
}

// continue with a term that may use c.val
func (c comp) andThen(k func(v string) string) string {
	out := k(c.val)
	for i := len(c.pre) - 1; i >= 0; i-- {
		out = "Option.bind (" + c.pre[i].term + ") (fun " + c.pre[i].name + " => " + out + ")"
	}
	return out
}

type tr struct {
	spec   *Spec
	pkg    *pkgInfo
	fn     *ast.FuncDecl
	recv   string
	params []string
	locals map[string]bool
	plean  map[string]string // Go parameter / receiver name => Lean binder name
	named  []string // named results (Go names)
	fresh  int
	out    *genOut
	pseudo []string
}

type genOut struct {
	specs map[string]*Spec
	defs  []string
	done  map[string]string // go key => lean name
	order []string
}

func (t *tr) freshName() string {
	t.fresh++
	return fmt.Sprintf("v%d_", t.fresh)
}

var identRe = regexp.MustCompile(`[A-Za-z_][A-Za-z0-9_]*`)

// canonical text of an expression: receiver => $r, i-th parameter => $i
func (t *tr) canon(e ast.Node) string {
	s := show(e)
	return identRe.ReplaceAllStringFunc(s, func(id string) string {
		if t.recv != "" && id == t.recv {
			return "$r"
		}
		for i, p := range t.params {
			if id == p {
				return "$" + strconv.Itoa(i)
			}
		}
		return id
	})
}

func (t *tr) leaf(e ast.Node) (comp, bool) {
	if t.spec.Leaves == nil {
		return comp{}, false
	}
	if v, ok := t.spec.Leaves[t.canon(e)]; ok {
		if strings.HasPrefix(v, "@const:") {
			// a constant of another package, resolved from ITS source: @const:<dir>:<Name>
			parts := strings.SplitN(v[len("@const:"):], ":", 2)
			other := loadPkg(filepath.Join(repoRoot, parts[0]))
			cv, ok := other.consts[parts[1]]
			if !ok {
				fail("%s: constant %s not found in %s", t.spec.Lean, parts[1], parts[0])
			}
			ot := &tr{spec: t.spec, pkg: other, locals: map[string]bool{}, plean: map[string]string{}, out: t.out}
			return ot.constExpr(cv), true
		}
		if strings.HasPrefix(v, "?") {
			n := t.freshName()
			return comp{pre: []bind{{n, v[1:]}}, val: n}, true
		}
		return pure(v), true
	}
	return comp{}, false
}

func join2(a, b comp, f func(x, y string) string) comp {
	return comp{pre: append(append([]bind{}, a.pre...), b.pre...), val: f(a.val, b.val)}
}

func leanString(s string) string {
	var b strings.Builder
	b.WriteByte('"')
	for _, r := range s {
		switch {
		case r == '"':
			b.WriteString("\\\"")
		case r == '\\':
			b.WriteString("\\\\")
		case r == '\n':
			b.WriteString("\\n")
		case r == '\t':
			b.WriteString("\\t")
		case r == '\r':
			b.WriteString("\\r")
		case r < 32 || r > 126:
			fmt.Fprintf(&b, "\\u{%x}", r)
		default:
			b.WriteRune(r)
		}
	}
	b.WriteByte('"')
	return b.String()
}

func (t *tr) expr(e ast.Expr) comp {
	if c, ok := t.leaf(e); ok {
		return c
	}
	switch x := e.(type) {
	case *ast.ParenExpr:
		c := t.expr(x.X)
		c.val = "(" + c.val + ")"
		return c
	case *ast.BasicLit:
		switch x.Kind {
		case token.INT:
			v, err := strconv.ParseInt(x.Value, 0, 64)
			if err != nil {
				fail("%s: integer literal %s", t.spec.Lean, x.Value)
			}
			return pure(fmt.Sprintf("(%d : Int)", v))
		case token.STRING:
			s, err := strconv.Unquote(x.Value)
			if err != nil {
				fail("%s: string literal %s", t.spec.Lean, x.Value)
			}
			return pure(leanString(s))
		case token.CHAR:
			s, _ := strconv.Unquote(x.Value)
			r := []rune(s)
			return pure(fmt.Sprintf("(Char.ofNat %d)", r[0]))
		}
	case *ast.Ident:
		switch x.Name {
		case "true", "false":
			return pure(x.Name)
		}
		if t.locals[x.Name] {
			return pure(mangle(x.Name))
		}
		if ln, ok := t.plean[x.Name]; ok {
			return pure(ln)
		}
		if cv, ok := t.pkg.consts[x.Name]; ok {
			return t.constExpr(cv)
		}
	case *ast.UnaryExpr:
		c := t.expr(x.X)
		switch x.Op {
		case token.NOT:
			c.val = "(!" + c.val + ")"
			return c
		case token.SUB:
			c.val = "(-" + c.val + ")"
			return c
		}
	case *ast.BinaryExpr:
		switch x.Op {
		case token.LAND, token.LOR:
			a, b := t.expr(x.X), t.expr(x.Y)
			op := " && "
			short := "false"
			if x.Op == token.LOR {
				op, short = " || ", "true"
			}
			if len(b.pre) == 0 {
				return comp{pre: a.pre, val: "(" + a.val + op + b.val + ")"}
			}
			// Go evaluates the right operand only when the left one does not decide
			n := t.freshName()
			var term string
			if x.Op == token.LAND {
				term = "if " + a.val + " then " + b.render() + " else some " + short
			} else {
				term = "if " + a.val + " then some " + short + " else " + b.render()
			}
			return comp{pre: append(append([]bind{}, a.pre...), bind{n, term}), val: n}
		}
		a, b := t.expr(x.X), t.expr(x.Y)
		switch x.Op {
		case token.EQL:
			return join2(a, b, func(p, q string) string { return "(" + p + " == " + q + ")" })
		case token.NEQ:
			return join2(a, b, func(p, q string) string { return "(" + p + " != " + q + ")" })
		case token.LSS:
			return join2(a, b, func(p, q string) string { return "decide (" + p + " < " + q + ")" })
		case token.LEQ:
			return join2(a, b, func(p, q string) string { return "decide (" + p + " ≤ " + q + ")" })
		case token.GTR:
			return join2(a, b, func(p, q string) string { return "decide (" + p + " > " + q + ")" })
		case token.GEQ:
			return join2(a, b, func(p, q string) string { return "decide (" + p + " ≥ " + q + ")" })
		case token.ADD:
			return join2(a, b, func(p, q string) string { return "(" + p + " + " + q + ")" })
		case token.SUB:
			return join2(a, b, func(p, q string) string { return "(" + p + " - " + q + ")" })
		case token.MUL:
			return join2(a, b, func(p, q string) string { return "(" + p + " * " + q + ")" })
		case token.QUO, token.REM:
			f := "Int.tdiv"
			if x.Op == token.REM {
				f = "Int.tmod"
			}
			c := join2(a, b, func(p, q string) string { return "(" + f + " " + p + " " + q + ")" })
			if !t.nonZeroConst(x.Y) {
				// integer division by zero panics
				n := t.freshName()
				return comp{pre: append(c.pre, bind{n, "if " + b.val + " == 0 then none else some " + c.val}), val: n}
			}
			return c
		}
	case *ast.SelectorExpr:
		if id, ok := x.X.(*ast.Ident); ok && t.locals[id.Name] {
			return pure(mangle(id.Name) + "." + mangle(lowerFirst(x.Sel.Name)))
		}
		if id, ok := x.X.(*ast.Ident); ok && t.plean[id.Name] != "" {
			return pure(t.plean[id.Name] + "." + mangle(lowerFirst(x.Sel.Name)))
		}
		// a field of a value produced by a leaf or a call (e.g. `hd.CacheControl.Value().maxAge`)
		if _, isCall := x.X.(*ast.CallExpr); isCall {
			c := t.expr(x.X)
			c.val = c.val + "." + mangle(lowerFirst(x.Sel.Name))
			return c
		}
	case *ast.CallExpr:
		return t.call(x)
	}
	fail("%s (%s): cannot translate expression `%s` (canonical form `%s`): no leaf rule and not in the supported subset", t.spec.Lean, t.spec.File, show(e), t.canon(e))
	return comp{}
}

func (t *tr) nonZeroConst(e ast.Expr) bool {
	c := t.tryConstInt(e)
	return c != nil && *c != 0
}

func (t *tr) tryConstInt(e ast.Expr) *int64 {
	switch x := e.(type) {
	case *ast.BasicLit:
		if x.Kind == token.INT {
			v, err := strconv.ParseInt(x.Value, 0, 64)
			if err == nil {
				return &v
			}
		}
	case *ast.ParenExpr:
		return t.tryConstInt(x.X)
	case *ast.Ident:
		if cv, ok := t.pkg.consts[x.Name]; ok && !t.locals[x.Name] {
			return t.tryConstInt(cv)
		}
	case *ast.BinaryExpr:
		a, b := t.tryConstInt(x.X), t.tryConstInt(x.Y)
		if a != nil && b != nil {
			var v int64
			switch x.Op {
			case token.MUL:
				v = *a * *b
			case token.ADD:
				v = *a + *b
			case token.SUB:
				v = *a - *b
			default:
				return nil
			}
			return &v
		}
	case *ast.SelectorExpr:
		// constant of another package reached through a leaf rule that is a literal
		if v, ok := t.spec.Leaves[t.canon(x)]; ok {
			if n, err := strconv.ParseInt(strings.Trim(v, "() :Int"), 10, 64); err == nil {
				return &n
			}
		}
	}
	return nil
}

// the value of a package-level constant, translated in place (so that a changed constant changes the definition)
func (t *tr) constExpr(e ast.Expr) comp {
	switch x := e.(type) {
	case *ast.CallExpr: // typed constant: T(value)
		if len(x.Args) == 1 {
			return t.constExpr(x.Args[0])
		}
	}
	return t.expr(e)
}

var convNames = map[string]bool{"int64": true, "int": true, "int32": true, "uint64": true, "time.Duration": true, "ByteSize": true, "bytesize.ByteSize": true, "duration.Duration": true, "string": true, "CacheType": true}

func (t *tr) call(x *ast.CallExpr) comp {
	fn := show(x.Fun)
	if convNames[fn] && len(x.Args) == 1 {
		return t.expr(x.Args[0])
	}
	// time arithmetic on instants / durations modelled as Int
	if sel, ok := x.Fun.(*ast.SelectorExpr); ok {
		switch {
		case fn == "time.Now" && len(x.Args) == 0:
			return pure("now")
		case fn == "time.Until" && len(x.Args) == 1:
			a := t.expr(x.Args[0])
			a.val = "(" + a.val + " - now)"
			return a
		case fn == "time.Since" && len(x.Args) == 1:
			a := t.expr(x.Args[0])
			a.val = "(now - " + a.val + ")"
			return a
		case len(x.Args) == 1 && (sel.Sel.Name == "Before" || sel.Sel.Name == "After" || sel.Sel.Name == "Add" || sel.Sel.Name == "Sub" || sel.Sel.Name == "Equal"):
			a, b := t.expr(sel.X), t.expr(x.Args[0])
			return join2(a, b, func(p, q string) string {
				switch sel.Sel.Name {
				case "Before":
					return "decide (" + p + " < " + q + ")"
				case "After":
					return "decide (" + p + " > " + q + ")"
				case "Add":
					return "(" + p + " + " + q + ")"
				case "Equal":
					return "(" + p + " == " + q + ")"
				}
				return "(" + p + " - " + q + ")"
			})
		}
	}
	// a function or method of the same package: translate it on demand
	key := ""
	var recvArg ast.Expr
	switch f := x.Fun.(type) {
	case *ast.Ident:
		if _, ok := t.pkg.funcs[f.Name]; ok {
			key = f.Name
		}
	case *ast.SelectorExpr:
		// method on the receiver of the function being translated
		if id, ok := f.X.(*ast.Ident); ok && id.Name == t.recv && t.fn != nil && t.fn.Recv != nil {
			k := recvTypeName(t.fn.Recv.List[0].Type) + "." + f.Sel.Name
			if _, ok := t.pkg.funcs[k]; ok {
				key, recvArg = k, f.X
			}
		}
	}
	if key != "" {
		lean := t.out.ensure(t, key)
		c := comp{}
		args := []string{}
		if recvArg != nil {
			a := t.expr(recvArg)
			c.pre = append(c.pre, a.pre...)
			args = append(args, a.val)
		}
		for _, a := range x.Args {
			ac := t.expr(a)
			c.pre = append(c.pre, ac.pre...)
			args = append(args, "("+ac.val+")")
		}
		callee := t.out.specs[key]
		if callee != nil && usesNow(callee) {
			args = append(args, "now")
		}
		n := t.freshName()
		c.pre = append(c.pre, bind{n, lean + " " + strings.Join(args, " ")})
		c.val = n
		return c
	}
	fail("%s (%s): cannot translate call `%s` (canonical form `%s`)", t.spec.Lean, t.spec.File, show(x), t.canon(x))
	return comp{}
}

func usesNow(s *Spec) bool {
	for _, b := range s.Binders {
		if strings.HasPrefix(b, "(now ") {
			return true
		}
	}
	return false
}

func matchAny(res []string, s string) bool {
	for _, r := range res {
		if regexp.MustCompile(r).MatchString(s) {
			return true
		}
	}
	return false
}

func terminates(stmts []ast.Stmt) bool {
	if len(stmts) == 0 {
		return false
	}
	switch s := stmts[len(stmts)-1].(type) {
	case *ast.ReturnStmt:
		return true
	case *ast.BlockStmt:
		return terminates(s.List)
	case *ast.IfStmt:
		if s.Else == nil {
			return false
		}
		var els []ast.Stmt
		switch e := s.Else.(type) {
		case *ast.BlockStmt:
			els = e.List
		default:
			els = []ast.Stmt{e}
		}
		return terminates(s.Body.List) && terminates(els)
	}
	return false
}

func (t *tr) zero(typ ast.Expr) string {
	switch show(typ) {
	case "int", "int64", "int32", "uint64", "time.Duration", "time.Time":
		return "(0 : Int)"
	case "bool":
		return "false"
	case "string":
		return "\"\""
	case "error":
		return "true"
	}
	fail("%s: zero value of type %s", t.spec.Lean, show(typ))
	return ""
}

func (t *tr) endValue() string {
	if len(t.named) > 0 {
		vs := []string{}
		for _, n := range t.named {
			vs = append(vs, mangle(n))
		}
		return "some (" + strings.Join(vs, ", ") + ")"
	}
	if len(t.pseudo) > 0 {
		vs := []string{}
		for _, n := range t.pseudo {
			vs = append(vs, n)
		}
		return "some (" + strings.Join(vs, ", ") + ")"
	}
	fail("%s (%s): control reaches the end of the function without a return", t.spec.Lean, t.spec.File)
	return ""
}

func (t *tr) retValue(e ast.Expr, kind string) comp {
	if kind == "err" {
		if id, ok := e.(*ast.Ident); ok {
			if id.Name == "nil" {
				return pure("true")
			}
			if t.locals[id.Name] {
				return pure(mangle(id.Name))
			}
			return pure("false") // a package-level error value
		}
		if call, ok := e.(*ast.CallExpr); ok {
			fn := show(call.Fun)
			if fn == "fmt.Errorf" || fn == "errors.New" {
				return pure("false")
			}
		}
	}
	return t.expr(e)
}

func (t *tr) stmts(list []ast.Stmt) string {
	if len(list) == 0 {
		return t.endValue()
	}
	s, rest := list[0], list[1:]
	switch x := s.(type) {
	case *ast.BlockStmt:
		return t.stmts(append(append([]ast.Stmt{}, x.List...), rest...))
	case *ast.EmptyStmt:
		return t.stmts(rest)
	case *ast.ReturnStmt:
		if len(x.Results) == 0 {
			return t.endValue()
		}
		if len(x.Results) != len(t.spec.Results) {
			fail("%s: return with %d values, spec declares %d", t.spec.Lean, len(x.Results), len(t.spec.Results))
		}
		c := comp{}
		vals := []string{}
		for i, r := range x.Results {
			rc := t.retValue(r, t.spec.Results[i])
			c.pre = append(c.pre, rc.pre...)
			vals = append(vals, rc.val)
		}
		c.val = strings.Join(vals, ", ")
		return c.render()
	case *ast.ExprStmt:
		txt := show(x)
		for re, eff := range t.spec.Effects {
			if regexp.MustCompile(re).MatchString(txt) {
				parts := strings.SplitN(eff, ":=", 2)
				return "let " + strings.TrimSpace(parts[0]) + " := " + strings.TrimSpace(parts[1]) + "\n  " + t.stmts(rest)
			}
		}
		if matchAny(t.spec.Ignore, txt) {
			return t.stmts(rest)
		}
		fail("%s (%s): expression statement `%s` is neither ignorable nor an effect of the spec", t.spec.Lean, t.spec.File, txt)
	case *ast.IncDecStmt:
		id, ok := x.X.(*ast.Ident)
		if !ok || !t.locals[id.Name] {
			fail("%s: %s", t.spec.Lean, show(x))
		}
		op := " + 1"
		if x.Tok == token.DEC {
			op = " - 1"
		}
		return "let " + mangle(id.Name) + " := " + mangle(id.Name) + op + "\n  " + t.stmts(rest)
	case *ast.DeclStmt:
		gd := x.Decl.(*ast.GenDecl)
		if gd.Tok != token.VAR {
			fail("%s: declaration %s", t.spec.Lean, show(x))
		}
		out := ""
		closeN := 0
		for _, sp := range gd.Specs {
			vs := sp.(*ast.ValueSpec)
			for i, nm := range vs.Names {
				var c comp
				if i < len(vs.Values) {
					c = t.expr(vs.Values[i])
				} else {
					c = pure(t.zero(vs.Type))
				}
				t.declare(nm.Name)
				for _, b := range c.pre {
					out += "Option.bind (" + b.term + ") (fun " + b.name + " =>\n  "
					closeN++
				}
				out += "let " + mangle(nm.Name) + " := " + c.val + "\n  "
			}
		}
		return out + t.stmts(rest) + strings.Repeat(")", closeN)
	case *ast.AssignStmt:
		if matchAny(t.spec.Ignore, show(x)) {
			return t.stmts(rest)
		}
		if len(x.Lhs) == 1 && len(x.Rhs) == 1 {
			id, ok := x.Lhs[0].(*ast.Ident)
			if !ok {
				fail("%s (%s): assignment to `%s` (only local variables can be assigned)", t.spec.Lean, t.spec.File, show(x.Lhs[0]))
			}
			var c comp
			switch x.Tok {
			case token.DEFINE, token.ASSIGN:
				c = t.expr(x.Rhs[0])
			case token.ADD_ASSIGN, token.SUB_ASSIGN, token.MUL_ASSIGN:
				op := map[token.Token]token.Token{token.ADD_ASSIGN: token.ADD, token.SUB_ASSIGN: token.SUB, token.MUL_ASSIGN: token.MUL}[x.Tok]
				c = t.expr(&ast.BinaryExpr{X: x.Lhs[0], Op: op, Y: x.Rhs[0]})
			default:
				fail("%s: assignment operator in %s", t.spec.Lean, show(x))
			}
			if x.Tok == token.DEFINE {
				t.declare(id.Name)
			} else if !t.locals[id.Name] {
				fail("%s (%s): assignment to non-local `%s`", t.spec.Lean, t.spec.File, id.Name)
			}
			if id.Name == "_" {
				return t.stmts(rest)
			}
			return c.andThen(func(v string) string { return "let " + mangle(id.Name) + " := " + v + "\n  " + t.stmts(rest) })
		}
		// a, b, c := f(args) with f translatable
		if len(x.Rhs) == 1 && x.Tok == token.DEFINE {
			if call, ok := x.Rhs[0].(*ast.CallExpr); ok {
				c := t.call(call)
				names := []string{}
				for _, l := range x.Lhs {
					id := l.(*ast.Ident)
					if id.Name != "_" {
						t.declare(id.Name)
					}
					names = append(names, mangle(id.Name))
				}
				return c.andThen(func(v string) string {
					return "match " + v + " with\n  | (" + strings.Join(names, ", ") + ") =>\n  " + t.stmts(rest)
				})
			}
		}
		fail("%s (%s): assignment `%s` not in the supported subset", t.spec.Lean, t.spec.File, show(x))
	case *ast.IfStmt:
		if x.Init != nil {
			inner := *x
			inner.Init = nil
			return t.stmts(append([]ast.Stmt{x.Init, &inner}, rest...))
		}
		c := t.expr(x.Cond)
		thenL := append([]ast.Stmt{}, x.Body.List...)
		var elseL []ast.Stmt
		if x.Else != nil {
			switch e := x.Else.(type) {
			case *ast.BlockStmt:
				elseL = append(elseL, e.List...)
			default:
				elseL = append(elseL, e)
			}
		}
		t.checkNoShadow(thenL)
		t.checkNoShadow(elseL)
		saved := t.snapshot()
		if !terminates(thenL) {
			thenL = append(thenL, rest...)
		}
		thenS := t.stmts(thenL)
		t.restore(saved)
		if !terminates(elseL) {
			elseL = append(elseL, rest...)
		}
		elseS := t.stmts(elseL)
		t.restore(saved)
		return c.andThen(func(v string) string { return "if " + v + " then\n  (" + thenS + ")\n  else\n  (" + elseS + ")" })
	case *ast.SwitchStmt:
		if x.Init != nil {
			fail("%s: switch with init", t.spec.Lean)
		}
		// rewrite into an if-else chain
		var chain ast.Stmt
		var last *ast.IfStmt
		var deflt []ast.Stmt
		for _, cc := range x.Body.List {
			cl := cc.(*ast.CaseClause)
			for _, st := range cl.Body {
				if br, ok := st.(*ast.BranchStmt); ok && br.Tok == token.FALLTHROUGH {
					fail("%s: fallthrough", t.spec.Lean)
				}
			}
			if cl.List == nil {
				deflt = cl.Body
				continue
			}
			var cond ast.Expr
			for _, v := range cl.List {
				var one ast.Expr = v
				if x.Tag != nil {
					one = &ast.BinaryExpr{X: x.Tag, Op: token.EQL, Y: v}
				}
				if cond == nil {
					cond = one
				} else {
					cond = &ast.BinaryExpr{X: cond, Op: token.LOR, Y: one}
				}
			}
			is := &ast.IfStmt{Cond: cond, Body: &ast.BlockStmt{List: cl.Body}}
			if last == nil {
				chain = is
			} else {
				last.Else = is
			}
			last = is
		}
		if last == nil {
			return t.stmts(append(deflt, rest...))
		}
		if deflt != nil {
			last.Else = &ast.BlockStmt{List: deflt}
		}
		return t.stmts(append([]ast.Stmt{chain}, rest...))
	}
	fail("%s (%s): statement `%s` is outside the supported subset", t.spec.Lean, t.spec.File, strings.SplitN(show(s), "{", 2)[0])
	return ""
}

func (t *tr) declare(n string) {
	t.locals[n] = true
}
func (t *tr) snapshot() map[string]bool {
	m := map[string]bool{}
	for k, v := range t.locals {
		m[k] = v
	}
	return m
}
func (t *tr) restore(m map[string]bool) {
	t.locals = map[string]bool{}
	for k, v := range m {
		t.locals[k] = v
	}
}

// a `:=` inside a nested block that re-declares a visible name would be scoped to the block in Go; the flattened
// let-sequence cannot express that, so it is refused
func (t *tr) checkNoShadow(list []ast.Stmt) {
	for _, s := range list {
		if a, ok := s.(*ast.AssignStmt); ok && a.Tok == token.DEFINE {
			for _, l := range a.Lhs {
				if id, ok := l.(*ast.Ident); ok && id.Name != "_" && t.locals[id.Name] {
					fail("%s (%s): `%s :=` shadows an outer variable inside a nested block", t.spec.Lean, t.spec.File, id.Name)
				}
			}
		}
	}
}


func (g *genOut) ensure(from *tr, key string) string {
	if n, ok := g.done[key]; ok {
		return n
	}
	sp, ok := g.specs[key]
	if !ok {
		fail("%s: calls %s, for which there is no translation spec", from.spec.Lean, key)
	}
	translate(g, from.pkg, sp, key)
	return g.done[key]
}

func findFuncLit(body *ast.BlockStmt) *ast.FuncLit {
	var fl *ast.FuncLit
	ast.Inspect(body, func(n ast.Node) bool {
		if fl != nil {
			return false
		}
		if f, ok := n.(*ast.FuncLit); ok {
			fl = f
			return false
		}
		return true
	})
	return fl
}

func translate(g *genOut, pkg *pkgInfo, sp *Spec, key string) {
	if _, ok := g.done[key]; ok {
		return
	}
	fn, ok := pkg.funcs[key]
	if !ok {
		fail("%s: function %s not found in %s", sp.Lean, key, pkg.dir)
	}
	t := &tr{spec: sp, pkg: pkg, fn: fn, locals: map[string]bool{}, plean: map[string]string{}, out: g}
	if fn.Recv != nil && len(fn.Recv.List) == 1 && len(fn.Recv.List[0].Names) == 1 {
		t.recv = fn.Recv.List[0].Names[0].Name
	}
	ftype, body := fn.Type, fn.Body
	if sp.FuncLit {
		fl := findFuncLit(fn.Body)
		if fl == nil {
			fail("%s: no function literal in %s", sp.Lean, key)
		}
		ftype, body = fl.Type, fl.Body
		t.recv = ""
	}
	for _, f := range ftype.Params.List {
		for _, n := range f.Names {
			t.params = append(t.params, n.Name)
		}
	}
	if !sp.FuncLit && sp.Expr == "" && sp.Cond == "" {
		// positional correspondence: receiver (if any) then the Go parameters <=> the first binders of the spec
		bn := []string{}
		for _, b := range sp.Binders {
			bn = append(bn, strings.TrimSpace(strings.SplitN(strings.TrimPrefix(b, "("), ":", 2)[0]))
		}
		k := 0
		if t.recv != "" {
			if len(bn) > 0 {
				t.plean[t.recv] = bn[0]
			}
			k = 1
		}
		for i, pn := range t.params {
			if k+i >= len(bn) {
				fail("%s: Go function %s has more parameters than the spec has binders", sp.Lean, key)
			}
			t.plean[pn] = bn[k+i]
		}
	}
	pre := ""
	if ftype.Results != nil {
		for _, f := range ftype.Results.List {
			for _, n := range f.Names {
				t.named = append(t.named, n.Name)
				t.locals[n.Name] = true
				pre += "let " + mangle(n.Name) + " := " + t.zero(f.Type) + "\n  "
			}
		}
	}
	pn := []string{}
	for n := range sp.Pseudo {
		pn = append(pn, n)
	}
	sort.Strings(pn)
	for _, n := range pn {
		t.pseudo = append(t.pseudo, n)
		pre += "let " + n + " := " + sp.Pseudo[n] + "\n  "
	}
	g.done[key] = "Rv.Generated.Src." + sp.Lean // before the body: recursion is refused by Lean anyway
	var bodyTerm string
	switch {
	case sp.Expr != "":
		var rhs ast.Expr
		ast.Inspect(body, func(n ast.Node) bool {
			if a, ok := n.(*ast.AssignStmt); ok && rhs == nil && len(a.Lhs) == 1 && len(a.Rhs) == 1 {
				if id, ok := a.Lhs[0].(*ast.Ident); ok && id.Name == sp.Expr {
					rhs = a.Rhs[0]
				}
			}
			return rhs == nil
		})
		if rhs == nil {
			fail("%s: no assignment to `%s` in %s", sp.Lean, sp.Expr, key)
		}
		bodyTerm = t.expr(rhs).render()
	case sp.Cond != "":
		var cond ast.Expr
		re := regexp.MustCompile(sp.Cond)
		ast.Inspect(body, func(n ast.Node) bool {
			if i, ok := n.(*ast.IfStmt); ok && cond == nil && re.MatchString(show(i.Cond)) {
				cond = i.Cond
			}
			return cond == nil
		})
		if cond == nil {
			fail("%s: no `if` condition matching %s in %s", sp.Lean, sp.Cond, key)
		}
		bodyTerm = t.expr(cond).render()
	default:
		bodyTerm = pre + t.stmts(body.List)
	}
	pos := fset.Position(fn.Pos())
	rel := sp.File
	doc := fmt.Sprintf("/-- translated from `%s` (%s:%d)%s -/\n", key, rel, pos.Line, map[bool]string{true: " — " + sp.Doc, false: ""}[sp.Doc != ""])
	def := doc + "def " + sp.Lean + " " + strings.Join(sp.Binders, " ") + " : Option (" + sp.Ret + ") :=\n  " + bodyTerm + "\n"
	g.defs = append(g.defs, def)
	g.order = append(g.order, key)
}

func (g *genOut) init() {
	g.done = map[string]string{}
}


func main() {
	repo := flag.String("repo", "/repo", "repository root")
	specFile := flag.String("spec", "", "translation specs (JSON)")
	out := flag.String("out", "", "output directory (Rv/Generated)")
	flag.Parse()
	repoRoot = *repo
	raw, err := os.ReadFile(*specFile)
	if err != nil {
		fmt.Fprintln(os.Stderr, "go2lean:", err)
		os.Exit(3)
	}
	var specs []*Spec
	if err := json.Unmarshal(raw, &specs); err != nil {
		fmt.Fprintln(os.Stderr, "go2lean: spec:", err)
		os.Exit(3)
	}
	groups := []string{}
	byGroup := map[string][]*Spec{}
	for _, s := range specs {
		if _, ok := byGroup[s.Group]; !ok {
			groups = append(groups, s.Group)
		}
		byGroup[s.Group] = append(byGroup[s.Group], s)
	}
	status := map[string]string{}
	for _, grp := range groups {
		path := filepath.Join(*out, "Src"+grp+".lean")
		os.Remove(path)
		text, msg := translateGroup(grp, byGroup[grp])
		if msg != "" {
			status[grp] = msg
			fmt.Fprintf(os.Stderr, "go2lean: group %s REFUSED: %s\n", grp, msg)
			continue
		}
		status[grp] = "ok"
		if err := os.WriteFile(path, []byte(text), 0o644); err != nil {
			fmt.Fprintln(os.Stderr, "go2lean:", err)
			os.Exit(3)
		}
	}
	js, _ := json.Marshal(status)
	fmt.Println(string(js))
	for _, v := range status {
		if v != "ok" {
			os.Exit(2)
		}
	}
}

func translateGroup(grp string, specs []*Spec) (text string, refused string) {
	defer func() {
		if r := recover(); r != nil {
			if rf, ok := r.(refusal); ok {
				text, refused = "", rf.msg
				return
			}
			panic(r)
		}
	}()
	var b strings.Builder
	b.WriteString("/- GENERATED by /verif/tools/go2lean from the current source of /repo. Do not edit.\n   Every definition is the translation of one Go function (or of one expression of it); `none` = Go run-time panic. -/\nimport Rv.Model.SrcViews\nnamespace Rv.Generated.Src\nopen Rv.SrcViews\n\n")
	byDir := map[string][]*Spec{}
	dirs := []string{}
	for _, s := range specs {
		d := filepath.Dir(s.File)
		if _, ok := byDir[d]; !ok {
			dirs = append(dirs, d)
		}
		byDir[d] = append(byDir[d], s)
	}
	for _, d := range dirs {
		pkg := loadPkg(filepath.Join(repoRoot, d))
		g := &genOut{}
		g.init()
		g.specs = map[string]*Spec{}
		keys := []string{}
		for _, s := range byDir[d] {
			k := s.Func
			if s.Recv != "" {
				k = s.Recv + "." + s.Func
			}
			if s.Expr != "" || s.Cond != "" {
				base := k
				k = k + "#" + s.Lean
				pkg.funcs[k] = pkg.funcs[base]
				if pkg.funcs[k] == nil {
					fail("%s: function %s not found in %s", s.Lean, base, d)
				}
			}
			g.specs[k] = s
			keys = append(keys, k)
		}
		for _, k := range keys {
			translate(g, pkg, g.specs[k], k)
		}
		for _, def := range g.defs {
			b.WriteString(def + "\n")
		}
	}
	b.WriteString("end Rv.Generated.Src\n")
	return b.String(), ""
}
