// go2lean — a small translator from a subset of Go to Lean 4 definitions.
//
// It REGENERATES, on every run, Lean definitions of the pure decision functions of /repo
// (Rv/Generated/Src.lean). Theorems in Rv/Props/Src*.lean state that each translated definition is
// extensionally equal to the hand-written model function the property theorems are about, so for these
// functions the tie between model and code is re-PROVED by the kernel against what the source says now,
// not sampled. The translator is untrusted in one direction only: whatever it cannot translate faithfully
// it refuses (exit 2, naming the construct), it never substitutes a default.
//
// Subset: functions without loops, goroutines, defers or pointer writes; statements: if/else (with init),
// switch, return (bare and with values), :=, =, var, ++, +=, expression statements listed as ignorable
// (logging, metrics) or mapped to an effect by the function's spec; expressions: literals, identifiers,
// package constants (resolved to their values from the source), selectors on locals, unary and binary
// operators with Go's short-circuit semantics, conversions, calls of other translatable functions of the
// same package (translated on demand), and the leaf table of the spec. Every translated function returns
// `Option T`: `none` stands for a Go run-time panic (ForceUnwrap of an absent Optional, division by zero).
// int64 arithmetic is translated to unbounded Int: overflow is outside this translation (stated in DESIGN.md).
//
// String parsers (added): a Go `string` whose Lean binder is `Str` (= List Char, one Char per BYTE) supports
// ==/!= with a literal, len, indexing and slicing (Option-valued: `none` exactly when Go panics), and
// `for i, ch := range s` / `for _, ch := range s` with continue, break, early return and assignments to outer
// variables. Each loop becomes an auxiliary STRUCTURALLY recursive definition over the remaining characters with
// the byte index and the loop-carried variables as parameters; it returns `Loop.ret v` (early return) or
// `Loop.done (carried...)`. CAVEAT stated in every generated loop: Go's range decodes RUNES, the translation steps
// one BYTE at a time; the two coincide exactly on ASCII input, so theorems about the Go function carry the
// hypothesis `∀ c ∈ s, c.toNat < 128`. `strings.SplitN(x, "c", 2)` is translated structurally (Rv.SrcStr.splitN2),
// a package-level `map[rune]int64` literal that nothing can modify is emitted as a Lean table and `v, ok := m[k]`
// becomes a lookup in that table; `for k, v := range m` over such a map is translated as a loop over an ORDER that
// is a parameter of the translated function (Go's order is unspecified: theorems must hold for every permutation).
// `errmode: "name"`: a (T, error) result becomes `Except String T`, the string being the NAME of the package-level
// error variable returned (directly or as the %w operand of fmt.Errorf); the value returned beside a non-nil error
// is dropped (it must be a pure expression).
//
// Labelling / age / If-Range of package proxy (added): `iota` constants (with Go's implicit repetition) are resolved to
// their values from the source; `typeutils.None[T]()`, `typeutils.Some(x)`, `.IsSome()`, `.IsNone()`, `.ForceUnwrap()`
// are Lean `Option` (ForceUnwrap is Option-valued: None = panic) — rules valid for the exact source text of
// utils/typeutils/optional.go, which is checked on every run; field paths rooted at a variable (`a.B.C.D`), resolved
// against the struct declarations of the package when the variable's type is known (promotion through embedded structs
// inserts the embedded field, an unknown field is refused); a method called on a variable of a struct type of the
// package is translated on demand (autoSpec: receiver binder from the caller's `structs` map); variables declared in a
// block may shadow parameters (kinds / types are scoped); the builtins max / min; `int(d.Seconds())` on a
// time.Duration = Rv.SrcStr.durSeconds (whole seconds, truncated; see its caveat); a leaf written "!term" maps a call
// returning (T, error) to an Option-valued Lean term and is accepted ONLY in the form
// `if v, err := f(args); err == nil { body }` (no else), translated to a match whose `some` arm is the body; spec mode
// `block`: one `if` STATEMENT of a function returning `error` is translated to Option String (none = control falls out
// of the statement, some "ErrX" = it returns that package-level error variable).
//
// Cache key / hop-by-hop (added): spec `str: true` makes the string literals and string locals of a function Rv.Str;
// `leafkinds` gives the kind of a leaf; `until: v` translates the body up to the first top-level assignment to v and
// returns v. On Str: `+` / `+=` is `++`; TRUSTED library meanings (the model's transcriptions of the standard library):
// strings.ToLower = Rv.toLower, path.Clean = Rv.Key.clean, strings.HasSuffix = Rv.Key.endsWith, strings.TrimSpace =
// Rv.trimSpace, strings.Split / strings.SplitSeq with a one-byte separator = Rv.splitOn, http.CanonicalHeaderKey =
// Rv.Headers.canonKey; fmt.Sprintf with a literal format made ONLY of text, %s (Str), %d (Int, decimal) and %% is the
// concatenation of its pieces, any other verb or flag is refused. `[]string{...}` literals are List Str. Range loops
// also run over a list-of-strings EXPRESSION (evaluated once, before the loop) and over strings.SplitSeq (one
// variable = the value), and may be NESTED (the inner loop is its own auxiliary function; a return inside it leaves
// both). `hdrparam: h`: the http.Header parameter h the function mutates is a loop-carriable local of kind Hdr
// (Rv.Headers.Hdr) initialised from its binder and is the result; `h.Values(k)` = values h (canonKey k), the statement
// `h.Del(k)` = `h := del h (canonKey k)` (http.Header canonicalises the name it is given); other mutations are refused.
//
// Cache-Control parser (added): a struct of the package mapped by `structs` held BY VALUE in a local is a Lean record
// (kind "S:<Lean type>", loop-carriable); `x.f = v` on it is the record update `{ x with f := v }` (through a pointer:
// refused). The VALUE variable of a range loop over a list of strings may be assigned in the body (go.mod >= 1.22: a
// per-iteration variable; a `let`, never carried). Names declared in a loop body are local to one iteration even when
// assigned later. `after, ok := strings.CutPrefix(s, p)` = Rv.cutPrefix, both results exact ((s, false) when absent).
// `v, err := strconv.ParseInt(s, 10, 64)` = Rv.CacheControl.parseInt64 (TRUSTED transcriptions), accepted ONLY when
// immediately followed by `if err != nil { ...terminating... }` whose block does not read v (the value Go returns
// beside a non-nil error is not modelled): a match whose `none` arm is that block. time.Nanosecond .. time.Hour are
// their values in ns (also as constant divisors).
//
// Cache-Status text / dispatch (added): in Str mode `make([]string, 0[, cap])` is the empty list, `append(xs, a, ...)`
// is `xs ++ [a, ...]`, `strings.Join(xs, sep)` = Rv.SrcStr.joinSep sep xs (TRUSTED meaning); the kind of an expression
// falls back on its syntactic Go type (struct field, Optional element) for integers and booleans. Spec `returns`
// turns a function into a DECIDER: every return statement must match exactly one regexp (on its canonical text) and
// yields the Lean value given for it ("{argK}" = the translated K-th argument of the returned call); the named results
// are then not computed.
//
// Conditionals (added): on a header of kind Hdr the builtin `delete(h, k)` is `del h k` (the map itself: NO
// canonicalisation) and the statement `h.Set(k, v)` is `set h (canonKey k) v`; `strconv.FormatInt(x, 10)` =
// Rv.intToDec x. Spec mode `hdrblock`/`hdrcount`/`hdrexpr`: `hdrcount` consecutive statements starting at the first
// `if` whose condition matches, translated as a function on the header the Go expression `hdrexpr` denotes (first
// binder); the statements must fall through (a return / break / go / defer inside them is refused).
package main

import (
	"bytes"
	"encoding/json"
	"flag"
	"fmt"
	"go/ast"
	"go/parser"
	"go/printer"
	"go/token"
	"os"
	"path/filepath"
	"reflect"
	"regexp"
	"sort"
	"strconv"
	"strings"
)

type Spec struct {
	File      string            `json:"file"`    // path below the repo root
	Recv      string            `json:"recv"`    // receiver type name ("" for a plain function)
	Func      string            `json:"func"`    // Go function name
	Lean      string            `json:"lean"`    // Lean definition name
	Binders   []string          `json:"binders"` // Lean binders: receiver first (if any), then one per Go parameter, then extras
	Ret       string            `json:"ret"`     // Lean result type (inside Option)
	Results   []string          `json:"results"` // per Go result: "val" | "err" (error => Bool: nil = true)
	Leaves    map[string]string `json:"leaves"`  // canonical Go expression => Lean term; a leading '?' marks an Option-valued term
	Ignore    []string          `json:"ignore"`  // regexps of expression statements without influence on the result
	Effects   map[string]string `json:"effects"` // regexp of a statement => "name := leanTerm" (sets a pseudo result)
	FuncLit   bool              `json:"funclit"` // translate the first function literal inside the body (middleware closures)
	Pseudo    map[string]string `json:"pseudo"`  // pseudo result variables with their initial Lean value (returned by bare return / end)
	Expr      string            `json:"expr"`    // if set: translate only the right-hand side of the first assignment to this variable
	Cond      string            `json:"cond"`    // if set: translate only the condition of the first `if` whose printed condition matches this regexp
	Block     string            `json:"block"`   // if set: translate only the first `if` STATEMENT whose printed condition matches this regexp, as a function to Option String: none = control falls out of the statement, some "ErrX" / some "nil" = it returns that error variable / nil
	Doc       string            `json:"doc"`
	Group     string            `json:"group"`     // output module: Rv/Generated/Src<Group>.lean
	ErrMode   string            `json:"errmode"`   // "" (error => Bool) | "name" ((T, error) => Except String T, the NAME of the error variable)
	Structs   map[string]string `json:"structs"`   // Go struct type name => Lean structure (composite literals)
	Imports   []string          `json:"imports"`   // extra Lean imports of the generated module
	StrMode   bool              `json:"str"`       // string literals and string locals of this function are Rv.Str (one Char per byte), not Lean String
	LeafKinds map[string]string `json:"leafkinds"` // canonical Go expression of a leaf => its kind ("Str", "Int", "Bool", "Hdr", "Strs")
	HdrBlock  string            `json:"hdrblock"`  // translate `hdrcount` consecutive statements starting at the first `if` whose printed condition matches this regexp, as a function on the header named by `hdrexpr`
	HdrCount  int               `json:"hdrcount"`
	HdrExpr   string            `json:"hdrexpr"`  // the Go expression that is the http.Header those statements mutate (e.g. "up.Header"); its binder is the FIRST binder of the spec
	Returns   map[string]string `json:"returns"`  // regexp on the CANONICAL text of a return statement => the Lean value it stands for (a decider: WHICH exit is taken); "{argK}" = the translated K-th argument of the returned call
	HdrParam  string            `json:"hdrparam"` // a Go parameter of type http.Header that the function mutates: a local of kind Hdr initialised from its binder, and the result of the translated function
	Until     string            `json:"until"`    // translate the body up to and including the first top-level assignment to this variable, and return it
	MapOrder  map[string]string `json:"maporder"` // Go map variable ranged over => name of the Lean binder (List (K × V)) giving the iteration order
}

var fset = token.NewFileSet()
var repoRoot string

type pkgInfo struct {
	dir     string
	files   []*ast.File
	consts  map[string]ast.Expr
	litVars []string
	funcs   map[string]*ast.FuncDecl // "Recv.Name" or "Name"
	structs map[string]*ast.StructType
	errVars map[string]bool              // package-level `var ErrX = errors.New(...)`
	mapVars map[string]*ast.CompositeLit // package-level `var m = map[K]V{...}`
	mapOK   map[string]string            // map variable => "" (checked: never modified) or the reason it may be
	fileOf  map[*ast.FuncDecl]*ast.File
	iotaOf  map[string]int      // constant => its index in its const block (the value of `iota` in its expression)
	named   map[string]ast.Expr // package-level named type => its definition
}

var pkgs = map[string]*pkgInfo{}

func loadPkg(dir string) *pkgInfo {
	if p, ok := pkgs[dir]; ok {
		return p
	}
	p := &pkgInfo{dir: dir, consts: map[string]ast.Expr{}, funcs: map[string]*ast.FuncDecl{}, structs: map[string]*ast.StructType{},
		errVars: map[string]bool{}, mapVars: map[string]*ast.CompositeLit{}, mapOK: map[string]string{}, fileOf: map[*ast.FuncDecl]*ast.File{},
		iotaOf: map[string]int{}, named: map[string]ast.Expr{}}
	ents, err := os.ReadDir(dir)
	if err != nil {
		fail("cannot read %s: %v", dir, err)
	}
	for _, e := range ents {
		n := e.Name()
		if !strings.HasSuffix(n, ".go") || strings.HasSuffix(n, "_test.go") || strings.HasPrefix(n, "verif_") {
			continue
		}
		f, err := parser.ParseFile(fset, filepath.Join(dir, n), nil, 0)
		if err != nil {
			fail("parse %s: %v", n, err)
		}
		p.files = append(p.files, f)
		for _, d := range f.Decls {
			switch d := d.(type) {
			case *ast.GenDecl:
				if d.Tok == token.TYPE {
					for _, s := range d.Specs {
						if ts, ok := s.(*ast.TypeSpec); ok {
							p.named[ts.Name.Name] = ts.Type
							if st, ok := ts.Type.(*ast.StructType); ok {
								p.structs[ts.Name.Name] = st
							}
						}
					}
				}
				if d.Tok != token.CONST && d.Tok != token.VAR {
					continue
				}
				var lastValues []ast.Expr
				for si, s := range d.Specs {
					vs := s.(*ast.ValueSpec)
					if d.Tok == token.CONST {
						// Go's implicit repetition: a const spec without values repeats the previous expression list, with
						// `iota` = the index of the spec in the block
						if len(vs.Values) > 0 {
							lastValues = vs.Values
						} else if lastValues != nil {
							for i, nm := range vs.Names {
								if i < len(lastValues) {
									p.consts[nm.Name] = lastValues[i]
									p.iotaOf[nm.Name] = si
								}
							}
							continue
						}
						for _, nm := range vs.Names {
							p.iotaOf[nm.Name] = si
						}
					}
					for i, nm := range vs.Names {
						if i < len(vs.Values) {
							if d.Tok == token.VAR {
								if call, ok := vs.Values[i].(*ast.CallExpr); ok && show(call.Fun) == "errors.New" {
									p.errVars[nm.Name] = true
								}
								if cl, ok := vs.Values[i].(*ast.CompositeLit); ok {
									if _, isMap := cl.Type.(*ast.MapType); isMap {
										p.mapVars[nm.Name] = cl
									}
								}
								// a package-level variable initialised with a literal counts as a constant only if nothing assigns to it (checked below)
								if _, lit := vs.Values[i].(*ast.BasicLit); !lit {
									continue
								}
								p.litVars = append(p.litVars, nm.Name)
							}
							p.consts[nm.Name] = vs.Values[i]
						}
					}
				}
			case *ast.FuncDecl:
				key := d.Name.Name
				if d.Recv != nil && len(d.Recv.List) == 1 {
					key = recvTypeName(d.Recv.List[0].Type) + "." + key
				}
				p.funcs[key] = d
				p.fileOf[d] = f
			}
		}
	}
	for _, f := range p.files {
		ast.Inspect(f, func(n ast.Node) bool {
			switch a := n.(type) {
			case *ast.AssignStmt:
				for _, l := range a.Lhs {
					if id, ok := l.(*ast.Ident); ok && a.Tok != token.DEFINE {
						for _, v := range p.litVars {
							if v == id.Name {
								delete(p.consts, v)
							}
						}
					}
				}
			case *ast.UnaryExpr:
				if id, ok := a.X.(*ast.Ident); ok && a.Op == token.AND {
					for _, v := range p.litVars {
						if v == id.Name {
							delete(p.consts, v)
						}
					}
				}
			}
			return true
		})
	}
	pkgs[dir] = p
	return p
}

func recvTypeName(e ast.Expr) string {
	switch t := e.(type) {
	case *ast.StarExpr:
		return recvTypeName(t.X)
	case *ast.Ident:
		return t.Name
	case *ast.IndexExpr:
		return recvTypeName(t.X)
	case *ast.IndexListExpr:
		return recvTypeName(t.X)
	}
	return "?"
}

type refusal struct{ msg string }

// the translator never guesses: anything outside the subset aborts the translation of the GROUP being translated
func fail(format string, a ...any) {
	panic(refusal{fmt.Sprintf(format, a...)})
}

func show(n any) string {
	var b bytes.Buffer
	printer.Fprint(&b, fset, n)
	return strings.Join(strings.Fields(b.String()), " ")
}

var leanKeywords = map[string]bool{"type": true, "exists": true, "rest_": true, "r_": true, "v_": true, "end": true, "from": true, "at": true, "do": true, "then": true, "else": true, "match": true, "with": true,
	"fun": true, "let": true, "in": true, "open": true, "section": true, "namespace": true, "instance": true, "class": true, "structure": true,
	"where": true, "have": true, "show": true, "by": true, "if": true, "def": true, "theorem": true, "Type": true, "Prop": true, "some": true, "none": true, "true": true, "false": true, "now": true}

func mangle(s string) string {
	if leanKeywords[s] {
		return s + "_"
	}
	return s
}

func lowerFirst(s string) string {
	if s == "" {
		return s
	}
	return strings.ToLower(s[:1]) + s[1:]
}

// a computation: Option-valued binds, then a pure value
type comp struct {
	pre []bind
	val string
}
type bind struct{ name, term string }

func pure(v string) comp { return comp{val: v} }

func (c comp) render() string { // as a term of type Option _
	out := "some (" + c.val + ")"
	for i := len(c.pre) - 1; i >= 0; i-- {
		out = "Option.bind (" + c.pre[i].term + ") (fun " + c.pre[i].name + " => " + out + ")"
	}
	return out
}

// continue with a term that may use c.val
func (c comp) andThen(k func(v string) string) string {
	out := k(c.val)
	for i := len(c.pre) - 1; i >= 0; i-- {
		out = "Option.bind (" + c.pre[i].term + ") (fun " + c.pre[i].name + " => " + out + ")"
	}
	return out
}

type tr struct {
	spec         *Spec
	pkg          *pkgInfo
	fn           *ast.FuncDecl
	recv         string
	params       []string
	locals       map[string]bool
	plean        map[string]string // Go parameter / receiver name => Lean binder name
	named        []string          // named results (Go names)
	fresh        int
	out          *genOut
	pseudo       []string
	kinds        map[string]string // Go variable => kind (kStr, kInt, ...); "" = unknown (legacy behaviour)
	declOrder    []string          // locals in declaration order (fixes the order of loop-carried parameters)
	used         map[string]bool   // identifiers read by translated expressions (to find the free variables of a loop body)
	loop         *loopCtx          // non-nil while the body of a range loop is translated
	nloops       int
	orderBinders []string            // extra binders: iteration orders of the maps ranged over
	iota         *int                // value of `iota` while a constant's expression is translated
	gotypes      map[string]ast.Expr // Go type of a parameter / local when it is known syntactically
	scopes       map[uintptr]scopeInfo
	blockMode    bool   // a single statement is translated (spec.block): see Spec.Block
	hdrAlias     string // the local standing for spec.hdrexpr while a hdrblock is translated
}

// kinds of values the string subset knows about
const (
	kStr    = "Str"    // Go string modelled as Rv.Str (List Char, one Char per byte)
	kString = "String" // Go string modelled as a Lean String (legacy: only ==, != with literals)
	kStrs   = "Strs"   // []string produced by strings.SplitN (List Str)
	kInt    = "Int"
	kBool   = "Bool"
	kRune   = "Rune"   // rune (range variable, rune parameter): arithmetic allowed (int32, cannot overflow on code points)
	kHdr    = "Hdr"    // http.Header as Rv.Headers.Hdr (list of (canonical name, value) pairs)
	kStrSeq = "StrSeq" // iter.Seq[string] produced by strings.SplitSeq (ranged over with ONE variable, the value)
	kByte   = "Byte"   // byte obtained by indexing a string: comparisons only (uint8 arithmetic wraps around)
)

type loopCtx struct {
	callTok string   // placeholder of "loopName fixedArgs" inside the body text
	tailVar string   // Lean name of the remaining elements
	index   string   // Lean name of the byte index parameter ("" if the loop has none)
	carried []string // Go names of the loop-carried variables
}

func leanTypeOfKind(k string) string {
	if strings.HasPrefix(k, "S:") { // a struct of the package mapped to a Lean structure by the spec
		return k[2:]
	}
	switch k {
	case kStr:
		return "Str"
	case kString:
		return "String"
	case kStrs, kStrSeq:
		return "List Str"
	case kHdr:
		return "Rv.Headers.Hdr"
	case kInt:
		return "Int"
	case kBool:
		return "Bool"
	case kRune, kByte:
		return "Char"
	}
	return ""
}

func kindOfGoType(e ast.Expr) string {
	if e == nil {
		return ""
	}
	switch show(e) {
	case "string":
		return kStr
	case "int", "int64", "int32":
		return kInt
	case "bool":
		return kBool
	case "rune":
		return kRune
	case "byte", "uint8":
		return kByte
	}
	return ""
}

type genOut struct {
	specs map[string]*Spec
	defs  []string
	done  map[string]string // go key => lean name
	order []string
	maps  map[string]bool // map literals already emitted
}

func (t *tr) freshName() string {
	t.fresh++
	return fmt.Sprintf("v%d_", t.fresh)
}

var identRe = regexp.MustCompile(`[A-Za-z_][A-Za-z0-9_]*`)

// canonical text of an expression: receiver => $r, i-th parameter => $i
func (t *tr) canon(e ast.Node) string {
	s := show(e)
	return identRe.ReplaceAllStringFunc(s, func(id string) string {
		if t.recv != "" && id == t.recv {
			return "$r"
		}
		for i, p := range t.params {
			if id == p {
				return "$" + strconv.Itoa(i)
			}
		}
		return id
	})
}

func (t *tr) leaf(e ast.Node) (comp, bool) {
	if t.spec.Leaves == nil {
		return comp{}, false
	}
	if v, ok := t.spec.Leaves[t.canon(e)]; ok {
		if strings.HasPrefix(v, "@const:") {
			// a constant of another package, resolved from ITS source: @const:<dir>:<Name>
			parts := strings.SplitN(v[len("@const:"):], ":", 2)
			other := loadPkg(filepath.Join(repoRoot, parts[0]))
			cv, ok := other.consts[parts[1]]
			if !ok {
				fail("%s: constant %s not found in %s", t.spec.Lean, parts[1], parts[0])
			}
			ot := &tr{spec: t.spec, pkg: other, locals: map[string]bool{}, plean: map[string]string{}, out: t.out, kinds: map[string]string{}, used: map[string]bool{}, gotypes: map[string]ast.Expr{}}
			return ot.namedConst(parts[1], cv), true
		}
		if strings.HasPrefix(v, "!") {
			fail("%s (%s): `%s` is a (value, error) leaf: it can only be used as `if v, err := %s; err == nil { ... }`", t.spec.Lean, t.spec.File, show(e), show(e))
		}
		if strings.HasPrefix(v, "?") {
			n := t.freshName()
			return comp{pre: []bind{{n, v[1:]}}, val: n}, true
		}
		return pure(v), true
	}
	return comp{}, false
}

func join2(a, b comp, f func(x, y string) string) comp {
	return comp{pre: append(append([]bind{}, a.pre...), b.pre...), val: f(a.val, b.val)}
}

func leanString(s string) string {
	var b strings.Builder
	b.WriteByte('"')
	for _, r := range s {
		switch {
		case r == '"':
			b.WriteString("\\\"")
		case r == '\\':
			b.WriteString("\\\\")
		case r == '\n':
			b.WriteString("\\n")
		case r == '\t':
			b.WriteString("\\t")
		case r == '\r':
			b.WriteString("\\r")
		case r < 32 || r > 126:
			fmt.Fprintf(&b, "\\u{%x}", r)
		default:
			b.WriteRune(r)
		}
	}
	b.WriteByte('"')
	return b.String()
}

func (t *tr) expr(e ast.Expr) comp {
	if c, ok := t.leaf(e); ok {
		return c
	}
	switch x := e.(type) {
	case *ast.ParenExpr:
		c := t.expr(x.X)
		c.val = "(" + c.val + ")"
		return c
	case *ast.BasicLit:
		switch x.Kind {
		case token.INT:
			v, err := strconv.ParseInt(x.Value, 0, 64)
			if err != nil {
				fail("%s: integer literal %s", t.spec.Lean, x.Value)
			}
			return pure(fmt.Sprintf("(%d : Int)", v))
		case token.STRING:
			s, err := strconv.Unquote(x.Value)
			if err != nil {
				fail("%s: string literal %s", t.spec.Lean, x.Value)
			}
			if t.spec.StrMode {
				return pure(strLitBytes(s))
			}
			return pure(leanString(s))
		case token.CHAR:
			return pure(charLit(t.charValue(x)))
		}
	case *ast.Ident:
		switch x.Name {
		case "true", "false":
			return pure(x.Name)
		}
		if t.locals[x.Name] {
			t.used[x.Name] = true
			return pure(mangle(x.Name))
		}
		if ln, ok := t.plean[x.Name]; ok {
			t.used[x.Name] = true
			return pure(ln)
		}
		if x.Name == "iota" && t.iota != nil && !t.locals["iota"] {
			return pure(fmt.Sprintf("(%d : Int)", *t.iota))
		}
		if cv, ok := t.pkg.consts[x.Name]; ok {
			return t.namedConst(x.Name, cv)
		}
	case *ast.IndexExpr:
		switch t.kindOf(x.X) {
		case kStr, kStrs:
			// s[i]: Go panics when i is out of range; the lookup is Option-valued, `none` exactly then
			a, b := t.expr(x.X), t.expr(x.Index)
			f := "Rv.SrcStr.byteAt"
			if t.kindOf(x.X) == kStrs {
				f = "Rv.SrcStr.strAt"
			}
			n := t.freshName()
			return comp{pre: append(append(append([]bind{}, a.pre...), b.pre...), bind{n, f + " " + a.val + " " + b.val}), val: n}
		}
		fail("%s (%s): index expression `%s`: the indexed value is not a string of kind Str nor a SplitN result (a map lookup is supported only as `v, ok := m[k]`)", t.spec.Lean, t.spec.File, show(x))
	case *ast.SliceExpr:
		if x.Slice3 || x.Max != nil {
			fail("%s (%s): 3-index slice `%s`", t.spec.Lean, t.spec.File, show(x))
		}
		if t.kindOf(x.X) != kStr {
			fail("%s (%s): slice expression `%s`: the sliced value is not a string of kind Str", t.spec.Lean, t.spec.File, show(x))
		}
		c := t.expr(x.X)
		n := t.freshName()
		switch {
		case x.Low != nil && x.High == nil:
			a := t.expr(x.Low)
			return comp{pre: append(append(c.pre, a.pre...), bind{n, "Rv.SrcStr.sliceFrom " + c.val + " " + a.val}), val: n}
		case x.Low == nil && x.High != nil:
			b := t.expr(x.High)
			return comp{pre: append(append(c.pre, b.pre...), bind{n, "Rv.SrcStr.sliceTo " + c.val + " " + b.val}), val: n}
		case x.Low != nil && x.High != nil:
			a, b := t.expr(x.Low), t.expr(x.High)
			return comp{pre: append(append(append(c.pre, a.pre...), b.pre...), bind{n, "Rv.SrcStr.slice " + c.val + " " + a.val + " " + b.val}), val: n}
		}
		return c // s[:] is s
	case *ast.CompositeLit:
		return t.compositeLit(x)
	case *ast.UnaryExpr:
		c := t.expr(x.X)
		switch x.Op {
		case token.NOT:
			c.val = "(!" + c.val + ")"
			return c
		case token.SUB:
			c.val = "(-" + c.val + ")"
			return c
		}
	case *ast.BinaryExpr:
		switch x.Op {
		case token.LAND, token.LOR:
			a, b := t.expr(x.X), t.expr(x.Y)
			op := " && "
			short := "false"
			if x.Op == token.LOR {
				op, short = " || ", "true"
			}
			if len(b.pre) == 0 {
				return comp{pre: a.pre, val: "(" + a.val + op + b.val + ")"}
			}
			// Go evaluates the right operand only when the left one does not decide
			n := t.freshName()
			var term string
			if x.Op == token.LAND {
				term = "if " + a.val + " then " + b.render() + " else some " + short
			} else {
				term = "if " + a.val + " then some " + short + " else " + b.render()
			}
			return comp{pre: append(append([]bind{}, a.pre...), bind{n, term}), val: n}
		}
		kx, ky := t.kindOf(x.X), t.kindOf(x.Y)
		if kx == kStr || ky == kStr {
			// strings of kind Str: only (in)equality, a literal operand becomes a list of bytes
			if x.Op == token.ADD {
				// concatenation of two strings of kind Str
				if kx != kStr || ky != kStr {
					fail("%s (%s): `%s`: + with an operand that is not known to be a string of kind Str", t.spec.Lean, t.spec.File, show(x))
				}
				a, b := t.strOperand(x.X), t.strOperand(x.Y)
				return join2(a, b, func(p, q string) string { return "(" + p + " ++ " + q + ")" })
			}
			if x.Op != token.EQL && x.Op != token.NEQ {
				fail("%s (%s): operator %s on strings in `%s` (only ==, != and + are supported)", t.spec.Lean, t.spec.File, x.Op, show(x))
			}
			a, b := t.strOperand(x.X), t.strOperand(x.Y)
			op := " == "
			if x.Op == token.NEQ {
				op = " != "
			}
			return join2(a, b, func(p, q string) string { return "(" + p + op + q + ")" })
		}
		if kx == kRune || ky == kRune || kx == kByte || ky == kByte {
			switch x.Op {
			case token.ADD, token.SUB:
				// rune arithmetic (int32 on code points cannot overflow); byte arithmetic wraps around modulo 256: refused
				if kx == kByte || ky == kByte {
					fail("%s (%s): arithmetic on a byte in `%s` (uint8 wraps around; not modelled)", t.spec.Lean, t.spec.File, show(x))
				}
				a, b := t.runeAsInt(x.X), t.runeAsInt(x.Y)
				op := " + "
				if x.Op == token.SUB {
					op = " - "
				}
				return join2(a, b, func(p, q string) string { return "(" + p + op + q + ")" })
			case token.EQL, token.NEQ, token.LSS, token.LEQ, token.GTR, token.GEQ:
				if !t.isCharLike(x.X) || !t.isCharLike(x.Y) {
					fail("%s (%s): comparison `%s` mixes a byte/rune with a value that is neither a byte/rune variable nor a character literal", t.spec.Lean, t.spec.File, show(x))
				}
			default:
				fail("%s (%s): operator %s on a byte/rune in `%s`", t.spec.Lean, t.spec.File, x.Op, show(x))
			}
		}
		a, b := t.expr(x.X), t.expr(x.Y)
		switch x.Op {
		case token.EQL:
			return join2(a, b, func(p, q string) string { return "(" + p + " == " + q + ")" })
		case token.NEQ:
			return join2(a, b, func(p, q string) string { return "(" + p + " != " + q + ")" })
		case token.LSS:
			return join2(a, b, func(p, q string) string { return "decide (" + p + " < " + q + ")" })
		case token.LEQ:
			return join2(a, b, func(p, q string) string { return "decide (" + p + " ≤ " + q + ")" })
		case token.GTR:
			return join2(a, b, func(p, q string) string { return "decide (" + p + " > " + q + ")" })
		case token.GEQ:
			return join2(a, b, func(p, q string) string { return "decide (" + p + " ≥ " + q + ")" })
		case token.ADD:
			return join2(a, b, func(p, q string) string { return "(" + p + " + " + q + ")" })
		case token.SUB:
			return join2(a, b, func(p, q string) string { return "(" + p + " - " + q + ")" })
		case token.MUL:
			return join2(a, b, func(p, q string) string { return "(" + p + " * " + q + ")" })
		case token.QUO, token.REM:
			f := "Int.tdiv"
			if x.Op == token.REM {
				f = "Int.tmod"
			}
			c := join2(a, b, func(p, q string) string { return "(" + f + " " + p + " " + q + ")" })
			if !t.nonZeroConst(x.Y) {
				// integer division by zero panics
				n := t.freshName()
				return comp{pre: append(c.pre, bind{n, "if " + b.val + " == 0 then none else some " + c.val}), val: n}
			}
			return c
		}
	case *ast.SelectorExpr:
		if show(x) == "math.MaxInt64" && t.imports("math") && !t.locals["math"] {
			return pure("(9223372036854775807 : Int)")
		}
		if v, ok := timeUnits[show(x)]; ok && t.imports("time") && !t.locals["time"] && t.plean["time"] == "" {
			return pure(fmt.Sprintf("(%d : Int)", v)) // a time.Duration constant, in nanoseconds
		}
		if t.rootedAtVar(x.X) {
			// a field path rooted at a local or a parameter. When the Go type of the base is a struct of the package
			// the path is resolved against its declaration (a field promoted through an embedded struct gets the
			// embedded field inserted; an unknown field is refused); otherwise it is copied field by field and Lean's
			// type checker decides whether the view has such a field.
			base := t.expr(x.X)
			path := []string{x.Sel.Name}
			if st := t.structOf(t.goTypeOf(x.X)); st != nil {
				pth, _, ok := t.resolveField(st, x.Sel.Name, 0)
				if !ok {
					fail("%s (%s): `%s`: the struct type of `%s` has no field %s", t.spec.Lean, t.spec.File, show(x), show(x.X), x.Sel.Name)
				}
				path = pth
			}
			for _, f := range path {
				base.val += "." + mangle(lowerFirst(f))
			}
			return base
		}
		// a field of a value produced by a leaf or a call (e.g. `hd.CacheControl.Value().maxAge`)
		if _, isCall := x.X.(*ast.CallExpr); isCall {
			c := t.expr(x.X)
			c.val = c.val + "." + mangle(lowerFirst(x.Sel.Name))
			return c
		}
	case *ast.CallExpr:
		return t.call(x)
	}
	fail("%s (%s): cannot translate expression `%s` (canonical form `%s`): no leaf rule and not in the supported subset", t.spec.Lean, t.spec.File, show(e), t.canon(e))
	return comp{}
}

// after, ok := strings.CutPrefix(s, p)  and  v, err := strconv.ParseInt(s, 10, 64)  (TRUSTED meanings: Rv.cutPrefix and
// Rv.CacheControl.parseInt64, the model's transcriptions of the two standard-library functions).
//   - CutPrefix returns (s, false) when the prefix is absent: both results are translated exactly.
//   - ParseInt returns a value beside a non-nil error (0, or the nearest int64 on a range error) that the transcription
//     does not give: the statement is accepted only when IMMEDIATELY followed by `if err != nil { ...terminating... }`
//     whose block does not read the value, so that the value is in scope only where err == nil.
func (t *tr) twoResultLib(x *ast.AssignStmt, rest []ast.Stmt) (string, bool) {
	call, ok := x.Rhs[0].(*ast.CallExpr)
	if !ok {
		return "", false
	}
	fn := show(call.Fun)
	if fn != "strings.CutPrefix" && fn != "strconv.ParseInt" {
		return "", false
	}
	local := strings.SplitN(fn, ".", 2)[0]
	if !t.importsAs(local, local) || t.locals[local] || t.plean[local] != "" {
		return "", false
	}
	where := fmt.Sprintf("%s (%s): `%s`", t.spec.Lean, t.spec.File, show(x))
	a, okA := x.Lhs[0].(*ast.Ident)
	b, okB := x.Lhs[1].(*ast.Ident)
	if !okA || !okB || a.Name == "_" || b.Name == "_" {
		fail("%s: both results must be named", where)
	}
	t.checkNoShadow([]ast.Stmt{x})
	if t.plean[a.Name] != "" || t.plean[b.Name] != "" {
		fail("%s: a result shadows a parameter", where)
	}
	strArg := func(e ast.Expr) comp {
		if _, isLit := e.(*ast.BasicLit); !isLit && t.kindOf(e) != kStr {
			fail("%s: the argument `%s` is not known to be a string of kind Str", where, show(e))
		}
		return t.strOperand(e)
	}
	if fn == "strings.CutPrefix" {
		if len(call.Args) != 2 {
			fail("%s: two arguments expected", where)
		}
		c := join2(strArg(call.Args[0]), strArg(call.Args[1]), func(p, q string) string {
			return "(match Rv.cutPrefix " + p + " " + q + " with | some a_ => (a_, true) | none => (" + p + ", false))"
		})
		t.declareK(a.Name, kStr)
		t.declareK(b.Name, kBool)
		return c.andThen(func(v string) string {
			return "match " + v + " with\n  | (" + mangle(a.Name) + ", " + mangle(b.Name) + ") =>\n  " + t.stmts(rest)
		}), true
	}
	// strconv.ParseInt(s, 10, 64)
	if len(call.Args) != 3 || show(call.Args[1]) != "10" || show(call.Args[2]) != "64" {
		fail("%s: only strconv.ParseInt(s, 10, 64) is supported", where)
	}
	if len(rest) == 0 {
		fail("%s: must be followed by `if %s != nil { ... }`", where, b.Name)
	}
	chk, okI := rest[0].(*ast.IfStmt)
	if !okI || chk.Init != nil || chk.Else != nil || show(chk.Cond) != b.Name+" != nil" || t.locals["nil"] || !terminates(chk.Body.List) {
		fail("%s: must be immediately followed by `if %s != nil { ... }` without else whose block ends in return / continue / break (the value beside a non-nil error is not modelled)", where, b.Name)
	}
	readsVal := false
	ast.Inspect(chk.Body, func(n ast.Node) bool {
		if id, ok := n.(*ast.Ident); ok && id.Name == a.Name {
			readsVal = true
		}
		return true
	})
	if readsVal {
		fail("%s: the error block reads `%s`, the value beside a non-nil error", where, a.Name)
	}
	arg := strArg(call.Args[0])
	saved := t.snapshot()
	t.declareK(b.Name, kBool) // an error as Bool: true = nil
	t.checkNoShadow(chk.Body.List)
	errS := t.stmts(append([]ast.Stmt{}, chk.Body.List...))
	t.restore(saved)
	t.declareK(a.Name, kInt)
	t.declareK(b.Name, kBool)
	okS := t.stmts(append([]ast.Stmt{}, rest[1:]...))
	return arg.andThen(func(v string) string {
		return "match Rv.CacheControl.parseInt64 " + v + " with\n  | none =>\n  (let " + mangle(b.Name) + " := false\n  " + errS + ")\n  | some " + mangle(a.Name) + " =>\n  (let " + mangle(b.Name) + " := true\n  " + okS + ")"
	}), true
}

// library functions on strings of kind Str, mapped onto the model's transcriptions of the Go standard library. TRUSTED
// leaf meanings (each is what the named Lean function's docstring says about the Go function):
//
//	strings.ToLower(x)        = Rv.toLower x          (ASCII lower-casing: equal to Go's on ASCII input)
//	path.Clean(x)             = Rv.Key.clean x        (the model's port of path.Clean)
//	strings.HasSuffix(x, lit) = Rv.Key.endsWith x lit
//	strings.TrimSpace(x)      = Rv.trimSpace x        (ASCII white space)
//	strings.Split(x, "c")     = Rv.splitOn 'c' x      (one-byte separator)
//	http.CanonicalHeaderKey(x)= Rv.Headers.canonKey x
//	fmt.Sprintf(f, args...)   for f made ONLY of literal text, %s (Str argument), %d (Int argument, decimal) and %%
func (t *tr) strLibCall(fn string, x *ast.CallExpr) (comp, bool) {
	pkgOf := map[string]string{"strings.SplitSeq": "strings", "strings.ToLower": "strings", "strings.HasSuffix": "strings", "strings.TrimSpace": "strings", "strings.Split": "strings",
		"path.Clean": "path", "fmt.Sprintf": "fmt", "http.CanonicalHeaderKey": "net/http"}
	pk, ok := pkgOf[fn]
	if !ok {
		return comp{}, false
	}
	local := strings.SplitN(fn, ".", 2)[0]
	if !t.importsAs(pk, local) || t.locals[local] || t.plean[local] != "" {
		return comp{}, false
	}
	where := fmt.Sprintf("%s (%s): `%s`", t.spec.Lean, t.spec.File, show(x))
	strArg := func(e ast.Expr) comp {
		if _, isLit := e.(*ast.BasicLit); !isLit && t.kindOf(e) != kStr {
			fail("%s: the argument `%s` is not known to be a string of kind Str", where, show(e))
		}
		return t.strOperand(e)
	}
	unary := func(lean string) (comp, bool) {
		if len(x.Args) != 1 {
			fail("%s: one argument expected", where)
		}
		a := strArg(x.Args[0])
		a.val = "(" + lean + " " + a.val + ")"
		return a, true
	}
	switch fn {
	case "strings.ToLower":
		return unary("Rv.toLower")
	case "path.Clean":
		return unary("Rv.Key.clean")
	case "strings.TrimSpace":
		return unary("Rv.trimSpace")
	case "http.CanonicalHeaderKey":
		return unary("Rv.Headers.canonKey")
	case "strings.HasSuffix":
		if len(x.Args) != 2 {
			fail("%s: two arguments expected", where)
		}
		return join2(strArg(x.Args[0]), strArg(x.Args[1]), func(p, q string) string { return "(Rv.Key.endsWith " + p + " " + q + ")" }), true
	case "strings.Split", "strings.SplitSeq": // SplitSeq yields the substrings Split returns, in the same order
		if len(x.Args) != 2 {
			fail("%s: two arguments expected", where)
		}
		sep, okSep := x.Args[1].(*ast.BasicLit)
		if len(x.Args) != 2 || !okSep || sep.Kind != token.STRING {
			fail("%s: only strings.Split(x, \"<one byte>\") is supported", where)
		}
		sv, err := strconv.Unquote(sep.Value)
		if err != nil || len(sv) != 1 || sv[0] >= 128 {
			fail("%s: the separator must be a single ASCII byte", where)
		}
		a := strArg(x.Args[0])
		a.val = "(Rv.splitOn " + charLit(rune(sv[0])) + " " + a.val + ")"
		return a, true
	case "fmt.Sprintf":
		if len(x.Args) < 1 {
			fail("%s: no format", where)
		}
		fl, okf := x.Args[0].(*ast.BasicLit)
		if !okf || fl.Kind != token.STRING {
			fail("%s: the format must be a string literal", where)
		}
		f, err := strconv.Unquote(fl.Value)
		if err != nil {
			fail("%s: format literal", where)
		}
		c := comp{}
		parts := []string{}
		lit := ""
		flush := func() {
			if lit != "" {
				parts = append(parts, strLitBytes(lit))
				lit = ""
			}
		}
		argi := 1
		for i := 0; i < len(f); i++ {
			if f[i] != '%' {
				lit += string(f[i])
				continue
			}
			if i+1 >= len(f) {
				fail("%s: the format ends in a lone %%", where)
			}
			i++
			switch f[i] {
			case '%':
				lit += "%"
			case 's', 'd':
				if argi >= len(x.Args) {
					fail("%s: more verbs than arguments", where)
				}
				flush()
				a := x.Args[argi]
				argi++
				if f[i] == 's' {
					ac := strArg(a)
					c.pre = append(c.pre, ac.pre...)
					parts = append(parts, ac.val)
				} else {
					if t.kindOf(a) != kInt {
						fail("%s: the %%d argument `%s` is not known to be an integer", where, show(a))
					}
					ac := t.expr(a)
					c.pre = append(c.pre, ac.pre...)
					parts = append(parts, "(Rv.intToDec "+ac.val+")")
				}
			default:
				fail("%s: verb or flag `%%%c` (only literal text, %%s, %%d and %%%% are supported)", where, f[i])
			}
		}
		flush()
		if argi != len(x.Args) {
			fail("%s: more arguments than verbs", where)
		}
		if len(parts) == 0 {
			parts = []string{"([] : Str)"}
		}
		c.val = "(" + strings.Join(parts, " ++ ") + ")"
		return c, true
	}
	return comp{}, false
}

// does the module say go >= 1.22 (per-iteration loop variables)?
func (t *tr) goVersionAtLeast122() bool {
	raw, err := os.ReadFile(filepath.Join(repoRoot, "go.mod"))
	if err != nil {
		return false
	}
	m := regexp.MustCompile(`(?m)^go\s+(\d+)\.(\d+)`).FindStringSubmatch(string(raw))
	if m == nil {
		return false
	}
	maj, _ := strconv.Atoi(m[1])
	min, _ := strconv.Atoi(m[2])
	return maj > 1 || (maj == 1 && min >= 22)
}

// is the expression a variable (local or parameter) or a field path below one?
func (t *tr) rootedAtVar(e ast.Expr) bool {
	switch x := e.(type) {
	case *ast.Ident:
		return t.locals[x.Name] || t.plean[x.Name] != ""
	case *ast.ParenExpr:
		return t.rootedAtVar(x.X)
	case *ast.SelectorExpr:
		return t.rootedAtVar(x.X)
	}
	return false
}

// the struct declaration behind a Go type expression of the package (T or *T), nil when unknown
func (t *tr) structOf(typ ast.Expr) *ast.StructType {
	switch x := typ.(type) {
	case *ast.StarExpr:
		return t.structOf(x.X)
	case *ast.ParenExpr:
		return t.structOf(x.X)
	case *ast.Ident:
		return t.pkg.structs[x.Name]
	case *ast.StructType:
		return x
	}
	return nil
}

func typeBaseName(typ ast.Expr) string {
	switch x := typ.(type) {
	case *ast.StarExpr:
		return typeBaseName(x.X)
	case *ast.ParenExpr:
		return typeBaseName(x.X)
	case *ast.Ident:
		return x.Name
	}
	return ""
}

// the path of field selectors that Go's selector `.name` stands for in struct st (promotion through embedded structs
// of the package), and the type of the field
func (t *tr) resolveField(st *ast.StructType, name string, depth int) ([]string, ast.Expr, bool) {
	if depth > 4 {
		return nil, nil, false
	}
	for _, f := range st.Fields.List {
		for _, nm := range f.Names {
			if nm.Name == name {
				return []string{name}, f.Type, true
			}
		}
		if len(f.Names) == 0 && typeBaseName(f.Type) == name {
			return []string{name}, f.Type, true
		}
	}
	var found []string
	var ftype ast.Expr
	n := 0
	for _, f := range st.Fields.List {
		if len(f.Names) == 0 {
			if est := t.structOf(f.Type); est != nil {
				if p, ty, ok := t.resolveField(est, name, depth+1); ok {
					found, ftype = append([]string{typeBaseName(f.Type)}, p...), ty
					n++
				}
			}
		}
	}
	if n == 1 {
		return found, ftype, true
	}
	return nil, nil, false
}

func optionalOf(elem ast.Expr) ast.Expr {
	return &ast.IndexExpr{X: &ast.SelectorExpr{X: ast.NewIdent("typeutils"), Sel: ast.NewIdent("Optional")}, Index: elem}
}

// typeutils.Optional[T] => T
func optionalElem(typ ast.Expr) ast.Expr {
	if ix, ok := typ.(*ast.IndexExpr); ok && show(ix.X) == "typeutils.Optional" {
		return ix.Index
	}
	return nil
}

// the Go type of an expression as far as it can be read off the syntax (declared types of parameters, struct fields
// of the package, results of package functions, typeutils.None/Some/ForceUnwrap); nil = unknown
func (t *tr) goTypeOf(e ast.Expr) ast.Expr {
	switch x := e.(type) {
	case *ast.ParenExpr:
		return t.goTypeOf(x.X)
	case *ast.Ident:
		if t.locals[x.Name] || t.plean[x.Name] != "" {
			return t.gotypes[x.Name]
		}
	case *ast.SelectorExpr:
		if st := t.structOf(t.goTypeOf(x.X)); st != nil {
			if _, ty, ok := t.resolveField(st, x.Sel.Name, 0); ok {
				return ty
			}
		}
	case *ast.CompositeLit:
		return x.Type
	case *ast.CallExpr:
		if ix, ok := x.Fun.(*ast.IndexExpr); ok && show(ix.X) == "typeutils.None" {
			return optionalOf(ix.Index)
		}
		if show(x.Fun) == "typeutils.Some" && len(x.Args) == 1 {
			if et := t.goTypeOf(x.Args[0]); et != nil {
				return optionalOf(et)
			}
		}
		if show(x.Fun) == "time.Now" && len(x.Args) == 0 && t.imports("time") && !t.locals["time"] {
			return &ast.SelectorExpr{X: ast.NewIdent("time"), Sel: ast.NewIdent("Time")}
		}
		if (show(x.Fun) == "time.Until" || show(x.Fun) == "time.Since") && len(x.Args) == 1 && t.imports("time") && !t.locals["time"] {
			return &ast.SelectorExpr{X: ast.NewIdent("time"), Sel: ast.NewIdent("Duration")}
		}
		if sel, ok := x.Fun.(*ast.SelectorExpr); ok {
			if sel.Sel.Name == "Sub" && len(x.Args) == 1 {
				if gt := t.goTypeOf(sel.X); gt != nil && show(gt) == "time.Time" {
					return &ast.SelectorExpr{X: ast.NewIdent("time"), Sel: ast.NewIdent("Duration")}
				}
			}
			if sel.Sel.Name == "ForceUnwrap" {
				if el := optionalElem(t.goTypeOf(sel.X)); el != nil {
					return el
				}
			}
			if tn := typeBaseName(t.goTypeOf(sel.X)); tn != "" {
				if fd := t.pkg.funcs[tn+"."+sel.Sel.Name]; fd != nil && fd.Type.Results != nil && len(fd.Type.Results.List) == 1 && len(fd.Type.Results.List[0].Names) <= 1 {
					return fd.Type.Results.List[0].Type
				}
			}
		}
		if id, ok := x.Fun.(*ast.Ident); ok && !t.locals[id.Name] {
			if fd := t.pkg.funcs[id.Name]; fd != nil && fd.Type.Results != nil && len(fd.Type.Results.List) == 1 && len(fd.Type.Results.List[0].Names) <= 1 {
				return fd.Type.Results.List[0].Type
			}
		}
	}
	return nil
}

// the Lean type of a Go type: basic types, named types of the package with a basic underlying type, structs mapped by
// the spec, typeutils.Optional of those; "" = outside the subset
func (t *tr) leanTypeOfGo(typ ast.Expr) string {
	if typ == nil {
		return ""
	}
	if el := optionalElem(typ); el != nil {
		if in := t.leanTypeOfGo(el); in != "" {
			return "Option (" + in + ")"
		}
		return ""
	}
	name := show(typ)
	switch name {
	case "int", "int64", "int32", "time.Duration", "time.Time":
		return "Int"
	case "bool":
		return "Bool"
	}
	if l, ok := t.spec.Structs[typeBaseName(typ)]; ok {
		return l
	}
	if id, ok := typ.(*ast.Ident); ok {
		if def, ok := t.pkg.named[id.Name]; ok {
			switch show(def) {
			case "int", "int64", "int32":
				return "Int"
			case "bool":
				return "Bool"
			}
		}
	}
	return ""
}

// the rules for typeutils.Optional are valid for THIS source text of the package (utils/typeutils/optional.go)
var optionalBodies = map[string]string{
	"Some":                 "{ return Optional[T]{value: value, some: true} }",
	"None":                 "{ var zero T return Optional[T]{value: zero, some: false} }",
	"Optional.IsSome":      "{ return o.some }",
	"Optional.IsNone":      "{ return !o.some }",
	"Optional.ForceUnwrap": "{ if !o.some { panic(ErrorUnwrapNone) } return o.value }",
}

func (t *tr) checkOptionalRule(name string) {
	if !t.importsAs("reservoir/utils/typeutils", "typeutils") || t.locals["typeutils"] {
		fail("%s (%s): `typeutils` is not the import of reservoir/utils/typeutils here", t.spec.Lean, t.spec.File)
	}
	tp := loadPkg(filepath.Join(repoRoot, "utils/typeutils"))
	fd := tp.funcs[name]
	if fd == nil || fd.Body == nil || show(fd.Body) != optionalBodies[name] {
		got := "<absent>"
		if fd != nil && fd.Body != nil {
			got = show(fd.Body)
		}
		fail("%s (%s): typeutils.%s is no longer the function the Option rule was written for (its body is `%s`)", t.spec.Lean, t.spec.File, name, got)
	}
}

func (t *tr) importsAs(path, name string) bool {
	f := t.pkg.fileOf[t.fn]
	if f == nil {
		return false
	}
	for _, im := range f.Imports {
		if p, _ := strconv.Unquote(im.Path.Value); p == path {
			if im.Name == nil {
				return filepath.Base(path) == name
			}
			return im.Name.Name == name
		}
	}
	return false
}

// does the file of the function being translated import the standard package `path` under its own name?
func (t *tr) imports(path string) bool {
	f := t.pkg.fileOf[t.fn]
	if f == nil {
		return false
	}
	for _, im := range f.Imports {
		if p, _ := strconv.Unquote(im.Path.Value); p == path && (im.Name == nil || im.Name.Name == path) {
			return true
		}
	}
	return false
}

func (t *tr) charValue(x *ast.BasicLit) rune {
	s, err := strconv.Unquote(x.Value)
	r := []rune(s)
	if err != nil || len(r) != 1 {
		fail("%s: character literal %s", t.spec.Lean, x.Value)
	}
	return r[0]
}

func charLit(r rune) string {
	switch {
	case r == '\t':
		return "'\\t'"
	case r >= 32 && r <= 126 && r != '\'' && r != '\\':
		return "'" + string(r) + "'"
	}
	return fmt.Sprintf("(Char.ofNat %d)", r)
}

// a Go string literal as Rv.Str: one Char per BYTE of the literal
func strLitBytes(s string) string {
	cs := []string{}
	for i := 0; i < len(s); i++ {
		cs = append(cs, charLit(rune(s[i])))
	}
	return "([" + strings.Join(cs, ", ") + "] : Str)"
}

func (t *tr) strOperand(e ast.Expr) comp {
	if p, ok := e.(*ast.ParenExpr); ok {
		return t.strOperand(p.X)
	}
	if bl, ok := e.(*ast.BasicLit); ok && bl.Kind == token.STRING {
		s, err := strconv.Unquote(bl.Value)
		if err != nil {
			fail("%s: string literal %s", t.spec.Lean, bl.Value)
		}
		return pure(strLitBytes(s))
	}
	if t.kindOf(e) != kStr {
		fail("%s (%s): `%s` is compared with a string of kind Str but is neither a literal nor of kind Str itself", t.spec.Lean, t.spec.File, show(e))
	}
	return t.expr(e)
}

func (t *tr) isCharLike(e ast.Expr) bool {
	if p, ok := e.(*ast.ParenExpr); ok {
		return t.isCharLike(p.X)
	}
	if bl, ok := e.(*ast.BasicLit); ok {
		return bl.Kind == token.CHAR
	}
	k := t.kindOf(e)
	return k == kRune || k == kByte
}

// a rune operand of + or - as an Int (its code point)
func (t *tr) runeAsInt(e ast.Expr) comp {
	if p, ok := e.(*ast.ParenExpr); ok {
		return t.runeAsInt(p.X)
	}
	if bl, ok := e.(*ast.BasicLit); ok && bl.Kind == token.CHAR {
		return pure(fmt.Sprintf("(%d : Int)", t.charValue(bl)))
	}
	if t.kindOf(e) != kRune {
		fail("%s (%s): `%s` is used in rune arithmetic but is neither a rune variable nor a character literal", t.spec.Lean, t.spec.File, show(e))
	}
	c := t.expr(e)
	c.val = "(" + c.val + ".toNat : Int)"
	return c
}

// the kind of a Go expression as far as the string subset needs it; "" = unknown
func (t *tr) kindOf(e ast.Expr) string {
	if k, ok := t.spec.LeafKinds[t.canon(e)]; ok {
		if _, isLeaf := t.spec.Leaves[t.canon(e)]; isLeaf {
			return k
		}
	}
	switch x := e.(type) {
	case *ast.ParenExpr:
		return t.kindOf(x.X)
	case *ast.Ident:
		if x.Name == "true" || x.Name == "false" {
			return kBool
		}
		if t.locals[x.Name] || t.plean[x.Name] != "" {
			return t.kinds[x.Name]
		}
	case *ast.BasicLit:
		switch x.Kind {
		case token.INT:
			return kInt
		case token.CHAR:
			return kRune
		case token.STRING:
			if t.spec.StrMode {
				return kStr
			}
			return kString
		}
	case *ast.IndexExpr:
		switch t.kindOf(x.X) {
		case kStr:
			return kByte
		case kStrs:
			return kStr
		}
	case *ast.CompositeLit:
		if t.spec.StrMode && show(x.Type) == "[]string" {
			return kStrs
		}
		if l, ok := t.spec.Structs[show(x.Type)]; ok && t.pkg.structs[show(x.Type)] != nil {
			return "S:" + l
		}
	case *ast.SliceExpr:
		if t.kindOf(x.X) == kStr {
			return kStr
		}
	case *ast.UnaryExpr:
		if x.Op == token.NOT {
			return kBool
		}
		if x.Op == token.SUB {
			return t.kindOf(x.X)
		}
	case *ast.BinaryExpr:
		switch x.Op {
		case token.EQL, token.NEQ, token.LSS, token.LEQ, token.GTR, token.GEQ, token.LAND, token.LOR:
			return kBool
		case token.ADD, token.SUB, token.MUL, token.QUO, token.REM:
			a, b := t.kindOf(x.X), t.kindOf(x.Y)
			if (a == kInt || a == kRune) && (b == kInt || b == kRune) {
				return kInt
			}
			if x.Op == token.ADD && a == kStr && b == kStr {
				return kStr
			}
		}
	case *ast.CallExpr:
		fn := show(x.Fun)
		switch {
		case fn == "len":
			return kInt
		case (fn == "int64" || fn == "int" || fn == "int32") && len(x.Args) == 1:
			if k := t.kindOf(x.Args[0]); k == kInt || k == kRune {
				return kInt
			}
		case fn == "strings.SplitN":
			return kStrs
		case t.spec.StrMode && (fn == "strings.ToLower" || fn == "path.Clean" || fn == "fmt.Sprintf" || fn == "strings.TrimSpace" || fn == "http.CanonicalHeaderKey"):
			return kStr
		case t.spec.StrMode && fn == "strings.HasSuffix":
			return kBool
		case t.spec.StrMode && fn == "strings.Split":
			return kStrs
		case t.spec.StrMode && fn == "strings.SplitSeq":
			return kStrSeq
		case t.spec.StrMode && fn == "strings.Join":
			return kStr
		case t.spec.StrMode && fn == "strconv.FormatInt":
			return kStr
		case t.spec.StrMode && fn == "make" && len(x.Args) >= 2 && show(x.Args[0]) == "[]string":
			return kStrs
		case t.spec.StrMode && fn == "append" && len(x.Args) >= 1 && t.kindOf(x.Args[0]) == kStrs:
			return kStrs
		}
		if sel, ok := x.Fun.(*ast.SelectorExpr); ok && sel.Sel.Name == "Values" && len(x.Args) == 1 && t.kindOf(sel.X) == kHdr {
			return kStrs
		}
		if id, ok := x.Fun.(*ast.Ident); ok {
			if fd, ok := t.pkg.funcs[id.Name]; ok && !t.locals[id.Name] && fd.Type.Results != nil && len(fd.Type.Results.List) == 1 && len(fd.Type.Results.List[0].Names) <= 1 {
				return kindOfGoType(fd.Type.Results.List[0].Type)
			}
		}
	}
	if t.spec.StrMode {
		// the syntactic Go type, when known (a struct field, the element of an Optional, ...): integers and booleans
		switch t.leanTypeOfGo(t.goTypeOf(e)) {
		case "Int":
			return kInt
		case "Bool":
			return kBool
		}
	}
	return ""
}

// T{...} for a struct type of the package mapped to a Lean structure by the spec; absent fields take their zero value
func (t *tr) compositeLit(x *ast.CompositeLit) comp {
	if t.spec.StrMode && show(x.Type) == "[]string" {
		c := comp{}
		els := []string{}
		for _, el := range x.Elts {
			if _, isKV := el.(*ast.KeyValueExpr); isKV {
				fail("%s (%s): slice literal `%s` with keys", t.spec.Lean, t.spec.File, show(x))
			}
			ec := t.strOperand(el)
			c.pre = append(c.pre, ec.pre...)
			els = append(els, ec.val)
		}
		c.val = "([" + strings.Join(els, ", ") + "] : List Str)"
		return c
	}
	tn := show(x.Type)
	lean, ok := t.spec.Structs[tn]
	st := t.pkg.structs[tn]
	if t.locals[tn] || t.plean[tn] != "" {
		// Go resolves the name to the variable: `v{...}` with v a variable does not compile; a variable declared by this
		// very statement (x := x{..}) is not yet in scope on the right-hand side, which is the one case that reaches here
		fail("%s (%s): composite literal `%s`: the type name %s is shadowed by a variable", t.spec.Lean, t.spec.File, show(x), tn)
	}
	if !ok || st == nil {
		fail("%s (%s): composite literal `%s`: type %s is not a struct of the package mapped by the spec (structs)", t.spec.Lean, t.spec.File, show(x), tn)
	}
	given := map[string]ast.Expr{}
	for _, el := range x.Elts {
		kv, ok := el.(*ast.KeyValueExpr)
		if !ok {
			fail("%s (%s): composite literal `%s`: positional fields are not supported", t.spec.Lean, t.spec.File, show(x))
		}
		given[show(kv.Key)] = kv.Value
	}
	c := comp{}
	fields := []string{}
	for _, f := range st.Fields.List {
		if len(f.Names) == 0 {
			fail("%s (%s): composite literal `%s`: embedded field", t.spec.Lean, t.spec.File, show(x))
		}
		for _, nm := range f.Names {
			v := ""
			if ge, ok := given[nm.Name]; ok {
				fc := t.expr(ge)
				c.pre = append(c.pre, fc.pre...)
				v = fc.val
				delete(given, nm.Name)
			} else {
				v = t.zero(f.Type)
			}
			fields = append(fields, mangle(lowerFirst(nm.Name))+" := "+v)
		}
	}
	if len(given) != 0 {
		fail("%s (%s): composite literal `%s`: unknown field", t.spec.Lean, t.spec.File, show(x))
	}
	c.val = "({ " + strings.Join(fields, ", ") + " } : " + lean + ")"
	return c
}

func (t *tr) nonZeroConst(e ast.Expr) bool {
	c := t.tryConstInt(e)
	return c != nil && *c != 0
}

var timeUnits = map[string]int64{"time.Nanosecond": 1, "time.Microsecond": 1000, "time.Millisecond": 1000000, "time.Second": 1000000000,
	"time.Minute": 60000000000, "time.Hour": 3600000000000}

func (t *tr) tryConstInt(e ast.Expr) *int64 {
	if sel, ok := e.(*ast.SelectorExpr); ok {
		if v, ok := timeUnits[show(sel)]; ok && t.imports("time") && !t.locals["time"] {
			return &v
		}
	}
	if c, ok := e.(*ast.CallExpr); ok && len(c.Args) == 1 && (show(c.Fun) == "int64" || show(c.Fun) == "int") && !t.locals[show(c.Fun)] {
		return t.tryConstInt(c.Args[0]) // a conversion of a constant
	}
	switch x := e.(type) {
	case *ast.BasicLit:
		if x.Kind == token.INT {
			v, err := strconv.ParseInt(x.Value, 0, 64)
			if err == nil {
				return &v
			}
		}
	case *ast.ParenExpr:
		return t.tryConstInt(x.X)
	case *ast.Ident:
		if x.Name == "iota" && t.iota != nil {
			v := int64(*t.iota)
			return &v
		}
		if cv, ok := t.pkg.consts[x.Name]; ok && !t.locals[x.Name] {
			saved := t.iota
			if k, ok := t.pkg.iotaOf[x.Name]; ok {
				t.iota = &k
			}
			r := t.tryConstInt(cv)
			t.iota = saved
			return r
		}
	case *ast.BinaryExpr:
		a, b := t.tryConstInt(x.X), t.tryConstInt(x.Y)
		if a != nil && b != nil {
			var v int64
			switch x.Op {
			case token.MUL:
				v = *a * *b
			case token.ADD:
				v = *a + *b
			case token.SUB:
				v = *a - *b
			default:
				return nil
			}
			return &v
		}
	case *ast.SelectorExpr:
		// constant of another package reached through a leaf rule that is a literal
		if v, ok := t.spec.Leaves[t.canon(x)]; ok {
			if n, err := strconv.ParseInt(strings.Trim(v, "() :Int"), 10, 64); err == nil {
				return &n
			}
		}
	}
	return nil
}

// a package-level constant by name: its expression is translated with `iota` = the index of its spec in its block
func (t *tr) namedConst(name string, cv ast.Expr) comp {
	saved := t.iota
	if k, ok := t.pkg.iotaOf[name]; ok {
		t.iota = &k
	} else {
		t.iota = nil
	}
	c := t.constExpr(cv)
	t.iota = saved
	return c
}

// the value of a package-level constant, translated in place (so that a changed constant changes the definition)
func (t *tr) constExpr(e ast.Expr) comp {
	switch x := e.(type) {
	case *ast.CallExpr: // typed constant: T(value)
		if len(x.Args) == 1 {
			return t.constExpr(x.Args[0])
		}
	}
	return t.expr(e)
}

var convNames = map[string]bool{"int64": true, "int": true, "int32": true, "uint64": true, "time.Duration": true, "ByteSize": true, "bytesize.ByteSize": true, "duration.Duration": true, "string": true, "CacheType": true}

func (t *tr) call(x *ast.CallExpr) comp {
	fn := show(x.Fun)
	if (fn == "int" || fn == "int64") && len(x.Args) == 1 {
		// int(d.Seconds()) on a time.Duration (nanoseconds): whole seconds, truncated toward zero
		if inner, ok := x.Args[0].(*ast.CallExpr); ok && len(inner.Args) == 0 {
			if sel, ok := inner.Fun.(*ast.SelectorExpr); ok && sel.Sel.Name == "Seconds" {
				if gt := t.goTypeOf(sel.X); gt == nil || show(gt) != "time.Duration" {
					fail("%s (%s): `%s`: the receiver of Seconds() is not known to be a time.Duration", t.spec.Lean, t.spec.File, show(x))
				}
				a := t.expr(sel.X)
				a.val = "(Rv.SrcStr.durSeconds " + a.val + ")"
				return a
			}
		}
	}
	if convNames[fn] && len(x.Args) == 1 {
		if fn == "string" && t.kindOf(x.Args[0]) != kString && t.kindOf(x.Args[0]) != kStr && t.kindOf(x.Args[0]) != "" {
			fail("%s (%s): conversion `%s` of a non-string to string", t.spec.Lean, t.spec.File, show(x))
		}
		if k := t.kindOf(x.Args[0]); (k == kRune || k == kByte) && fn != "string" {
			fail("%s (%s): conversion `%s` of a bare byte/rune (only `int64(ch - '0')`-style arithmetic is modelled)", t.spec.Lean, t.spec.File, show(x))
		}
		return t.expr(x.Args[0])
	}
	if (fn == "max" || fn == "min") && len(x.Args) >= 2 && !t.locals[fn] && t.plean[fn] == "" && t.pkg.funcs[fn] == nil {
		// the builtins max / min on integers
		c := t.expr(x.Args[0])
		for _, a := range x.Args {
			if k := t.kindOf(a); k != "" && k != kInt {
				fail("%s (%s): `%s`: %s of a value of kind %s", t.spec.Lean, t.spec.File, show(x), fn, k)
			}
		}
		for _, a := range x.Args[1:] {
			c = join2(c, t.expr(a), func(p, q string) string { return "(" + fn + " " + p + " " + q + ")" })
		}
		return c
	}
	if t.spec.StrMode {
		if c, ok := t.strLibCall(fn, x); ok {
			return c
		}
		// a []string built with make / append, joined with strings.Join (TRUSTED meaning: Rv.SrcStr.joinSep)
		if fn == "make" && !t.locals["make"] && len(x.Args) >= 2 && show(x.Args[0]) == "[]string" {
			if show(x.Args[1]) != "0" {
				fail("%s (%s): `%s`: only make([]string, 0[, cap]) (an empty slice) is supported", t.spec.Lean, t.spec.File, show(x))
			}
			return pure("([] : List Str)")
		}
		if fn == "append" && !t.locals["append"] && len(x.Args) >= 1 && t.kindOf(x.Args[0]) == kStrs {
			if x.Ellipsis.IsValid() {
				fail("%s (%s): `%s`: append with a spread argument", t.spec.Lean, t.spec.File, show(x))
			}
			c := t.expr(x.Args[0])
			els := []string{}
			for _, a := range x.Args[1:] {
				if _, isLit := a.(*ast.BasicLit); !isLit && t.kindOf(a) != kStr {
					fail("%s (%s): `%s`: the appended value `%s` is not known to be a string of kind Str", t.spec.Lean, t.spec.File, show(x), show(a))
				}
				ac := t.strOperand(a)
				c.pre = append(c.pre, ac.pre...)
				els = append(els, ac.val)
			}
			c.val = "(" + c.val + " ++ [" + strings.Join(els, ", ") + "])"
			return c
		}
		// strconv.FormatInt(x, 10): the decimal text of an integer (TRUSTED meaning: Rv.intToDec, the model's port)
		if fn == "strconv.FormatInt" && t.importsAs("strconv", "strconv") && !t.locals["strconv"] && len(x.Args) == 2 {
			if show(x.Args[1]) != "10" {
				fail("%s (%s): `%s`: only base 10 is supported", t.spec.Lean, t.spec.File, show(x))
			}
			if t.kindOf(x.Args[0]) != kInt {
				fail("%s (%s): `%s`: the argument is not known to be an integer", t.spec.Lean, t.spec.File, show(x))
			}
			a := t.expr(x.Args[0])
			a.val = "(Rv.intToDec " + a.val + ")"
			return a
		}
		if fn == "strings.Join" && t.importsAs("strings", "strings") && !t.locals["strings"] && len(x.Args) == 2 {
			if t.kindOf(x.Args[0]) != kStrs {
				fail("%s (%s): `%s`: the joined value is not known to be a []string", t.spec.Lean, t.spec.File, show(x))
			}
			return join2(t.expr(x.Args[0]), t.strOperand(x.Args[1]), func(p, q string) string { return "(Rv.SrcStr.joinSep " + q + " " + p + ")" })
		}
		// h.Values(name) on a header of kind Hdr: http.Header canonicalises the name it is given
		if sel, ok := x.Fun.(*ast.SelectorExpr); ok && sel.Sel.Name == "Values" && len(x.Args) == 1 && t.kindOf(sel.X) == kHdr {
			if _, isLit := x.Args[0].(*ast.BasicLit); !isLit && t.kindOf(x.Args[0]) != kStr {
				fail("%s (%s): `%s`: the name is not known to be a string of kind Str", t.spec.Lean, t.spec.File, show(x))
			}
			return join2(t.expr(sel.X), t.strOperand(x.Args[0]), func(p, q string) string {
				return "(Rv.Headers.values " + p + " (Rv.Headers.canonKey " + q + "))"
			})
		}
	}
	if fn == "len" && len(x.Args) == 1 && !t.locals["len"] {
		k := t.kindOf(x.Args[0])
		if k != kStr && k != kStrs {
			fail("%s (%s): `%s`: len of a value that is neither a string of kind Str nor a SplitN result", t.spec.Lean, t.spec.File, show(x))
		}
		a := t.expr(x.Args[0])
		a.val = "(" + a.val + ".length : Int)"
		return a
	}
	if fn == "strings.SplitN" && t.imports("strings") && !t.locals["strings"] && len(x.Args) == 3 {
		// strings.SplitN(x, sep, 2) with a one-byte literal separator: [x] when sep does not occur, else [before, after]
		sep, okSep := x.Args[1].(*ast.BasicLit)
		n, okN := x.Args[2].(*ast.BasicLit)
		if !okSep || !okN || sep.Kind != token.STRING || n.Kind != token.INT || n.Value != "2" {
			fail("%s (%s): `%s`: only strings.SplitN(x, \"<one byte>\", 2) is supported", t.spec.Lean, t.spec.File, show(x))
		}
		sv, err := strconv.Unquote(sep.Value)
		if err != nil || len(sv) != 1 || sv[0] >= 128 {
			fail("%s (%s): `%s`: the separator must be a single ASCII byte", t.spec.Lean, t.spec.File, show(x))
		}
		if t.kindOf(x.Args[0]) != kStr {
			fail("%s (%s): `%s`: the split value is not a string of kind Str", t.spec.Lean, t.spec.File, show(x))
		}
		a := t.expr(x.Args[0])
		a.val = "(Rv.SrcStr.splitN2 " + charLit(rune(sv[0])) + " " + a.val + ")"
		return a
	}
	// typeutils.Optional as Lean Option: None[T]() = none, Some(x) = some x, IsSome/IsNone, ForceUnwrap (panics on None:
	// Option-valued, `none` = the panic)
	if ix, ok := x.Fun.(*ast.IndexExpr); ok && show(ix.X) == "typeutils.None" && len(x.Args) == 0 {
		t.checkOptionalRule("None")
		lt := t.leanTypeOfGo(ix.Index)
		if lt == "" {
			fail("%s (%s): `%s`: element type %s is outside the subset", t.spec.Lean, t.spec.File, show(x), show(ix.Index))
		}
		return pure("(none : Option (" + lt + "))")
	}
	if fn == "typeutils.Some" && len(x.Args) == 1 {
		t.checkOptionalRule("Some")
		a := t.expr(x.Args[0])
		a.val = "(some " + a.val + ")"
		return a
	}
	if sel, ok := x.Fun.(*ast.SelectorExpr); ok && len(x.Args) == 0 && (sel.Sel.Name == "IsSome" || sel.Sel.Name == "IsNone" || sel.Sel.Name == "ForceUnwrap") {
		if optionalElem(t.goTypeOf(sel.X)) != nil {
			t.checkOptionalRule("Optional." + sel.Sel.Name)
			a := t.expr(sel.X)
			switch sel.Sel.Name {
			case "IsSome":
				a.val = a.val + ".isSome"
				return a
			case "IsNone":
				a.val = a.val + ".isNone"
				return a
			}
			n := t.freshName()
			return comp{pre: append(a.pre, bind{n, a.val}), val: n}
		}
	}
	// time arithmetic on instants / durations modelled as Int
	if sel, ok := x.Fun.(*ast.SelectorExpr); ok {
		switch {
		case fn == "time.Now" && len(x.Args) == 0:
			return pure("now")
		case fn == "time.Until" && len(x.Args) == 1:
			a := t.expr(x.Args[0])
			a.val = "(" + a.val + " - now)"
			return a
		case fn == "time.Since" && len(x.Args) == 1:
			a := t.expr(x.Args[0])
			a.val = "(now - " + a.val + ")"
			return a
		case len(x.Args) == 1 && (sel.Sel.Name == "Before" || sel.Sel.Name == "After" || sel.Sel.Name == "Add" || sel.Sel.Name == "Sub" || sel.Sel.Name == "Equal"):
			a, b := t.expr(sel.X), t.expr(x.Args[0])
			return join2(a, b, func(p, q string) string {
				switch sel.Sel.Name {
				case "Before":
					return "decide (" + p + " < " + q + ")"
				case "After":
					return "decide (" + p + " > " + q + ")"
				case "Add":
					return "(" + p + " + " + q + ")"
				case "Equal":
					return "(" + p + " == " + q + ")"
				}
				return "(" + p + " - " + q + ")"
			})
		}
	}
	// a function or method of the same package: translate it on demand
	key := ""
	var recvArg ast.Expr
	switch f := x.Fun.(type) {
	case *ast.Ident:
		if _, ok := t.pkg.funcs[f.Name]; ok {
			key = f.Name
		}
	case *ast.SelectorExpr:
		// method on the receiver of the function being translated
		if id, ok := f.X.(*ast.Ident); ok && id.Name == t.recv && t.fn != nil && t.fn.Recv != nil {
			k := recvTypeName(t.fn.Recv.List[0].Type) + "." + f.Sel.Name
			if _, ok := t.pkg.funcs[k]; ok {
				key, recvArg = k, f.X
			}
		}
		// method on a variable (or a field path below one) whose type is a struct of the package
		if key == "" && t.rootedAtVar(f.X) {
			if tn := typeBaseName(t.goTypeOf(f.X)); tn != "" && t.pkg.structs[tn] != nil {
				k := tn + "." + f.Sel.Name
				if _, ok := t.pkg.funcs[k]; ok {
					key, recvArg = k, f.X
				}
			}
		}
	}
	if key != "" {
		if cs := t.out.specs[key]; cs != nil && cs.ErrMode != "" {
			fail("%s (%s): call of %s whose translation uses errmode %q (its result is not a tuple)", t.spec.Lean, t.spec.File, key, cs.ErrMode)
		}
		lean := t.out.ensure(t, key)
		c := comp{}
		args := []string{}
		if recvArg != nil {
			a := t.expr(recvArg)
			c.pre = append(c.pre, a.pre...)
			args = append(args, a.val)
		}
		for _, a := range x.Args {
			ac := t.expr(a)
			c.pre = append(c.pre, ac.pre...)
			args = append(args, "("+ac.val+")")
		}
		callee := t.out.specs[key]
		if callee != nil && usesNow(callee) {
			args = append(args, "now")
		}
		n := t.freshName()
		c.pre = append(c.pre, bind{n, lean + " " + strings.Join(args, " ")})
		c.val = n
		return c
	}
	fail("%s (%s): cannot translate call `%s` (canonical form `%s`)", t.spec.Lean, t.spec.File, show(x), t.canon(x))
	return comp{}
}

func usesNow(s *Spec) bool {
	for _, b := range s.Binders {
		if strings.HasPrefix(b, "(now ") {
			return true
		}
	}
	return false
}

func matchAny(res []string, s string) bool {
	for _, r := range res {
		if regexp.MustCompile(r).MatchString(s) {
			return true
		}
	}
	return false
}

func terminates(stmts []ast.Stmt) bool {
	if len(stmts) == 0 {
		return false
	}
	switch s := stmts[len(stmts)-1].(type) {
	case *ast.ReturnStmt:
		return true
	case *ast.BranchStmt:
		return s.Label == nil && (s.Tok == token.CONTINUE || s.Tok == token.BREAK)
	case *ast.BlockStmt:
		return terminates(s.List)
	case *ast.IfStmt:
		if s.Else == nil {
			return false
		}
		var els []ast.Stmt
		switch e := s.Else.(type) {
		case *ast.BlockStmt:
			els = e.List
		default:
			els = []ast.Stmt{e}
		}
		return terminates(s.Body.List) && terminates(els)
	}
	return false
}

func (t *tr) zero(typ ast.Expr) string {
	switch show(typ) {
	case "int", "int64", "int32", "uint64", "time.Duration", "time.Time":
		return "(0 : Int)"
	case "bool":
		return "false"
	case "string":
		return "\"\""
	case "error":
		return "true"
	}
	switch lt := t.leanTypeOfGo(typ); {
	case lt == "Int":
		return "(0 : Int)"
	case lt == "Bool":
		return "false"
	case strings.HasPrefix(lt, "Option ("):
		return "(none : " + lt + ")"
	}
	fail("%s: zero value of type %s", t.spec.Lean, show(typ))
	return ""
}

// the value of the loop-carried variables as they stand (let-shadowing keeps the current value under the Go name)
func (t *tr) carriedTuple() string {
	vs := []string{}
	for _, n := range t.loop.carried {
		vs = append(vs, mangle(n))
	}
	if len(vs) == 0 {
		return "()"
	}
	return "(" + strings.Join(vs, ", ") + ")"
}

// next iteration: the auxiliary function on the remaining elements
func (t *tr) continueTerm() string {
	out := t.loop.callTok + " " + t.loop.tailVar
	if t.loop.index != "" {
		out += " (" + t.loop.index + " + 1)"
	}
	for _, n := range t.loop.carried {
		out += " " + mangle(n)
	}
	return out
}

// wrap a returned value: `some v` in a function body, `some (Loop.ret v)` inside a loop
func (t *tr) wrapReturn(c comp) string {
	if t.loop != nil {
		c.val = "Rv.SrcStr.Loop.ret (" + c.val + ")"
	}
	return c.render()
}

func (t *tr) endValue() string {
	if t.loop != nil {
		return t.continueTerm()
	}
	if t.blockMode {
		return "some (none)" // control falls out of the translated statement
	}
	if len(t.named) > 0 {
		vs := []string{}
		for _, n := range t.named {
			vs = append(vs, mangle(n))
		}
		return "some (" + strings.Join(vs, ", ") + ")"
	}
	if len(t.pseudo) > 0 {
		vs := []string{}
		for _, n := range t.pseudo {
			vs = append(vs, n)
		}
		return "some (" + strings.Join(vs, ", ") + ")"
	}
	fail("%s (%s): control reaches the end of the function without a return", t.spec.Lean, t.spec.File)
	return ""
}

func (t *tr) retValue(e ast.Expr, kind string) comp {
	if kind == "err" {
		if id, ok := e.(*ast.Ident); ok {
			if id.Name == "nil" {
				return pure("true")
			}
			if t.locals[id.Name] {
				return pure(mangle(id.Name))
			}
			return pure("false") // a package-level error value
		}
		if call, ok := e.(*ast.CallExpr); ok {
			fn := show(call.Fun)
			if fn == "fmt.Errorf" || fn == "errors.New" {
				return pure("false")
			}
		}
	}
	return t.expr(e)
}

func (t *tr) stmts(list []ast.Stmt) string {
	if len(list) == 0 {
		return t.endValue()
	}
	s, rest := list[0], list[1:]
	switch x := s.(type) {
	case *ast.BlockStmt:
		return t.stmts(append(append([]ast.Stmt{}, x.List...), rest...))
	case *ast.EmptyStmt:
		return t.stmts(rest)
	case *ast.ReturnStmt:
		if len(t.spec.Returns) > 0 {
			// a decider: every return statement must be named by exactly one rule of the spec
			txt := t.canon(x)
			keys := []string{}
			for re := range t.spec.Returns {
				if regexp.MustCompile(re).MatchString(txt) {
					keys = append(keys, re)
				}
			}
			if len(keys) != 1 {
				fail("%s (%s): `%s` (canonical `%s`) is matched by %d rules of the spec's `returns` (exactly one is needed)", t.spec.Lean, t.spec.File, show(x), txt, len(keys))
			}
			term := t.spec.Returns[keys[0]]
			c := comp{}
			for _, m := range regexp.MustCompile(`\{arg(\d+)\}`).FindAllStringSubmatch(term, -1) {
				k, _ := strconv.Atoi(m[1])
				call, ok := (ast.Expr)(nil), false
				if len(x.Results) == 1 {
					call, ok = x.Results[0].(*ast.CallExpr)
				}
				if !ok || k >= len(call.(*ast.CallExpr).Args) {
					fail("%s (%s): `%s`: the rule uses %s but the statement does not return a call with that many arguments", t.spec.Lean, t.spec.File, show(x), m[0])
				}
				ac := t.expr(call.(*ast.CallExpr).Args[k])
				c.pre = append(c.pre, ac.pre...)
				term = strings.ReplaceAll(term, m[0], "("+ac.val+")")
			}
			c.val = term
			return t.wrapReturn(c)
		}
		if len(x.Results) == 0 {
			if t.spec.ErrMode != "" {
				fail("%s: bare return with errmode %q", t.spec.Lean, t.spec.ErrMode)
			}
			if t.loop != nil {
				saved := t.loop
				t.loop = nil
				v := t.endValue() // "some (named results)"
				t.loop = saved
				return "some (Rv.SrcStr.Loop.ret " + strings.TrimPrefix(v, "some ") + ")"
			}
			return t.endValue()
		}
		if t.blockMode {
			if t.loop != nil || len(x.Results) != 1 {
				fail("%s (%s): `%s` inside a block translation", t.spec.Lean, t.spec.File, show(x))
			}
			if id, ok := x.Results[0].(*ast.Ident); ok && !t.locals[id.Name] && t.plean[id.Name] == "" {
				if id.Name == "nil" {
					return "some (some \"nil\")"
				}
				if t.pkg.errVars[id.Name] {
					return "some (some " + leanString(id.Name) + ")"
				}
			}
			fail("%s (%s): `%s`: a block translation can only return nil or a package-level `var ErrX = errors.New(..)`", t.spec.Lean, t.spec.File, show(x))
		}
		if len(x.Results) != len(t.spec.Results) {
			fail("%s: return with %d values, spec declares %d", t.spec.Lean, len(x.Results), len(t.spec.Results))
		}
		if t.spec.ErrMode == "name" {
			return t.wrapReturn(t.returnNamedErr(x))
		}
		c := comp{}
		vals := []string{}
		for i, r := range x.Results {
			rc := t.retValue(r, t.spec.Results[i])
			c.pre = append(c.pre, rc.pre...)
			vals = append(vals, rc.val)
		}
		c.val = strings.Join(vals, ", ")
		return t.wrapReturn(c)
	case *ast.BranchStmt:
		if t.loop == nil || x.Label != nil {
			fail("%s (%s): `%s` outside a translated loop or with a label", t.spec.Lean, t.spec.File, show(x))
		}
		switch x.Tok {
		case token.CONTINUE:
			return t.continueTerm()
		case token.BREAK:
			return "some (Rv.SrcStr.Loop.done " + t.carriedTuple() + ")"
		}
		fail("%s (%s): `%s`", t.spec.Lean, t.spec.File, show(x))
	case *ast.RangeStmt:
		return t.rangeLoop(x, rest)
	case *ast.ExprStmt:
		if call, ok := x.X.(*ast.CallExpr); ok {
			strArg := func(e ast.Expr) comp {
				if _, isLit := e.(*ast.BasicLit); !isLit && t.kindOf(e) != kStr {
					fail("%s (%s): `%s`: `%s` is not known to be a string of kind Str", t.spec.Lean, t.spec.File, show(x), show(e))
				}
				return t.strOperand(e)
			}
			// the header variable a call refers to: a local of kind Hdr, or the expression the spec declares (hdrexpr)
			hdrVar := func(e ast.Expr) string {
				if id, ok := e.(*ast.Ident); ok && t.locals[id.Name] && t.kinds[id.Name] == kHdr {
					return id.Name
				}
				if t.hdrAlias != "" && t.spec.HdrExpr != "" && show(e) == t.spec.HdrExpr {
					return t.hdrAlias
				}
				return ""
			}
			// delete(h, k): the builtin on the map itself — NO canonicalisation of k
			if fn, ok := call.Fun.(*ast.Ident); ok && fn.Name == "delete" && len(call.Args) == 2 && !t.locals["delete"] && t.pkg.funcs["delete"] == nil {
				if hv := hdrVar(call.Args[0]); hv != "" {
					k := strArg(call.Args[1])
					t.used[hv] = true
					return k.andThen(func(kv string) string {
						return "let " + mangle(hv) + " := Rv.Headers.del " + mangle(hv) + " " + kv + "\n  " + t.stmts(rest)
					})
				}
			}
			// h.Set(k, v): http.Header canonicalises k and replaces all values of that name by v
			if sel, ok := call.Fun.(*ast.SelectorExpr); ok && sel.Sel.Name == "Set" && len(call.Args) == 2 {
				if hv := hdrVar(sel.X); hv != "" {
					c := join2(strArg(call.Args[0]), strArg(call.Args[1]), func(p, q string) string {
						return "Rv.Headers.set " + mangle(hv) + " (Rv.Headers.canonKey " + p + ") " + q
					})
					t.used[hv] = true
					return c.andThen(func(v string) string { return "let " + mangle(hv) + " := " + v + "\n  " + t.stmts(rest) })
				}
			}
		}
		if call, ok := x.X.(*ast.CallExpr); ok && len(call.Args) == 1 {
			if sel, ok := call.Fun.(*ast.SelectorExpr); ok && sel.Sel.Name == "Del" {
				if id, ok := sel.X.(*ast.Ident); ok && t.locals[id.Name] && t.kinds[id.Name] == kHdr {
					// h.Del(name): http.Header canonicalises the name; the header variable takes the new value
					if _, isLit := call.Args[0].(*ast.BasicLit); !isLit && t.kindOf(call.Args[0]) != kStr {
						fail("%s (%s): `%s`: the name is not known to be a string of kind Str", t.spec.Lean, t.spec.File, show(x))
					}
					k := t.strOperand(call.Args[0])
					t.used[id.Name] = true
					return k.andThen(func(kv string) string {
						return "let " + mangle(id.Name) + " := Rv.Headers.del " + mangle(id.Name) + " (Rv.Headers.canonKey " + kv + ")\n  " + t.stmts(rest)
					})
				}
			}
		}
		txt := show(x)
		for re, eff := range t.spec.Effects {
			if regexp.MustCompile(re).MatchString(txt) {
				if t.loop != nil {
					fail("%s (%s): effect statement `%s` inside a loop (pseudo results are not loop-carried)", t.spec.Lean, t.spec.File, txt)
				}
				parts := strings.SplitN(eff, ":=", 2)
				return "let " + strings.TrimSpace(parts[0]) + " := " + strings.TrimSpace(parts[1]) + "\n  " + t.stmts(rest)
			}
		}
		if matchAny(t.spec.Ignore, txt) {
			return t.stmts(rest)
		}
		fail("%s (%s): expression statement `%s` is neither ignorable nor an effect of the spec", t.spec.Lean, t.spec.File, txt)
	case *ast.IncDecStmt:
		id, ok := x.X.(*ast.Ident)
		if !ok || !t.locals[id.Name] {
			fail("%s: %s", t.spec.Lean, show(x))
		}
		if k := t.kinds[id.Name]; k != "" && k != kInt {
			fail("%s (%s): `%s` on a variable of kind %s", t.spec.Lean, t.spec.File, show(x), k)
		}
		t.used[id.Name] = true
		op := " + 1"
		if x.Tok == token.DEC {
			op = " - 1"
		}
		return "let " + mangle(id.Name) + " := " + mangle(id.Name) + op + "\n  " + t.stmts(rest)
	case *ast.DeclStmt:
		gd := x.Decl.(*ast.GenDecl)
		if gd.Tok != token.VAR {
			fail("%s: declaration %s", t.spec.Lean, show(x))
		}
		out := ""
		closeN := 0
		for _, sp := range gd.Specs {
			vs := sp.(*ast.ValueSpec)
			for i, nm := range vs.Names {
				var c comp
				kind := kindOfGoType(vs.Type)
				if i < len(vs.Values) {
					c = t.expr(vs.Values[i])
					if vs.Type == nil {
						kind = t.kindOf(vs.Values[i])
					}
				} else {
					c = pure(t.zero(vs.Type))
				}
				if kind == kStr {
					kind = kString // a string declared from a literal is a Lean String (legacy); Str values come from parameters, slices, SplitN
					if i < len(vs.Values) && t.kindOf(vs.Values[i]) == kStr {
						kind = kStr
					}
				}
				t.declareK(nm.Name, kind)
				for _, b := range c.pre {
					out += "Option.bind (" + b.term + ") (fun " + b.name + " =>\n  "
					closeN++
				}
				out += "let " + mangle(nm.Name) + " := " + c.val + "\n  "
			}
		}
		return out + t.stmts(rest) + strings.Repeat(")", closeN)
	case *ast.AssignStmt:
		if matchAny(t.spec.Ignore, show(x)) {
			return t.stmts(rest)
		}
		if len(x.Lhs) == 1 && len(x.Rhs) == 1 {
			if sel, isSel := x.Lhs[0].(*ast.SelectorExpr); isSel && x.Tok == token.ASSIGN {
				// x.f = v on a local variable holding a struct of the package (a VALUE, not a pointer): a record update
				if sid, ok := sel.X.(*ast.Ident); ok && t.locals[sid.Name] && strings.HasPrefix(t.kinds[sid.Name], "S:") {
					st := t.structOf(t.gotypes[sid.Name])
					if _, isPtr := t.gotypes[sid.Name].(*ast.StarExpr); isPtr || st == nil {
						fail("%s (%s): `%s`: the variable is not known to hold a struct value of the package", t.spec.Lean, t.spec.File, show(x))
					}
					direct := false
					for _, f := range st.Fields.List {
						for _, nm := range f.Names {
							if nm.Name == sel.Sel.Name {
								direct = true
							}
						}
					}
					if !direct {
						fail("%s (%s): `%s`: %s is not a (direct) field of the struct", t.spec.Lean, t.spec.File, show(x), sel.Sel.Name)
					}
					c := t.expr(x.Rhs[0])
					t.used[sid.Name] = true
					v := mangle(sid.Name)
					return c.andThen(func(val string) string {
						return "let " + v + " := { " + v + " with " + mangle(lowerFirst(sel.Sel.Name)) + " := " + val + " }\n  " + t.stmts(rest)
					})
				}
			}
			id, ok := x.Lhs[0].(*ast.Ident)
			if !ok {
				fail("%s (%s): assignment to `%s` (only local variables can be assigned)", t.spec.Lean, t.spec.File, show(x.Lhs[0]))
			}
			var c comp
			kind := ""
			switch x.Tok {
			case token.DEFINE, token.ASSIGN:
				c = t.expr(x.Rhs[0])
				kind = t.kindOf(x.Rhs[0])
			case token.ADD_ASSIGN, token.SUB_ASSIGN, token.MUL_ASSIGN:
				op := map[token.Token]token.Token{token.ADD_ASSIGN: token.ADD, token.SUB_ASSIGN: token.SUB, token.MUL_ASSIGN: token.MUL}[x.Tok]
				c = t.expr(&ast.BinaryExpr{X: x.Lhs[0], Op: op, Y: x.Rhs[0]})
			default:
				fail("%s: assignment operator in %s", t.spec.Lean, show(x))
			}
			if x.Tok == token.DEFINE {
				gt := t.goTypeOf(x.Rhs[0]) // before the declaration: the right-hand side is evaluated in the outer scope
				t.declareK(id.Name, kind)
				t.gotypes[id.Name] = gt
			} else if !t.locals[id.Name] {
				fail("%s (%s): assignment to non-local `%s`", t.spec.Lean, t.spec.File, id.Name)
			} else if x.Tok == token.ASSIGN && t.kinds[id.Name] != "" && kind != "" && kind != t.kinds[id.Name] {
				fail("%s (%s): assignment `%s`: the variable has kind %s, the value kind %q", t.spec.Lean, t.spec.File, show(x), t.kinds[id.Name], kind)
			}
			if id.Name == "_" {
				return t.stmts(rest)
			}
			return c.andThen(func(v string) string { return "let " + mangle(id.Name) + " := " + v + "\n  " + t.stmts(rest) })
		}
		if len(x.Lhs) == 2 && len(x.Rhs) == 1 && x.Tok == token.DEFINE && t.spec.StrMode {
			if r, ok := t.twoResultLib(x, rest); ok {
				return r
			}
		}
		// v, ok := m[k] on a package-level map literal that nothing modifies: a lookup in the emitted table
		if len(x.Lhs) == 2 && len(x.Rhs) == 1 && x.Tok == token.DEFINE {
			if ix, ok := x.Rhs[0].(*ast.IndexExpr); ok {
				if mid, ok := ix.X.(*ast.Ident); ok && !t.locals[mid.Name] && t.plean[mid.Name] == "" && t.pkg.mapVars[mid.Name] != nil {
					tbl, _, vk := t.out.ensureMap(t, mid.Name)
					k := t.expr(ix.Index)
					if !t.isCharLike(ix.Index) {
						fail("%s (%s): `%s`: the key is not a byte/rune", t.spec.Lean, t.spec.File, show(x))
					}
					v, okv := x.Lhs[0].(*ast.Ident), x.Lhs[1].(*ast.Ident)
					if v == nil || okv == nil {
						fail("%s (%s): `%s`", t.spec.Lean, t.spec.File, show(x))
					}
					t.checkNoShadow([]ast.Stmt{x})
					t.declareK(v.Name, vk)
					t.declareK(okv.Name, kBool)
					return k.andThen(func(kv string) string {
						return "match (match List.lookup " + kv + " " + tbl + " with | some u_ => (u_, true) | none => ((0 : Int), false)) with\n  | (" + mangle(v.Name) + ", " + mangle(okv.Name) + ") =>\n  " + t.stmts(rest)
					})
				}
			}
		}
		// parallel assignment `a, b = x, y` / `a, b := x, y`: all right-hand sides are evaluated first (Go semantics)
		if len(x.Lhs) == len(x.Rhs) && len(x.Lhs) > 1 && (x.Tok == token.DEFINE || x.Tok == token.ASSIGN) {
			allIdent := true
			for _, l := range x.Lhs {
				if _, ok := l.(*ast.Ident); !ok {
					allIdent = false
				}
			}
			if allIdent {
				tmps := []string{}
				var seq []ast.Stmt
				for i := range x.Rhs {
					tmp := fmt.Sprintf("par%d_%d_", t.fresh, i)
					t.fresh++
					tmps = append(tmps, tmp)
					seq = append(seq, &ast.AssignStmt{Lhs: []ast.Expr{ast.NewIdent(tmp)}, Tok: token.DEFINE, Rhs: []ast.Expr{x.Rhs[i]}})
				}
				for i, l := range x.Lhs {
					seq = append(seq, &ast.AssignStmt{Lhs: []ast.Expr{l}, Tok: x.Tok, Rhs: []ast.Expr{ast.NewIdent(tmps[i])}})
				}
				return t.stmts(append(seq, rest...))
			}
		}
		// a, b, c := f(args) with f translatable
		if len(x.Rhs) == 1 && x.Tok == token.DEFINE {
			if call, ok := x.Rhs[0].(*ast.CallExpr); ok {
				c := t.call(call)
				names := []string{}
				var resKinds []string
				if fid, ok := call.Fun.(*ast.Ident); ok {
					if fd := t.pkg.funcs[fid.Name]; fd != nil && fd.Type.Results != nil {
						for _, f := range fd.Type.Results.List {
							n := len(f.Names)
							if n == 0 {
								n = 1
							}
							for j := 0; j < n; j++ {
								resKinds = append(resKinds, kindOfGoType(f.Type))
							}
						}
					}
				}
				for i, l := range x.Lhs {
					id := l.(*ast.Ident)
					if id.Name != "_" {
						k := ""
						if i < len(resKinds) && len(resKinds) == len(x.Lhs) {
							k = resKinds[i]
						}
						t.declareK(id.Name, k)
					}
					names = append(names, mangle(id.Name))
				}
				return c.andThen(func(v string) string {
					return "match " + v + " with\n  | (" + strings.Join(names, ", ") + ") =>\n  " + t.stmts(rest)
				})
			}
		}
		fail("%s (%s): assignment `%s` not in the supported subset", t.spec.Lean, t.spec.File, show(x))
	case *ast.IfStmt:
		if r, ok := t.ifValueErr(x, rest); ok {
			return r
		}
		if x.Init != nil {
			inner := *x
			inner.Init = nil
			return t.stmts(append([]ast.Stmt{x.Init, &inner}, rest...))
		}
		c := t.expr(x.Cond)
		thenL := append([]ast.Stmt{}, x.Body.List...)
		var elseL []ast.Stmt
		if x.Else != nil {
			switch e := x.Else.(type) {
			case *ast.BlockStmt:
				elseL = append(elseL, e.List...)
			default:
				elseL = append(elseL, e)
			}
		}
		t.checkNoShadow(thenL)
		t.checkNoShadow(elseL)
		saved := t.snapshot()
		if !terminates(thenL) {
			thenL = append(thenL, rest...)
		}
		thenS := t.stmts(thenL)
		t.restore(saved)
		if !terminates(elseL) {
			elseL = append(elseL, rest...)
		}
		elseS := t.stmts(elseL)
		t.restore(saved)
		return c.andThen(func(v string) string { return "if " + v + " then\n  (" + thenS + ")\n  else\n  (" + elseS + ")" })
	case *ast.SwitchStmt:
		if x.Init != nil {
			fail("%s: switch with init", t.spec.Lean)
		}
		// rewrite into an if-else chain
		var chain ast.Stmt
		var last *ast.IfStmt
		var deflt []ast.Stmt
		for _, cc := range x.Body.List {
			cl := cc.(*ast.CaseClause)
			for _, st := range cl.Body {
				if br, ok := st.(*ast.BranchStmt); ok && br.Tok == token.FALLTHROUGH {
					fail("%s: fallthrough", t.spec.Lean)
				}
				// an unlabeled `break` inside a switch leaves the SWITCH, not the enclosing loop; the if-chain this
				// switch is rewritten into cannot express that
				ast.Inspect(st, func(n ast.Node) bool {
					switch b := n.(type) {
					case *ast.ForStmt, *ast.RangeStmt, *ast.SwitchStmt, *ast.TypeSwitchStmt, *ast.SelectStmt, *ast.FuncLit:
						return false
					case *ast.BranchStmt:
						if b.Tok == token.BREAK && b.Label == nil {
							fail("%s (%s): `break` inside a switch (it leaves the switch, not the loop)", t.spec.Lean, t.spec.File)
						}
					}
					return true
				})
			}
			if cl.List == nil {
				deflt = cl.Body
				continue
			}
			var cond ast.Expr
			for _, v := range cl.List {
				var one ast.Expr = v
				if x.Tag != nil {
					one = &ast.BinaryExpr{X: x.Tag, Op: token.EQL, Y: v}
				}
				if cond == nil {
					cond = one
				} else {
					cond = &ast.BinaryExpr{X: cond, Op: token.LOR, Y: one}
				}
			}
			is := &ast.IfStmt{Cond: cond, Body: &ast.BlockStmt{List: cl.Body}}
			if last == nil {
				chain = is
			} else {
				last.Else = is
			}
			last = is
		}
		if last == nil {
			return t.stmts(append(deflt, rest...))
		}
		if deflt != nil {
			last.Else = &ast.BlockStmt{List: deflt}
		}
		return t.stmts(append([]ast.Stmt{chain}, rest...))
	}
	fail("%s (%s): statement `%s` is outside the supported subset", t.spec.Lean, t.spec.File, strings.SplitN(show(s), "{", 2)[0])
	return ""
}

// `if v, err := f(args); err == nil { body }` where the spec maps the call f(args) to an Option-valued Lean term by a
// leaf rule written "!term" (some v = the call returned (v, nil); none = it returned an error). Only this form is
// supported: the value is in scope in the body only, i.e. only where err == nil, so the value Go returns beside a
// non-nil error is never read. Anything else about such a leaf (an else branch, another condition, a plain
// `v, err := f()` statement) is refused.
func (t *tr) ifValueErr(x *ast.IfStmt, rest []ast.Stmt) (string, bool) {
	as, ok := x.Init.(*ast.AssignStmt)
	if !ok || as.Tok != token.DEFINE || len(as.Lhs) != 2 || len(as.Rhs) != 1 {
		return "", false
	}
	lv, ok := t.spec.Leaves[t.canon(as.Rhs[0])]
	if !ok || !strings.HasPrefix(lv, "!") {
		return "", false
	}
	where := fmt.Sprintf("%s (%s): `if %s; %s`", t.spec.Lean, t.spec.File, show(as), show(x.Cond))
	v, okv := as.Lhs[0].(*ast.Ident)
	e, oke := as.Lhs[1].(*ast.Ident)
	if !okv || !oke || v.Name == "_" || e.Name == "_" {
		fail("%s: the two results must be named", where)
	}
	cond, okc := x.Cond.(*ast.BinaryExpr)
	if !okc || cond.Op != token.EQL || show(cond.X) != e.Name || show(cond.Y) != "nil" || t.locals["nil"] {
		fail("%s: only the condition `%s == nil` is supported for a (value, error) leaf", where, e.Name)
	}
	if x.Else != nil {
		fail("%s: an else branch (where the value beside a non-nil error could be read) is not supported", where)
	}
	if t.locals[v.Name] || t.plean[v.Name] != "" || t.locals[e.Name] || t.plean[e.Name] != "" {
		fail("%s: the declared variables shadow outer ones", where)
	}
	used := false
	ast.Inspect(x.Body, func(n ast.Node) bool {
		if id, ok := n.(*ast.Ident); ok && id.Name == e.Name {
			used = true
		}
		return true
	})
	if used {
		fail("%s: the body reads the error variable", where)
	}
	thenL := append([]ast.Stmt{}, x.Body.List...)
	t.checkNoShadow(thenL)
	saved := t.snapshot()
	t.declareK(v.Name, "")
	if !terminates(thenL) {
		thenL = append(thenL, rest...)
	}
	thenS := t.stmts(thenL)
	t.restore(saved)
	elseS := t.stmts(append([]ast.Stmt{}, rest...))
	t.restore(saved)
	return "match " + lv[1:] + " with\n  | some " + mangle(v.Name) + " =>\n  (" + thenS + ")\n  | none =>\n  (" + elseS + ")", true
}

// return v, err with errmode "name": Except String T
func (t *tr) returnNamedErr(x *ast.ReturnStmt) comp {
	n := len(x.Results)
	if n < 2 || t.spec.Results[n-1] != "err" {
		fail("%s: errmode \"name\" needs results (values..., error)", t.spec.Lean)
	}
	c := comp{}
	vals := []string{}
	for i, r := range x.Results[:n-1] {
		rc := t.retValue(r, t.spec.Results[i])
		c.pre = append(c.pre, rc.pre...)
		vals = append(vals, rc.val)
	}
	e := x.Results[n-1]
	if id, ok := e.(*ast.Ident); ok && id.Name == "nil" && !t.locals["nil"] {
		c.val = "Except.ok (" + strings.Join(vals, ", ") + ")"
		return c
	}
	name := ""
	switch ev := e.(type) {
	case *ast.Ident:
		if !t.locals[ev.Name] && t.plean[ev.Name] == "" && t.pkg.errVars[ev.Name] {
			name = ev.Name
		}
	case *ast.CallExpr:
		// fmt.Errorf("%w ...", ErrX, ...): the error wraps ErrX (errors.Is(err, ErrX) holds)
		if show(ev.Fun) == "fmt.Errorf" && t.imports("fmt") && len(ev.Args) >= 2 {
			if f, ok := ev.Args[0].(*ast.BasicLit); ok && f.Kind == token.STRING {
				fs, _ := strconv.Unquote(f.Value)
				if strings.HasPrefix(fs, "%w") && strings.Count(fs, "%w") == 1 {
					if id, ok := ev.Args[1].(*ast.Ident); ok && !t.locals[id.Name] && t.plean[id.Name] == "" && t.pkg.errVars[id.Name] {
						name = id.Name
					}
				}
			}
		}
	}
	if name == "" {
		fail("%s (%s): `%s`: with errmode \"name\" the error must be nil, a package-level `var ErrX = errors.New(..)` or fmt.Errorf(\"%%w...\", ErrX, ...)", t.spec.Lean, t.spec.File, show(x))
	}
	if len(c.pre) != 0 {
		fail("%s (%s): `%s`: the value returned beside a non-nil error is dropped by errmode \"name\" and must therefore be a pure expression", t.spec.Lean, t.spec.File, show(x))
	}
	return pure("Except.error " + leanString(name))
}

// identifiers assigned (=, op=, ++, --) anywhere in the statements, and identifiers declared (:=, var) in them
func assignedIn(list []ast.Stmt) (assigned map[string]bool, declared map[string]bool, other string) {
	assigned, declared = map[string]bool{}, map[string]bool{}
	for _, st := range list {
		ast.Inspect(st, func(n ast.Node) bool {
			switch a := n.(type) {
			case *ast.AssignStmt:
				for _, l := range a.Lhs {
					if id, ok := l.(*ast.Ident); ok {
						if a.Tok == token.DEFINE {
							declared[id.Name] = true
						} else {
							assigned[id.Name] = true
						}
					}
					// x.f = v changes the struct variable x
					if sel, ok := l.(*ast.SelectorExpr); ok && a.Tok != token.DEFINE {
						if id, ok := sel.X.(*ast.Ident); ok {
							assigned[id.Name] = true
						}
					}
				}
			case *ast.IncDecStmt:
				if id, ok := a.X.(*ast.Ident); ok {
					assigned[id.Name] = true
				}
			case *ast.ExprStmt:
				// h.Del(..) / h.Set(..) / h.Add(..) / delete(h, ..) as a statement changes the variable h
				if call, ok := a.X.(*ast.CallExpr); ok {
					if fn, ok := call.Fun.(*ast.Ident); ok && fn.Name == "delete" && len(call.Args) == 2 {
						if id, ok := call.Args[0].(*ast.Ident); ok {
							assigned[id.Name] = true
						}
					}
					if sel, ok := call.Fun.(*ast.SelectorExpr); ok && (sel.Sel.Name == "Del" || sel.Sel.Name == "Set" || sel.Sel.Name == "Add") {
						if id, ok := sel.X.(*ast.Ident); ok {
							assigned[id.Name] = true
						}
					}
				}
			case *ast.DeclStmt:
				if gd, ok := a.Decl.(*ast.GenDecl); ok {
					for _, sp := range gd.Specs {
						if vs, ok := sp.(*ast.ValueSpec); ok {
							for _, nm := range vs.Names {
								declared[nm.Name] = true
							}
						}
					}
				}
			case *ast.ForStmt:
				other = "a nested 3-clause loop"
			case *ast.FuncLit:
				other = "a function literal"
			case *ast.UnaryExpr:
				if a.Op == token.AND {
					other = "an address-of expression"
				}
			case *ast.GoStmt, *ast.DeferStmt, *ast.LabeledStmt, *ast.SelectStmt, *ast.SendStmt:
				other = "a go/defer/label/select/send statement"
			}
			return true
		})
	}
	return
}

// for i, ch := range s { body } over a string of kind Str, or for k, v := range m over an unmodified package-level map
// literal (whose iteration ORDER becomes a parameter of the translated function).
func (t *tr) rangeLoop(x *ast.RangeStmt, rest []ast.Stmt) string {
	where := fmt.Sprintf("%s (%s)", t.spec.Lean, t.spec.File)
	outerLoop := t.loop // a range loop inside a range loop: the inner one is its own auxiliary function
	if x.Tok != token.DEFINE {
		fail("%s: `%s`: the range variables must be declared by the loop (:=)", where, strings.SplitN(show(x), "{", 2)[0])
	}
	src, ok := x.X.(*ast.Ident)
	srcKind := t.kindOf(x.X)
	if !ok {
		if srcKind != kStrs && srcKind != kStrSeq {
			fail("%s: range over `%s` (only a variable or a list-of-strings expression can be ranged over)", where, show(x.X))
		}
		src = ast.NewIdent("") // no variable: nothing the body could assign
	}
	keyName, valName := "", ""
	if x.Key != nil {
		keyName = x.Key.(*ast.Ident).Name
	}
	if x.Value != nil {
		valName = x.Value.(*ast.Ident).Name
	}
	if keyName == "_" {
		keyName = ""
	}
	if valName == "_" {
		valName = ""
	}
	isMap, isList := false, false
	elemTy, srcTerm := "Char", ""
	keyKind, valKind := kInt, kRune
	var srcPre []bind
	switch {
	case srcKind == kStrs || srcKind == kStrSeq:
		// a list of strings (a []string value, or the sequence strings.SplitSeq yields): evaluated once, before the loop
		if srcKind == kStrSeq {
			if x.Value != nil {
				fail("%s: range over an iterator with two variables", where)
			}
			keyName, valName = "", keyName // the single variable of `for v := range seq` is the VALUE
		}
		c := t.expr(x.X)
		srcPre, srcTerm = c.pre, c.val
		isList, elemTy, valKind = true, "Str", kStr
	case (t.locals[src.Name] || t.plean[src.Name] != "") && t.kinds[src.Name] == kStr:
		c := t.expr(src)
		srcTerm = c.val
	case !t.locals[src.Name] && t.plean[src.Name] == "" && t.pkg.mapVars[src.Name] != nil:
		_, kk, vk := t.out.ensureMap(t, src.Name)
		ob := t.spec.MapOrder[src.Name]
		if ob == "" {
			fail("%s: range over the map `%s`: Go's iteration order is unspecified; the spec must name a binder for it (maporder)", where, src.Name)
		}
		isMap, keyKind, valKind = true, kk, vk
		elemTy = "(" + leanTypeOfKind(kk) + " × " + leanTypeOfKind(vk) + ")"
		srcTerm = ob
		found := false
		for _, b := range t.spec.Binders {
			if strings.HasPrefix(b, "("+ob+" :") {
				found = true
			}
		}
		if !found {
			fail("%s: maporder binder %s is not among the binders of the spec", where, ob)
		}
	default:
		fail("%s: range over `%s`, which is neither a string of kind Str nor a package-level map literal", where, src.Name)
	}
	body := x.Body.List
	assigned, declared, other := assignedIn(body)
	if other != "" {
		fail("%s: the body of `%s` contains %s", where, strings.SplitN(show(x), "{", 2)[0], other)
	}
	// the VALUE variable may be assigned in the body: since Go 1.22 every iteration has its own copy, the assignment
	// lives until the end of the iteration (a `let` in the body); it is neither carried nor does it touch the sequence.
	// That needs a list-of-strings source; for strings and maps the refusal stays.
	valAssignable := isList && valName != "" && !declared[valName] && t.goVersionAtLeast122()
	for _, n := range []string{src.Name, keyName, valName} {
		if n != "" && (assigned[n] || declared[n]) && !(n == valName && valAssignable) {
			fail("%s: the loop body assigns or redeclares `%s` (the ranged value or a range variable)", where, n)
		}
	}
	if valAssignable {
		delete(assigned, valName)
	}
	for n := range declared {
		if t.locals[n] || t.plean[n] != "" {
			fail("%s: `%s` declared in the loop body shadows an outer variable", where, n)
		}
	}
	if (keyName != "" && (t.locals[keyName] || t.plean[keyName] != "")) || (valName != "" && (t.locals[valName] || t.plean[valName] != "")) {
		fail("%s: a range variable of `%s` shadows an outer variable", where, strings.SplitN(show(x), "{", 2)[0])
	}
	// loop-carried variables: the outer variables the body assigns, in declaration order
	carried := []string{}
	for _, n := range t.declOrder {
		if assigned[n] && t.locals[n] {
			if leanTypeOfKind(t.kinds[n]) == "" {
				fail("%s: the loop assigns `%s`, whose type is outside the subset", where, n)
			}
			carried = append(carried, n)
			delete(assigned, n)
		}
	}
	for n := range declared {
		delete(assigned, n) // declared in the body (shadowing of outer names was refused above): local to one iteration
	}
	for n := range assigned {
		if n != "_" {
			fail("%s: the loop assigns `%s`, which is not a local variable of the function", where, n)
		}
	}
	t.nloops++
	loopName := fmt.Sprintf("%s_loop%d", t.spec.Lean, t.nloops)
	savedLocals, savedUsed := t.snapshot(), t.used
	t.used = map[string]bool{}
	lc := &loopCtx{callTok: fmt.Sprintf("\x00CALL%d\x00", t.nloops), tailVar: "rest_", carried: carried}
	headPat := "_"
	if isMap {
		kp, vp := "_", "_"
		if keyName != "" {
			t.declareK(keyName, keyKind)
			kp = mangle(keyName)
		}
		if valName != "" {
			t.declareK(valName, valKind)
			vp = mangle(valName)
		}
		headPat = "(" + kp + ", " + vp + ")"
	} else {
		if keyName != "" {
			t.declareK(keyName, kInt)
			lc.index = mangle(keyName)
		}
		if valName != "" {
			t.declareK(valName, valKind)
			headPat = mangle(valName)
		}
	}
	t.loop = lc
	bodyTerm := t.stmts(body)
	t.loop = outerLoop
	bodyUsed := t.used
	t.used = savedUsed
	t.restore(savedLocals)
	// free variables of the body: parameters and outer locals it reads but does not assign
	isCarried := map[string]bool{}
	for _, n := range carried {
		isCarried[n] = true
	}
	fixedB, fixedA := []string{}, []string{}
	bn := t.binderNames()
	for i, b := range t.spec.Binders {
		for g, l := range t.plean {
			if l == bn[i] && bodyUsed[g] && !t.locals[g] { // a parameter shadowed by a local of the same name is not read
				fixedB, fixedA = append(fixedB, b), append(fixedA, bn[i])
				t.used[g] = true
				break
			}
		}
	}
	for _, n := range t.declOrder {
		if bodyUsed[n] && t.locals[n] && !isCarried[n] {
			ty := leanTypeOfKind(t.kinds[n])
			if ty == "" {
				fail("%s: the loop body reads `%s`, whose type is outside the subset", where, n)
			}
			fixedB, fixedA = append(fixedB, "("+mangle(n)+" : "+ty+")"), append(fixedA, mangle(n))
			t.used[n] = true
		}
	}
	binders := append([]string{}, fixedB...)
	binders = append(binders, "(rest_ : List "+elemTy+")")
	if lc.index != "" {
		binders = append(binders, "("+lc.index+" : Int)")
	}
	carTys := []string{}
	for _, n := range carried {
		binders = append(binders, "("+mangle(n)+" : "+leanTypeOfKind(t.kinds[n])+")")
		carTys = append(carTys, leanTypeOfKind(t.kinds[n]))
		t.used[n] = true
	}
	stTy := "Unit"
	if len(carTys) > 0 {
		stTy = strings.Join(carTys, " × ")
	}
	call := "Rv.Generated.Src." + loopName
	for _, a := range fixedA {
		call += " " + a
	}
	bodyTerm = strings.ReplaceAll(bodyTerm, lc.callTok, call)
	pos := fset.Position(x.Pos())
	caveat := "One list element = one BYTE of the string; Go's range decodes RUNES: the translation is the Go loop exactly on ASCII input (every byte < 128)."
	if isList {
		caveat = "The list of strings is evaluated once, before the loop (Go evaluates the range expression once)."
	}
	if isMap {
		caveat = "Go iterates a map in an UNSPECIFIED order: `rest_` starts as the order given to the enclosing function, about which nothing may be assumed but that it is a permutation of the table."
	}
	def := fmt.Sprintf("/-- the loop `%s` of `%s` (%s:%d): `Loop.ret v` = the function returned v inside the loop, `Loop.done st` = the loop ended with the carried variables %v = st. %s -/\n",
		strings.TrimSpace(strings.SplitN(show(x), "{", 2)[0]), t.spec.Func, t.spec.File, pos.Line, carried, caveat)
	def += "def " + loopName + " " + strings.Join(binders, " ") + " : Option (Rv.SrcStr.Loop (" + t.spec.Ret + ") (" + stTy + ")) :=\n  match rest_ with\n  | [] => some (Rv.SrcStr.Loop.done " + t.carriedTupleOf(carried) + ")\n  | " + headPat + " :: rest_ =>\n  " + bodyTerm + "\ntermination_by structural rest_\n"
	t.out.defs = append(t.out.defs, def)
	// the enclosing function continues with the outcome of the loop
	start := call + " " + srcTerm
	if lc.index != "" {
		start += " (0 : Int)"
	}
	for _, n := range carried {
		start += " " + mangle(n)
	}
	after := t.stmts(rest)
	retArm := "some v_"
	if outerLoop != nil {
		retArm = "some (Rv.SrcStr.Loop.ret v_)" // a return inside the inner loop leaves the outer loop as well
	}
	out := "Option.bind (" + start + ") (fun r_ => match r_ with\n  | Rv.SrcStr.Loop.ret v_ => " + retArm + "\n  | Rv.SrcStr.Loop.done " + t.carriedTupleOf(carried) + " =>\n  " + after + ")"
	for i := len(srcPre) - 1; i >= 0; i-- {
		out = "Option.bind (" + srcPre[i].term + ") (fun " + srcPre[i].name + " => " + out + ")"
	}
	return out
}

func (t *tr) carriedTupleOf(carried []string) string {
	vs := []string{}
	for _, n := range carried {
		vs = append(vs, mangle(n))
	}
	if len(vs) == 0 {
		return "()"
	}
	return "(" + strings.Join(vs, ", ") + ")"
}

func (t *tr) binderNames() []string {
	bn := []string{}
	for _, b := range t.spec.Binders {
		bn = append(bn, strings.TrimSpace(strings.SplitN(strings.TrimPrefix(b, "("), ":", 2)[0]))
	}
	return bn
}

// a package-level map literal with rune/byte keys and integer values, emitted as a Lean table (once per module) after
// checking that nothing in the package can modify it: every use is a read `m[k]` or `range m`.
func (g *genOut) ensureMap(from *tr, name string) (lean string, keyKind string, valKind string) {
	p := from.pkg
	cl := p.mapVars[name]
	mt := cl.Type.(*ast.MapType)
	keyKind, valKind = kindOfGoType(mt.Key), kindOfGoType(mt.Value)
	if (keyKind != kRune && keyKind != kByte) || valKind != kInt {
		fail("%s: map `%s` of type %s (only map[rune|byte]<integer> literals are supported)", from.spec.Lean, name, show(cl.Type))
	}
	lean = "Rv.Generated.Src." + mangle(name)
	if g.maps[name] {
		return
	}
	if _, checked := p.mapOK[name]; !checked {
		p.mapOK[name] = mapModifiedBy(p, name)
	}
	if why := p.mapOK[name]; why != "" {
		fail("%s: map `%s` may be modified: %s", from.spec.Lean, name, why)
	}
	ct := &tr{spec: from.spec, pkg: p, fn: from.fn, locals: map[string]bool{}, plean: map[string]string{}, out: g, kinds: map[string]string{}, used: map[string]bool{}, gotypes: map[string]ast.Expr{}}
	rows := []string{}
	seen := map[string]bool{}
	for _, el := range cl.Elts {
		kv, ok := el.(*ast.KeyValueExpr)
		if !ok {
			fail("%s: map `%s`: element `%s`", from.spec.Lean, name, show(el))
		}
		kl, ok := kv.Key.(*ast.BasicLit)
		if !ok || kl.Kind != token.CHAR {
			fail("%s: map `%s`: key `%s` is not a character literal", from.spec.Lean, name, show(kv.Key))
		}
		k := charLit(ct.charValue(kl))
		if seen[k] {
			fail("%s: map `%s`: duplicate key %s", from.spec.Lean, name, k)
		}
		seen[k] = true
		v := ct.constExpr(kv.Value)
		if len(v.pre) != 0 {
			fail("%s: map `%s`: value `%s` is not a constant expression", from.spec.Lean, name, show(kv.Value))
		}
		rows = append(rows, "("+k+", ("+v.val+" : Int))")
	}
	pos := fset.Position(cl.Pos())
	def := fmt.Sprintf("/-- the literal of the package-level map `%s` (%s:%d), in source order; checked: no statement of the package can modify it (it is only read by `m[k]` and `range m`). A Go map literal cannot repeat a constant key, so `List.lookup` is the map lookup. -/\ndef %s : List (Char × Int) :=\n  [%s]\n",
		name, filepath.Base(fset.Position(cl.Pos()).Filename), pos.Line, mangle(name), strings.Join(rows, ",\n   "))
	g.defs = append(g.defs, def)
	g.maps[name] = true
	return
}

// "" if every occurrence of the identifier in the package is the declaration, the operand of an rvalue index
// expression, or the operand of range; otherwise a description of the first other use.
func mapModifiedBy(p *pkgInfo, name string) string {
	why := ""
	for _, f := range p.files {
		var stack []ast.Node
		ast.Inspect(f, func(n ast.Node) bool {
			if n == nil {
				stack = stack[:len(stack)-1]
				return true
			}
			stack = append(stack, n)
			id, ok := n.(*ast.Ident)
			if !ok || id.Name != name || why != "" || len(stack) < 2 {
				return true
			}
			parent := stack[len(stack)-2]
			pos := fset.Position(id.Pos())
			at := fmt.Sprintf("%s:%d", filepath.Base(pos.Filename), pos.Line)
			switch pa := parent.(type) {
			case *ast.ValueSpec:
				for _, nm := range pa.Names {
					if nm == id {
						return true
					}
				}
			case *ast.RangeStmt:
				if pa.X == id {
					return true
				}
			case *ast.IndexExpr:
				if pa.X == id && len(stack) >= 3 {
					switch gp := stack[len(stack)-3].(type) {
					case *ast.AssignStmt:
						for _, l := range gp.Lhs {
							if l == pa {
								why = "assignment to an element at " + at
								return true
							}
						}
						return true
					case *ast.IncDecStmt:
						why = "++/-- of an element at " + at
						return true
					case *ast.UnaryExpr:
						if gp.Op == token.AND {
							why = "address of an element at " + at
						}
						return true
					default:
						return true
					}
				}
			case *ast.SelectorExpr:
				if pa.Sel == id {
					return true // a field or method of that name, not the variable
				}
			case *ast.KeyValueExpr:
				if pa.Key == id {
					return true // a struct field key
				}
			case *ast.Field:
				return true
			}
			why = "it is used other than by m[k] / range m at " + at
			return true
		})
	}
	return why
}

func (t *tr) declare(n string) {
	t.declareK(n, "")
}
func (t *tr) declareK(n, kind string) {
	if n == "_" {
		return
	}
	t.locals[n] = true
	t.kinds[n] = kind
	for _, d := range t.declOrder {
		if d == n {
			return
		}
	}
	t.declOrder = append(t.declOrder, n)
}
func (t *tr) snapshot() map[string]bool {
	m := map[string]bool{}
	for k, v := range t.locals {
		m[k] = v
	}
	// a variable declared in a block may shadow a parameter (`cached := cached.ForceUnwrap()`): what is known about
	// the names is saved with the scope and put back when the block is left
	sc := scopeInfo{kinds: map[string]string{}, gotypes: map[string]ast.Expr{}}
	for k, v := range t.kinds {
		sc.kinds[k] = v
	}
	for k, v := range t.gotypes {
		sc.gotypes[k] = v
	}
	if t.scopes == nil {
		t.scopes = map[uintptr]scopeInfo{}
	}
	t.scopes[reflect.ValueOf(m).Pointer()] = sc
	return m
}
func (t *tr) restore(m map[string]bool) {
	t.locals = map[string]bool{}
	for k, v := range m {
		t.locals[k] = v
	}
	if sc, ok := t.scopes[reflect.ValueOf(m).Pointer()]; ok {
		t.kinds, t.gotypes = map[string]string{}, map[string]ast.Expr{}
		for k, v := range sc.kinds {
			t.kinds[k] = v
		}
		for k, v := range sc.gotypes {
			t.gotypes[k] = v
		}
	}
}

type scopeInfo struct {
	kinds   map[string]string
	gotypes map[string]ast.Expr
}

// a `:=` inside a nested block that re-declares a visible name would be scoped to the block in Go; the flattened
// let-sequence cannot express that, so it is refused
func (t *tr) checkNoShadow(list []ast.Stmt) {
	for _, s := range list {
		if a, ok := s.(*ast.AssignStmt); ok && a.Tok == token.DEFINE {
			for _, l := range a.Lhs {
				if id, ok := l.(*ast.Ident); ok && id.Name != "_" && t.locals[id.Name] {
					fail("%s (%s): `%s :=` shadows an outer variable inside a nested block", t.spec.Lean, t.spec.File, id.Name)
				}
			}
		}
	}
}

func (g *genOut) ensure(from *tr, key string) string {
	if n, ok := g.done[key]; ok {
		return n
	}
	sp, ok := g.specs[key]
	if !ok {
		sp = autoSpec(from, key)
		g.specs[key] = sp
	}
	translate(g, from.pkg, sp, key)
	return g.done[key]
}

// autoSpec: a helper the translated function calls (an extracted method or function of the same package) gets a spec
// derived from its Go signature and from the caller's spec: same receiver binder (only for a method on the SAME receiver
// type), one binder per parameter by its Go type, the caller's receiver-relative leaf rules. Anything else is refused.
func autoSpec(from *tr, key string) *Spec {
	fn := from.pkg.funcs[key]
	if fn == nil || fn.Body == nil {
		fail("%s: calls %s, which is not a function of the package", from.spec.Lean, key)
	}
	useStr := false
	for _, b := range from.spec.Binders {
		if strings.Contains(b, ": Str)") {
			useStr = true
		}
	}
	leanType := func(e ast.Expr) string {
		switch show(e) {
		case "string":
			if useStr {
				return "Str"
			}
			return "String"
		case "bool":
			return "Bool"
		case "int", "int64", "int32", "time.Duration", "time.Time", "bytesize.ByteSize", "ByteSize", "duration.Duration":
			return "Int"
		case "rune", "byte":
			return "Char"
		case "error":
			return "Bool"
		}
		// a named type of the package: its underlying type
		for _, f := range from.pkg.files {
			for _, d := range f.Decls {
				if gd, ok := d.(*ast.GenDecl); ok && gd.Tok == token.TYPE {
					for _, sp := range gd.Specs {
						if ts, ok := sp.(*ast.TypeSpec); ok && ts.Name.Name == show(e) {
							switch show(ts.Type) {
							case "string", "bool", "int", "int64", "int32":
								return leanTypeBasic(show(ts.Type), useStr)
							}
						}
					}
				}
			}
		}
		if l, ok := from.spec.Structs[typeBaseName(e)]; ok {
			return l
		}
		fail("%s: calls %s whose signature uses the type %s (no automatic spec)", from.spec.Lean, key, show(e))
		return ""
	}
	sp := &Spec{File: from.spec.File, Func: fn.Name.Name, Lean: from.spec.Lean + "_" + mangle(lowerFirst(fn.Name.Name)), Group: from.spec.Group,
		Leaves: map[string]string{}, Ignore: from.spec.Ignore, Doc: "helper translated on demand (automatic spec)", Structs: from.spec.Structs, Imports: from.spec.Imports}
	sameRecv := fn.Recv != nil && from.fn != nil && from.fn.Recv != nil && recvTypeName(from.fn.Recv.List[0].Type) == recvTypeName(fn.Recv.List[0].Type) && !from.spec.FuncLit
	if fn.Recv != nil && len(fn.Recv.List) == 1 && !sameRecv {
		// a method of another struct type of the package, called on a variable: the receiver is an ordinary first binder
		// whose Lean type the caller's `structs` map gives
		rt := recvTypeName(fn.Recv.List[0].Type)
		lt, ok := from.spec.Structs[rt]
		if !ok || len(fn.Recv.List[0].Names) != 1 {
			fail("%s: calls the method %s of another receiver type that the spec's structs map does not cover (no automatic spec)", from.spec.Lean, key)
		}
		sp.Recv = rt
		sp.Binders = append(sp.Binders, "("+mangle(fn.Recv.List[0].Names[0].Name)+" : "+lt+")")
	} else if fn.Recv != nil && len(fn.Recv.List) == 1 {
		if from.fn == nil || from.fn.Recv == nil || recvTypeName(from.fn.Recv.List[0].Type) != recvTypeName(fn.Recv.List[0].Type) || len(from.spec.Binders) == 0 {
			fail("%s: calls the method %s of another receiver type (no automatic spec)", from.spec.Lean, key)
		}
		sp.Recv = recvTypeName(fn.Recv.List[0].Type)
		sp.Binders = append(sp.Binders, from.spec.Binders[0])
		for k, v := range from.spec.Leaves {
			if strings.HasPrefix(k, "$r") && !regexp.MustCompile(`\$[0-9]`).MatchString(k) {
				sp.Leaves[k] = v
			}
		}
	}
	for k, v := range from.spec.Leaves {
		if !strings.Contains(k, "$") {
			sp.Leaves[k] = v
		}
	}
	for _, f := range fn.Type.Params.List {
		for _, n := range f.Names {
			sp.Binders = append(sp.Binders, "("+mangle(n.Name)+" : "+leanType(f.Type)+")")
		}
	}
	usesClock := false
	ast.Inspect(fn.Body, func(n ast.Node) bool {
		if c, ok := n.(*ast.CallExpr); ok {
			switch show(c.Fun) {
			case "time.Now", "time.Until", "time.Since":
				usesClock = true
			}
		}
		return true
	})
	if usesClock {
		sp.Binders = append(sp.Binders, "(now : Int)")
	}
	rets := []string{}
	if fn.Type.Results != nil {
		for _, f := range fn.Type.Results.List {
			n := len(f.Names)
			if n == 0 {
				n = 1
			}
			for i := 0; i < n; i++ {
				rets = append(rets, leanType(f.Type))
				if show(f.Type) == "error" {
					sp.Results = append(sp.Results, "err")
				} else {
					sp.Results = append(sp.Results, "val")
				}
			}
		}
	}
	if len(rets) == 0 {
		fail("%s: calls %s, which returns nothing (no automatic spec)", from.spec.Lean, key)
	}
	sp.Ret = strings.Join(rets, " × ")
	return sp
}

func leanTypeBasic(t string, useStr bool) string {
	switch t {
	case "string":
		if useStr {
			return "Str"
		}
		return "String"
	case "bool":
		return "Bool"
	}
	return "Int"
}

func findFuncLit(body *ast.BlockStmt) *ast.FuncLit {
	var fl *ast.FuncLit
	ast.Inspect(body, func(n ast.Node) bool {
		if fl != nil {
			return false
		}
		if f, ok := n.(*ast.FuncLit); ok {
			fl = f
			return false
		}
		return true
	})
	return fl
}

func translate(g *genOut, pkg *pkgInfo, sp *Spec, key string) {
	if _, ok := g.done[key]; ok {
		return
	}
	fn, ok := pkg.funcs[key]
	if !ok {
		fail("%s: function %s not found in %s", sp.Lean, key, pkg.dir)
	}
	t := &tr{spec: sp, pkg: pkg, fn: fn, locals: map[string]bool{}, plean: map[string]string{}, out: g, kinds: map[string]string{}, used: map[string]bool{}, gotypes: map[string]ast.Expr{}}
	if fn.Recv != nil && len(fn.Recv.List) == 1 && len(fn.Recv.List[0].Names) == 1 {
		t.recv = fn.Recv.List[0].Names[0].Name
	}
	ftype, body := fn.Type, fn.Body
	if sp.FuncLit {
		fl := findFuncLit(fn.Body)
		if fl == nil {
			fail("%s: no function literal in %s", sp.Lean, key)
		}
		ftype, body = fl.Type, fl.Body
		t.recv = ""
	}
	paramTypes := map[string]ast.Expr{}
	for _, f := range ftype.Params.List {
		for _, n := range f.Names {
			t.params = append(t.params, n.Name)
			paramTypes[n.Name] = f.Type
		}
	}
	if !sp.FuncLit && sp.Expr == "" && sp.Cond == "" && sp.Block == "" && sp.HdrBlock == "" {
		// positional correspondence: receiver (if any) then the Go parameters <=> the first binders of the spec
		bn := []string{}
		for _, b := range sp.Binders {
			bn = append(bn, strings.TrimSpace(strings.SplitN(strings.TrimPrefix(b, "("), ":", 2)[0]))
		}
		k := 0
		if t.recv != "" {
			if len(bn) > 0 {
				t.plean[t.recv] = bn[0]
			}
			k = 1
		}
		for i, pn := range t.params {
			if k+i >= len(bn) {
				fail("%s: Go function %s has more parameters than the spec has binders", sp.Lean, key)
			}
			t.plean[pn] = bn[k+i]
			// the kind of a parameter: a Go string is of kind Str only if its Lean binder says `Str`
			kind := kindOfGoType(paramTypes[pn])
			if kind == kStr {
				kind = kString
				if regexp.MustCompile(`^\(\s*` + regexp.QuoteMeta(bn[k+i]) + `\s*:\s*(Rv\.)?Str\s*\)$`).MatchString(sp.Binders[k+i]) {
					kind = kStr
				}
			}
			t.kinds[pn] = kind
			t.gotypes[pn] = paramTypes[pn]
		}
		if t.recv != "" && fn.Recv != nil && !sp.FuncLit {
			t.gotypes[t.recv] = fn.Recv.List[0].Type
		}
	}
	pre := ""
	if ftype.Results != nil && len(sp.Returns) == 0 { // a decider (spec.returns) does not compute the results
		for _, f := range ftype.Results.List {
			for _, n := range f.Names {
				t.named = append(t.named, n.Name)
				t.declareK(n.Name, kindOfGoType(f.Type))
				pre += "let " + mangle(n.Name) + " := " + t.zero(f.Type) + "\n  "
			}
		}
	}
	pn := []string{}
	for n := range sp.Pseudo {
		pn = append(pn, n)
	}
	sort.Strings(pn)
	for _, n := range pn {
		t.pseudo = append(t.pseudo, n)
		pre += "let " + n + " := " + sp.Pseudo[n] + "\n  "
	}
	if sp.HdrParam != "" {
		// the http.Header parameter the function mutates: a local of kind Hdr, initialised from its binder; its final
		// value is the result of the translated function
		b := t.plean[sp.HdrParam]
		if b == "" || show(paramTypes[sp.HdrParam]) != "http.Header" || (ftype.Results != nil && len(ftype.Results.List) != 0) || len(t.pseudo) != 0 {
			fail("%s: hdrparam %s must be a parameter of type http.Header of a function without results (and without pseudo results)", sp.Lean, sp.HdrParam)
		}
		t.declareK(sp.HdrParam, kHdr)
		t.pseudo = append(t.pseudo, mangle(sp.HdrParam))
		pre += "let " + mangle(sp.HdrParam) + " := " + b + "\n  "
	}
	g.done[key] = "Rv.Generated.Src." + sp.Lean // before the body: recursion is refused by Lean anyway
	var bodyTerm string
	switch {
	case sp.Expr != "":
		var rhs ast.Expr
		ast.Inspect(body, func(n ast.Node) bool {
			if a, ok := n.(*ast.AssignStmt); ok && rhs == nil && len(a.Lhs) == 1 && len(a.Rhs) == 1 {
				if id, ok := a.Lhs[0].(*ast.Ident); ok && id.Name == sp.Expr {
					rhs = a.Rhs[0]
				}
			}
			return rhs == nil
		})
		if rhs == nil {
			fail("%s: no assignment to `%s` in %s", sp.Lean, sp.Expr, key)
		}
		bodyTerm = t.expr(rhs).render()
	case sp.HdrBlock != "":
		re := regexp.MustCompile(sp.HdrBlock)
		var list []ast.Stmt
		ast.Inspect(body, func(n ast.Node) bool {
			if b, ok := n.(*ast.BlockStmt); ok && list == nil {
				for i, st := range b.List {
					if is, ok := st.(*ast.IfStmt); ok && re.MatchString(show(is.Cond)) {
						if sp.HdrCount < 1 || i+sp.HdrCount > len(b.List) {
							fail("%s: hdrcount %d statements from the matched `if` do not fit its block", sp.Lean, sp.HdrCount)
						}
						list = append([]ast.Stmt{}, b.List[i:i+sp.HdrCount]...)
						break
					}
				}
			}
			return list == nil
		})
		if list == nil {
			fail("%s: no `if` statement whose condition matches %s in %s", sp.Lean, sp.HdrBlock, key)
		}
		if sp.HdrExpr == "" || len(sp.Binders) == 0 || !strings.Contains(sp.Binders[0], "Hdr") || len(t.pseudo) != 0 {
			fail("%s: a hdrblock spec needs hdrexpr and a first binder of type Rv.Headers.Hdr (and no pseudo results)", sp.Lean)
		}
		for _, st := range list {
			// the translated statements may only fall through: a return / break / goto inside them is refused
			ast.Inspect(st, func(n ast.Node) bool {
				switch n.(type) {
				case *ast.ReturnStmt, *ast.BranchStmt, *ast.GoStmt, *ast.DeferStmt:
					fail("%s: the statements of a hdrblock must fall through (found `%s`)", sp.Lean, show(n))
				}
				return true
			})
		}
		hb := strings.TrimSpace(strings.SplitN(strings.TrimPrefix(sp.Binders[0], "("), ":", 2)[0])
		t.hdrAlias = "hdr_"
		t.declareK(t.hdrAlias, kHdr)
		t.pseudo = append(t.pseudo, t.hdrAlias)
		bodyTerm = "let hdr_ := " + hb + "\n  " + t.stmts(list)
	case sp.Block != "":
		var blk *ast.IfStmt
		re := regexp.MustCompile(sp.Block)
		ast.Inspect(body, func(n ast.Node) bool {
			if i, ok := n.(*ast.IfStmt); ok && blk == nil && re.MatchString(show(i.Cond)) {
				blk = i
			}
			return blk == nil
		})
		if blk == nil {
			fail("%s: no `if` statement whose condition matches %s in %s", sp.Lean, sp.Block, key)
		}
		if sp.Ret != "Option String" || ftype.Results == nil || len(ftype.Results.List) != 1 || show(ftype.Results.List[0].Type) != "error" {
			fail("%s: a block spec needs ret \"Option String\" and a Go function with the single result `error`", sp.Lean)
		}
		t.blockMode = true
		bodyTerm = t.stmts([]ast.Stmt{blk})
	case sp.Cond != "":
		var cond ast.Expr
		re := regexp.MustCompile(sp.Cond)
		ast.Inspect(body, func(n ast.Node) bool {
			if i, ok := n.(*ast.IfStmt); ok && cond == nil && re.MatchString(show(i.Cond)) {
				cond = i.Cond
			}
			return cond == nil
		})
		if cond == nil {
			fail("%s: no `if` condition matching %s in %s", sp.Lean, sp.Cond, key)
		}
		bodyTerm = t.expr(cond).render()
	default:
		list := body.List
		if sp.Until != "" {
			cut := -1
			for i, st := range list {
				if a, ok := st.(*ast.AssignStmt); ok && len(a.Lhs) == 1 && show(a.Lhs[0]) == sp.Until {
					cut = i
					break
				}
			}
			if cut < 0 {
				fail("%s: no top-level assignment to `%s` in %s (until)", sp.Lean, sp.Until, key)
			}
			list = append(append([]ast.Stmt{}, list[:cut+1]...), &ast.ReturnStmt{Results: []ast.Expr{ast.NewIdent(sp.Until)}})
		}
		bodyTerm = pre + t.stmts(list)
	}
	pos := fset.Position(fn.Pos())
	rel := sp.File
	if r, err := filepath.Rel(repoRoot, pos.Filename); err == nil && !strings.HasPrefix(r, "..") {
		rel = r // the file the function is really in (a helper translated on demand may live in another file)
	}
	doc := fmt.Sprintf("/-- translated from `%s` (%s:%d)%s -/\n", key, rel, pos.Line, map[bool]string{true: " — " + sp.Doc, false: ""}[sp.Doc != ""])
	attr := ""
	if strings.HasPrefix(sp.Doc, "helper translated on demand") {
		attr = "@[simp] " // unfolded by `simp` in the equivalence proofs: an extracted helper is transparent to them
	}
	def := doc + attr + "def " + sp.Lean + " " + strings.Join(sp.Binders, " ") + " : Option (" + sp.Ret + ") :=\n  " + bodyTerm + "\n"
	g.defs = append(g.defs, def)
	g.order = append(g.order, key)
}

func (g *genOut) init() {
	g.done = map[string]string{}
	g.maps = map[string]bool{}
}

func main() {
	repo := flag.String("repo", "/repo", "repository root")
	specFile := flag.String("spec", "", "translation specs (JSON)")
	out := flag.String("out", "", "output directory (Rv/Generated)")
	flag.Parse()
	repoRoot = *repo
	raw, err := os.ReadFile(*specFile)
	if err != nil {
		fmt.Fprintln(os.Stderr, "go2lean:", err)
		os.Exit(3)
	}
	var specs []*Spec
	if err := json.Unmarshal(raw, &specs); err != nil {
		fmt.Fprintln(os.Stderr, "go2lean: spec:", err)
		os.Exit(3)
	}
	groups := []string{}
	byGroup := map[string][]*Spec{}
	for _, s := range specs {
		if _, ok := byGroup[s.Group]; !ok {
			groups = append(groups, s.Group)
		}
		byGroup[s.Group] = append(byGroup[s.Group], s)
	}
	status := map[string]string{}
	for _, grp := range groups {
		path := filepath.Join(*out, "Src"+grp+".lean")
		os.Remove(path)
		text, msg := translateGroup(grp, byGroup[grp])
		if msg != "" {
			status[grp] = msg
			fmt.Fprintf(os.Stderr, "go2lean: group %s REFUSED: %s\n", grp, msg)
			continue
		}
		status[grp] = "ok"
		if err := os.WriteFile(path, []byte(text), 0o644); err != nil {
			fmt.Fprintln(os.Stderr, "go2lean:", err)
			os.Exit(3)
		}
	}
	js, _ := json.Marshal(status)
	fmt.Println(string(js))
	for _, v := range status {
		if v != "ok" {
			os.Exit(2)
		}
	}
}

func translateGroup(grp string, specs []*Spec) (text string, refused string) {
	defer func() {
		if r := recover(); r != nil {
			if rf, ok := r.(refusal); ok {
				text, refused = "", rf.msg
				return
			}
			panic(r)
		}
	}()
	var b strings.Builder
	extra, seenImp := "", map[string]bool{}
	for _, s := range specs {
		for _, im := range s.Imports {
			if !seenImp[im] {
				seenImp[im] = true
				extra += "import " + im + "\n"
			}
		}
	}
	b.WriteString("/- GENERATED by /verif/tools/go2lean from the current source of /repo. Do not edit.\n   Every definition is the translation of one Go function (or of one expression of it); `none` = Go run-time panic. -/\nimport Rv.Model.SrcViews\n" + extra + "namespace Rv.Generated.Src\nopen Rv.SrcViews\n\n")
	byDir := map[string][]*Spec{}
	dirs := []string{}
	for _, s := range specs {
		d := filepath.Dir(s.File)
		if _, ok := byDir[d]; !ok {
			dirs = append(dirs, d)
		}
		byDir[d] = append(byDir[d], s)
	}
	for _, d := range dirs {
		pkg := loadPkg(filepath.Join(repoRoot, d))
		g := &genOut{}
		g.init()
		g.specs = map[string]*Spec{}
		keys := []string{}
		for _, s := range byDir[d] {
			k := s.Func
			if s.Recv != "" {
				k = s.Recv + "." + s.Func
			}
			if s.Expr != "" || s.Cond != "" || s.Block != "" || s.HdrBlock != "" {
				base := k
				k = k + "#" + s.Lean
				pkg.funcs[k] = pkg.funcs[base]
				if pkg.funcs[k] == nil {
					fail("%s: function %s not found in %s", s.Lean, base, d)
				}
			}
			g.specs[k] = s
			keys = append(keys, k)
		}
		for _, k := range keys {
			translate(g, pkg, g.specs[k], k)
		}
		for _, def := range g.defs {
			b.WriteString(def + "\n")
		}
	}
	b.WriteString("end Rv.Generated.Src\n")
	return b.String(), ""
}
